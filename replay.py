#!/usr/bin/env python3
"""python3 replay.py <replay.json>: re-run the recorded failing input against /repo's working tree."""
import importlib
import json
import os
import sys

sys.path.insert(0, os.path.dirname(os.path.abspath(__file__)))
from harness import common  # noqa: E402


def main():
    common.reexec_in_venv()
    common.assert_repo_ocpp()
    d = json.load(open(sys.argv[1]))
    print("property:", d["property"])
    print("key:     ", d["key"])
    print("what:    ", d["what"])
    if not d.get("found_failing_input", True):
        print("no failing input was found; the broken obligation is:", d.get("theorem") or d.get("correspondence"))
    mod = importlib.import_module("harness.props." + d["property"].lower())
    if hasattr(mod, "replay"):
        return mod.replay(d)
    print("(this property has no dedicated replay; re-run: python3 check.py %s quick)" % d["property"])
    return 0


if __name__ == "__main__":
    sys.exit(main())
