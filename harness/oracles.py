"""Direct statements of the properties on one observation of the real endpoint (used to decide
whether a disagreement / broken obligation comes with a concrete failing input)."""
import decimal
import json

VALIDATION_CODE = {"type": "TypeConstraintViolation", "maxLength": "TypeConstraintViolation",
                   "required": "ProtocolError"}


def code_for(kw):
    return VALIDATION_CODE.get(kw.split(":")[0], "FormatViolation")


def jkey(v):
    """Type-faithful key of a JSON value (True != 1, 1 != 1.0)."""
    return json.dumps(v, sort_keys=True, default=lambda o: "D:" + str(o))


def parse_call(raw):
    """(id, action, payload) if raw is a well-formed CALL in Python's JSON dialect, else None."""
    try:
        v = json.loads(raw)
    except (ValueError, RecursionError):
        return None
    if isinstance(v, list) and len(v) == 4 and not isinstance(v[0], (list, dict, str, type(None))) and v[0] == 2:
        return v[1], v[2], v[3]
    return None


def sends(obs):
    return [json.loads(e[1]) for e in obs if e[0] == "send"]


def handler_returns_dataclass(routes):
    return all(not (r.get("on") and r["on"]["out"][0] == "bad") for r in routes)


def num_equal(a, b):
    if isinstance(a, bool) or isinstance(b, bool):
        return a is b
    if isinstance(a, (int, float, decimal.Decimal)) and isinstance(b, (int, float, decimal.Decimal)):
        if isinstance(a, float) and a != a:
            return isinstance(b, (float, decimal.Decimal)) and b != b
        return decimal.Decimal(repr(a) if isinstance(a, float) else a) == decimal.Decimal(repr(b) if isinstance(b, float) else b) \
            and isinstance(a, int) == isinstance(b, int)
    return None


def same_value(a, b):
    """Equality of payload values: containers structurally, numbers by decimal digits
    (float 21.4 ~ Decimal('21.4'); int 3 !~ 3.0)."""
    n = num_equal(a, b)
    if n is not None:
        return n
    if isinstance(a, dict) and isinstance(b, dict):
        return set(a) == set(b) and all(same_value(a[k], b[k]) for k in a)
    if isinstance(a, (list, tuple)) and isinstance(b, (list, tuple)):
        return len(a) == len(b) and all(same_value(x, y) for x, y in zip(a, b))
    return type(a) is type(b) and a == b or (isinstance(a, str) and isinstance(b, str) and a == b)


def c01(kind, version, routes, raw, obs, info=None):
    bad = []
    if not handler_returns_dataclass(routes):
        return bad
    esc = [e for e in obs if e[0] == "escape"]
    if esc:
        bad.append(("escape:%s:%s" % (esc[0][1], kind), "processing the frame raised %s: %s" % (esc[0][1], esc[0][2])))
    call = parse_call(raw)
    w = [e for e in obs if e[0] == "send"]
    if call is None:
        if w:
            bad.append(("spurious-reply:" + kind, "a frame that is not a CALL was answered with %r" % (w[0][1][:120],)))
        return bad
    if len(w) != 1:
        if not esc:
            bad.append(("reply-count:%d:%s" % (len(w), kind), "a well-formed CALL got %d replies" % len(w)))
        return bad
    try:
        fr = json.loads(w[0][1])
    except ValueError:
        bad.append(("reply-not-json:" + kind, "the reply is not JSON: %r" % w[0][1][:120]))
        return bad
    ok = isinstance(fr, list) and ((len(fr) == 3 and fr[0] == 3) or (len(fr) == 5 and fr[0] == 4 and isinstance(fr[2], str)
                                                                        and isinstance(fr[3], str)))
    if not ok:
        bad.append(("reply-shape:" + kind, "the reply %r is neither a CALLRESULT nor a CALLERROR" % (w[0][1][:120],)))
    elif jkey(fr[1]) != jkey(call[0]) and not (isinstance(call[0], float) and call[0] != call[0]):
        bad.append(("reply-id:" + kind, "the reply carries id %r, the CALL had %r" % (fr[1], call[0])))
    return bad
