"""Direct statements of the properties on one observation of the real endpoint (used to decide
whether a disagreement / broken obligation comes with a concrete failing input)."""
import decimal
import json

VALIDATION_CODE = {"type": "TypeConstraintViolation", "maxLength": "TypeConstraintViolation",
                   "required": "ProtocolError"}


def code_for(kw):
    return VALIDATION_CODE.get(kw.split(":")[0], "FormatViolation")


def jkey(v):
    """Type-faithful key of a JSON value (True != 1, 1 != 1.0)."""
    return json.dumps(v, sort_keys=True, default=lambda o: "D:" + str(o))


def parse_call(raw):
    """(id, action, payload) if raw is a well-formed CALL in Python's JSON dialect, else None."""
    try:
        v = json.loads(raw)
    except (ValueError, RecursionError):
        return None
    if isinstance(v, list) and len(v) == 4 and not isinstance(v[0], (list, dict, str, type(None))) and v[0] == 2:
        return v[1], v[2], v[3]
    return None


def sends(obs):
    return [json.loads(e[1]) for e in obs if e[0] == "send"]


def handler_returns_dataclass(routes):
    return all(not (r.get("on") and r["on"]["out"][0] == "bad") for r in routes)


def num_equal(a, b):
    if isinstance(a, bool) or isinstance(b, bool):
        return a is b
    if isinstance(a, (int, float, decimal.Decimal)) and isinstance(b, (int, float, decimal.Decimal)):
        if isinstance(a, float) and a != a:
            return isinstance(b, (float, decimal.Decimal)) and b != b
        return decimal.Decimal(repr(a) if isinstance(a, float) else a) == decimal.Decimal(repr(b) if isinstance(b, float) else b) \
            and isinstance(a, int) == isinstance(b, int)
    return None


def same_value(a, b):
    """Equality of payload values: containers structurally, numbers by decimal digits
    (float 21.4 ~ Decimal('21.4'); int 3 !~ 3.0)."""
    n = num_equal(a, b)
    if n is not None:
        return n
    if isinstance(a, dict) and isinstance(b, dict):
        return set(a) == set(b) and all(same_value(a[k], b[k]) for k in a)
    if isinstance(a, (list, tuple)) and isinstance(b, (list, tuple)):
        return len(a) == len(b) and all(same_value(x, y) for x, y in zip(a, b))
    return type(a) is type(b) and a == b or (isinstance(a, str) and isinstance(b, str) and a == b)


def c01(kind, version, routes, raw, obs, info=None):
    bad = []
    if not handler_returns_dataclass(routes) or (info or {}).get("send_ok") is False:
        return bad              # outside the property's hypotheses
    esc = [e for e in obs if e[0] == "escape"]
    if esc:
        bad.append(("escape:%s:%s" % (esc[0][1], kind), "processing the frame raised %s: %s" % (esc[0][1], esc[0][2])))
    call = parse_call(raw)
    w = [e for e in obs if e[0] == "send"]
    if call is None:
        if w:
            bad.append(("spurious-reply:" + kind, "a frame that is not a CALL was answered with %r" % (w[0][1][:120],)))
        return bad
    if len(w) != 1:
        if not esc:
            bad.append(("reply-count:%d:%s" % (len(w), kind), "a well-formed CALL got %d replies" % len(w)))
        return bad
    try:
        fr = json.loads(w[0][1])
    except ValueError:
        bad.append(("reply-not-json:" + kind, "the reply is not JSON: %r" % w[0][1][:120]))
        return bad
    ok = isinstance(fr, list) and ((len(fr) == 3 and fr[0] == 3) or (len(fr) == 5 and fr[0] == 4 and isinstance(fr[2], str)
                                                                        and isinstance(fr[3], str) and isinstance(fr[4], dict)))
    if not ok:
        bad.append(("reply-shape:" + kind, "the reply %r is neither a CALLRESULT nor a CALLERROR" % (w[0][1][:120],)))
    elif jkey(fr[1]) != jkey(call[0]) and not (isinstance(call[0], float) and call[0] != call[0]):
        bad.append(("reply-id:" + kind, "the reply carries id %r, the CALL had %r" % (fr[1], call[0])))
    return bad


def _route_for(routes, action):
    for r in routes:
        if isinstance(action, str) and r["action"] == action:
            return r
    return None


def _drop_nulls(v):
    if isinstance(v, dict):
        return {k: _drop_nulls(x) for k, x in v.items() if x is not None}
    if isinstance(v, list):
        return [_drop_nulls(x) for x in v]
    return v


def _snake(payload):
    from ocpp.charge_point import camel_to_snake_case
    return camel_to_snake_case(payload)


def _camel(payload):
    from ocpp.charge_point import snake_to_camel_case
    return snake_to_camel_case(payload)


def c05(kind, version, routes, raw, obs, info=None):
    """Inbound half: a violating CALL never reaches the handler and gets the mapped code; a valid
    one does reach it; an invalid handler result is replaced by a CALLERROR with the mapped code."""
    bad = []
    info = info or {}
    call = parse_call(raw)
    if kind == "malformed-5th":
        hs5, w5 = [e for e in obs if e[0] == "handler"], sends(obs)
        if hs5 or w5:
            bad.append(("malformed-accepted:%s" % version,
                        "a CALL frame with a surplus fifth element was processed: handler ran %r, written %r" % (bool(hs5), w5[:1])))
        return bad
    if call is None:
        return bad
    handlers = [e for e in obs if e[0] == "handler"]
    w = sends(obs)
    if kind in ("bad-req", "bad-req-other-skips"):
        allowed = sorted({code_for(kw) for (_, kw) in info.get("tags", [])})
        if handlers:
            bad.append(("handler-ran:%s:%s:%s" % (version, call[1], json.dumps(info.get("tags"))),
                        "the handler ran for a %s CALL violating %s" % (call[1], info.get("tags"))))
        if len(w) == 1 and isinstance(w[0], list) and w[0][0] == 4:
            if w[0][2] not in allowed:
                bad.append(("code:%s:%s:%s" % (version, call[1], json.dumps(info.get("tags"))),
                            "violation of %s answered with %s, expected one of %s" % (info.get("tags"), w[0][2], allowed)))
        elif len(w) == 1:
            bad.append(("accepted:%s:%s:%s" % (version, call[1], json.dumps(info.get("tags"))),
                        "a %s CALL violating %s was answered with a CALLRESULT" % (call[1], info.get("tags"))))
    elif kind == "cross":
        # a payload written for the OTHER version's schema of the same action: judged by this version's schema file
        # (an evaluation of the file that shares nothing with the library), whichever version was validated first
        from harness import verdict as V
        ok = V.independent_verdict(version, "Call", call[1], call[2])
        if ok is False and (handlers or not (len(w) == 1 and w[0][0] == 4)):
            bad.append(("cross-accepted:%s:%s" % (version, call[1]),
                        "a %s CALL that OCPP %s's schema refuses (it fits the other version's) %s: written %r" % (
                            call[1], version, "reached the handler" if handlers else "was not refused", [x[:3] for x in w[:1]])))
        if ok is True and not handlers:
            bad.append(("cross-refused:%s:%s" % (version, call[1]),
                        "a %s CALL that OCPP %s's schema accepts was refused: %r" % (call[1], version, [x[:3] for x in w[:1]])))
    elif kind in ("ok", "explicit", "raise-ocpp", "raise-other", "bad-res"):
        if not handlers:
            bad.append(("handler-missing:%s:%s:%s" % (kind, version, call[1]),
                        "the handler did not run for a schema-valid %s CALL" % (call[1],)))
        if kind == "bad-res":
            allowed = sorted({code_for(kw) for (_, kw) in info.get("tags", [])})
            if not (len(w) == 1 and isinstance(w[0], list) and w[0][0] == 4 and w[0][2] in allowed):
                bad.append(("bad-result:%s:%s:%s" % (version, call[1], json.dumps(info.get("tags"))),
                            "a handler result violating %s led to %r, expected a CALLERROR with one of %s" % (
                                info.get("tags"), w[:1], allowed)))
    return bad


def c07(kind, version, routes, raw, obs, info=None):
    bad = []
    call = parse_call(raw)
    if call is None or kind not in ("ok", "ok-role-clash", "explicit", "raise-ocpp", "raise-other", "bad-res", "skip", "id", "corpus",
                                    "send-fails"):
        return bad
    uid, action, payload = call
    r = _route_for(routes, action)
    if r is None or not r.get("on") or not isinstance(payload, dict):
        return bad
    hs = [e for e in obs if e[0] == "handler"]
    tag = "%s:%s:%s" % (kind, version, action)
    if len(hs) != 1:
        bad.append(("handler-count:%d:%s" % (len(hs), tag), "the handler of %s ran %d times" % (action, len(hs))))
        return bad
    h = hs[0]
    if h[1] != r["on"]["name"]:
        bad.append(("wrong-handler:" + tag, "handler %s ran for action %s (registered: %s)" % (h[1], action, r["on"]["name"])))
    want = _snake(payload)
    if not same_value(h[2], want):
        bad.append(("kwargs:" + tag, "handler keywords %r differ from the payload %r" % (h[2], want)))
    declared = r["on"]["sig"]["uid"]
    if declared != h[3][0] or (declared and jkey(h[3][1]) != jkey(uid)):
        bad.append(("uid:" + tag, "call_unique_id passed=%r (declared=%r, id=%r)" % (h[3], declared, uid)))
    afters = [e for e in obs if e[0] == "after"]
    order = [e[0] for e in obs if e[0] in ("handler", "send", "after")]
    w = sends(obs)
    replied_ok = len(w) == 1 and w[0][0] == 3
    if r.get("after") and replied_ok:
        if len(afters) != 1:
            bad.append(("after-count:%d:%s" % (len(afters), tag), "the after-hook ran %d times" % len(afters)))
        else:
            a = afters[0]
            if order != ["handler", "send", "after"]:
                bad.append(("after-order:" + tag, "order of handler/reply/hook was %r" % (order,)))
            if a[1] != r["after"]["name"] or not same_value(a[2], want):
                bad.append(("after-args:" + tag, "the after-hook got %r %r" % (a[1], a[2])))
            d2 = r["after"]["sig"]["uid"]
            if d2 != a[3][0] or (d2 and jkey(a[3][1]) != jkey(uid)):
                bad.append(("after-uid:" + tag, "after-hook call_unique_id passed=%r (declared=%r)" % (a[3], d2)))
    elif afters and not replied_ok:
        bad.append(("after-without-reply:" + tag, "the after-hook ran although no CALLRESULT was written"))
    elif afters and not r.get("after"):
        bad.append(("after-spurious:" + tag, "an after-hook ran that is not registered for %s" % action))
    return bad


def c16(kind, version, routes, raw, obs, info=None):
    bad = []
    call = parse_call(raw)
    if kind == "malformed-5th":
        if [e for e in obs if e[0] == "handler"] or sends(obs):
            bad.append(("malformed-accepted:%s" % version, "a CALL frame with a surplus fifth element was processed: written %r" % (sends(obs)[:1],)))
        return bad
    if call is None:
        return bad
    uid, action, payload = call
    r = _route_for(routes, action)
    tag = "%s:%s:%s" % (kind, version, action)
    hs = [e for e in obs if e[0] == "handler"]
    w = sends(obs)
    if kind == "skip" and r and r.get("skip") and isinstance(payload, dict):
        if len(hs) != 1 or not same_value(hs[0][2], _snake(payload)):
            bad.append(("skip-not-delivered:" + tag, "with validation skipped the payload was not delivered unchanged: %r" % (hs,)))
        from ocpp.charge_point import remove_nones
        out = r["on"]["out"]
        if out[0] == "ret":
            want = _camel(remove_nones(out[1]))
            if not (len(w) == 1 and w[0][0] == 3 and same_value(w[0][2], want)):
                bad.append(("skip-result-changed:" + tag, "with validation skipped the result %r was written as %r" % (want, w)))
    if kind == "skip-vendor" and isinstance(payload, dict):
        if len(hs) != 1 or not (len(w) == 1 and w[0][0] == 3):
            bad.append(("skip-vendor:" + tag, "a route that skips validation for an action without a shipped schema: handler ran %d time(s), written %r" % (len(hs), w[:1])))
    if kind == "bad-req-other-skips":
        if hs or not (len(w) == 1 and w[0][0] == 4):
            bad.append(("skip-leaked:" + tag, "another route's skip flag exempted %s from validation" % action))
    if kind == "bad-res" and r and not r.get("skip"):
        if not (len(w) == 1 and w[0][0] == 4):
            bad.append(("result-unvalidated:" + tag, "an invalid result of a validating route was written: %r" % (w,)))
    return bad


def c17(kind, version, routes, raw, obs, info=None):
    bad = []
    call = parse_call(raw)
    if call is None or not kind.startswith("unhandled") and kind not in ("id-unhandled", "after-only"):
        return bad
    uid, action, payload = call
    if kind == "after-only":
        # only an after-hook is registered: nothing handles the action -- NotImplemented, and the hook stays out
        w0 = sends(obs)
        if [e for e in obs if e[0] in ("handler", "after", "escape")] or not (len(w0) == 1 and w0[0][0] == 4 and w0[0][2] == "NotImplemented"):
            bad.append(("after-only:%s:%s" % (version, action), "a CALL for %s, for which only an after-hook is registered, led to %r" % (
                action, [e[:2] for e in obs][:4])))
        return bad
    if _route_for(routes, action) is not None:
        return bad
    # "the action belongs to the endpoint's OCPP version": it has a request schema there (independent of the
    # Action enumeration the library itself consults)
    import glob
    import os
    from harness import common as C
    pkg = "v16" if version == "1.6" else "v201"
    names = {os.path.basename(f)[:-5] for f in glob.glob(os.path.join(C.REPO, "ocpp", pkg, "schemas", "*.json"))}
    reqs = {n for n in names if not n.endswith("Response")} if pkg == "v16" else {n[:-7] for n in names if n.endswith("Request")}
    known = isinstance(action, str) and action in reqs
    want = "NotImplemented" if known else "NotSupported"
    w = sends(obs)
    tag = "%s:%s" % (version, jkey(action)[:60])
    if [e for e in obs if e[0] in ("handler", "after")]:
        bad.append(("handler-ran:" + tag, "a handler ran for the unhandled action %r" % (action,)))
    if not (len(w) == 1 and isinstance(w[0], list) and len(w[0]) == 5 and w[0][0] == 4 and w[0][2] == want):
        bad.append(("code:" + tag, "unhandled action %r on %s answered with %r, expected CALLERROR %s" % (
            action, version, w[:1], want)))
    return bad


# ------------------------------------------------------------------------------- histories
def _caller_ids(ops):
    ids, n = {}, 0
    for o in ops:
        if o[0] == "start":
            if o[2] is None:
                ids[o[1]] = "gen-%d" % n
                n += 1
            else:
                ids[o[1]] = o[2]
    return ids


def _py_eq(a, b):
    try:
        return a == b
    except Exception:  # noqa: BLE001
        return False


# the error codes of OCPP-J 1.6 / 2.0.1 (both spellings of the two misspelt ones) and the exception each stands for
STANDARD_ERROR_CODES = ["NotImplemented", "NotSupported", "InternalError", "ProtocolError", "SecurityError", "FormatViolation",
                        "FormationViolation", "PropertyConstraintViolation", "OccurenceConstraintViolation",
                        "OccurrenceConstraintViolation", "TypeConstraintViolation", "GenericError"]


def expected_error_class(code):
    if not isinstance(code, str) or code not in STANDARD_ERROR_CODES:
        return "UnknownCallErrorCodeError"
    return code if code.endswith("Error") else code + "Error"


def c02(version, routes, ops, timeout, res):
    bad = []
    ids = _caller_ids(ops)
    uniq = {k for k, u in ids.items() if sum(1 for v in ids.values() if jkey(v) == jkey(u) or _py_eq(u, v)) == 1}
    start_index = {o[1]: i for i, o in enumerate(ops) if o[0] == "start"}
    writes = [(t, json.loads(m)) for (t, m) in res["writes"]]
    for k, (kind, detail, t) in res["outcomes"].items():
        k = int(k)
        uid = ids.get(k)
        replies = []
        for i, o in enumerate(ops):
            if o[0] == "inbound" and i > start_index.get(k, -1):
                try:
                    fr = json.loads(o[1])
                except ValueError:
                    continue
                if isinstance(fr, list) and len(fr) >= 3 and fr[0] in (3, 4) and not isinstance(fr[0], bool):
                    replies.append(fr)
        # replies that arrived before the caller started may still be queued: allow those too
        earlier = []
        for i, o in enumerate(ops):
            if o[0] == "inbound" and i < start_index.get(k, -1):
                try:
                    fr = json.loads(o[1])
                except ValueError:
                    continue
                if isinstance(fr, list) and len(fr) >= 3 and fr[0] in (3, 4) and not isinstance(fr[0], bool):
                    earlier.append(fr)
        mine = [fr for fr in replies + earlier if _py_eq(fr[1], uid)]
        if kind == "result":
            # the observation lists the fields of the result object that are set: a JSON null in the reply is "not set"
            ok = any(fr[0] == 3 and same_value(_drop_nulls(_snake(fr[2])), _drop_nulls(detail)) for fr in mine)
            if not ok:
                bad.append(("foreign-result:%s" % jkey(uid)[:40],
                            "caller %d (id %r) returned %r although no CALLRESULT with its id carries that payload" % (k, uid, detail)))
        written = any(isinstance(fr, list) and fr and fr[0] == 2 and jkey(fr[1]) == jkey(uid) for (_, fr) in writes)
        if kind in ("ocpp", "exc") and k in uniq and written and len(mine) == 1 and mine[0][0] == 4:
            # the request was valid (it was written) and the only frame with this id is one CALLERROR:
            # the error raised must be the class of that code
            cls = detail[0] if kind == "ocpp" else str(detail).split(":")[0]
            if expected_error_class(mine[0][2]) != cls:
                bad.append(("wrong-error:%s:%s" % (cls, jkey(uid)[:30]),
                            "caller %d (id %r) raised %s although the CALLERRORs with its id carry the code(s) %r" % (
                                k, uid, cls, [fr[2] for fr in mine if fr[0] == 4])))
        if kind == "none" and not any(fr[0] == 4 for fr in mine):
            bad.append(("foreign-error:%s" % jkey(uid)[:40], "caller %d (id %r) got a CALLERROR outcome without a CALLERROR of its id" % (k, uid)))
        if kind == "timeout" and k in uniq:
            tw = [tt for (tt, fr) in writes if isinstance(fr, list) and fr and fr[0] == 2 and jkey(fr[1]) == jkey(uid)]
            if tw and abs((t - tw[0]) - timeout) > 1e-9:
                bad.append(("deadline:%s" % jkey(uid)[:40],
                            "caller %d timed out %.2f s after its CALL was written (response timeout %s)" % (k, t - tw[0], timeout)))
            # ... and a timeout means that no reply with its id arrived inside the window
            if tw:
                now, seen_start = 0.0, False
                for i, o in enumerate(ops):
                    if o[0] == "tick":
                        now += o[1]
                    elif o[0] == "inbound" and i > start_index.get(k, 10 ** 9):
                        try:
                            fr = json.loads(o[1])
                        except ValueError:
                            continue
                        if isinstance(fr, list) and len(fr) >= 3 and fr[0] in (3, 4) and not isinstance(fr[0], bool) and len(fr) == (3 if fr[0] == 3 else 5) \
                                and isinstance(fr[2] if fr[0] == 3 else {}, dict) and _py_eq(fr[1], uid) and type(fr[1]) is type(uid) \
                                and tw[0] + 1e-9 < now < tw[0] + timeout - 1e-9:
                            bad.append(("own-reply-not-delivered:%s" % jkey(uid)[:40],
                                        "caller %d (id %r, CALL written at %.2f) timed out although a well-formed reply with its id arrived at %.2f (after the CALL was written), "
                                        "inside the response timeout of %s s" % (k, uid, tw[0], now, timeout)))
                            break
    for k in res.get("pending", []):
        bad.append(("never-completes:%s" % k, "caller %s never completed although the clock passed every deadline" % k))
    return bad


def c03(version, routes, ops, timeout, res):
    bad = []
    ids = _caller_ids(ops)
    writes = [(t, json.loads(m)) for (t, m) in res["writes"]]
    calls = [(t, fr) for (t, fr) in writes if isinstance(fr, list) and fr and fr[0] == 2 and not isinstance(fr[0], bool)]
    by_id = {}
    for k, u in ids.items():
        by_id.setdefault(jkey(u), []).append(k)
    done = {int(k): v for k, v in res["outcomes"].items()}
    for (t1, f1), (t2, f2) in zip(calls, calls[1:]):
        ks = by_id.get(jkey(f1[1]), [])
        if len(ks) == 1:
            k = ks[0]
            if k not in done or done[k][2] > t2 + 1e-9:
                bad.append(("overlap:%s" % jkey(f1[1])[:40],
                            "CALL %r was written at %.2f while the request %r (written %.2f) was still outstanding" % (
                                f2[1], t2, f1[1], t1)))
    # a request that was written leaves the gate through its MATCHING reply (or a timeout, a cancellation): if it ended
    # with a reply-borne outcome, a reply frame with its id must have arrived
    replies_in = []
    now = 0.0
    for o in ops:
        if o[0] == "tick":
            now += o[1]
        if o[0] == "inbound":
            try:
                fr = json.loads(o[1])
            except ValueError:
                continue
            if isinstance(fr, list) and len(fr) >= 3 and fr[0] in (3, 4) and not isinstance(fr[0], bool):
                replies_in.append((now, fr))
    for k, v in done.items():
        u = ids.get(k)
        if v[0] in ("result", "none", "ocpp", "exc") and len(by_id.get(jkey(u), [])) == 1 and \
                any(jkey(fr[1]) == jkey(u) for (_, fr) in calls) and not any(_py_eq(fr[1], u) and ta <= v[2] + 1e-9 for (ta, fr) in replies_in):
            bad.append(("released-without-its-reply:%s" % jkey(u)[:40],
                        "request %r was written and ended with %r although no reply with its id had arrived by then (the gate was released "
                        "by something else)" % (u, v[:2])))
    if res["locked"]:
        bad.append(("gate-held", "the send gate is still held after every request completed"))
    if "99" in {str(k) for k in res["outcomes"]}:
        o = res["outcomes"].get(99) or res["outcomes"].get("99")
        if o[0] != "result":
            bad.append(("epilogue:" + o[0], "after the history a fresh request ended with %r instead of its result" % (o[:2],)))
    elif any(o[0] == "start" and o[1] == 99 for o in ops):
        bad.append(("epilogue:pending", "after the history a fresh request never completed"))
    n_in = 0
    for o in ops:
        if o[0] == "inbound" and parse_call(o[1]) is not None:
            n_in += 1
    n_rep = sum(1 for (t, fr) in writes if isinstance(fr, list) and fr and fr[0] in (3, 4) and not isinstance(fr[0], bool))
    if n_in != n_rep:
        bad.append(("inbound-unanswered", "%d inbound CALLs but %d replies were written" % (n_in, n_rep)))
    return bad


def diff_desc(got, want, path=""):
    """a short canonical description of how two payload trees differ (for finding keys)"""
    if isinstance(got, dict) and isinstance(want, dict):
        out = []
        for k in sorted(set(got) | set(want)):
            if k not in want:
                out.append("+%s%s=%s" % (path, k, json.dumps(got[k], default=str, sort_keys=True)[:40]))
            elif k not in got:
                out.append("-%s%s" % (path, k))
            else:
                out += diff_desc(got[k], want[k], path + k + ".")
        return out
    if isinstance(got, list) and isinstance(want, list) and len(got) == len(want):
        out = []
        for i, (x, y) in enumerate(zip(got, want)):
            out += diff_desc(x, y, path + "%d." % i)
        return out
    if same_value(got, want):
        return []
    return ["~%s:%s" % (path.rstrip("."), type(got).__name__)]


def c05_caller(version, routes, ops, timeout, res):
    """reply-receiving half of C05: call() hands back only results that satisfy the response schema of the
    action it sent (unless that call skipped validation)"""
    from harness import verdict as V
    bad = []
    for o in ops:
        if o[0] != "start":
            continue
        _, k, uid, action, snake, skip, suppress, send_ok = o
        oc = res["outcomes"].get(k) or res["outcomes"].get(str(k))
        if oc is not None and oc[0] == "exc" and not skip and oc[1] not in ("UnknownCallErrorCodeError",):
            bad.append(("reply-crash:%s:%s:%s" % (version, action, oc[1]),
                        "call(%s) without skip ended with %s instead of a result or an OCPP error (a reply that does "
                        "not satisfy the %s response schema must be answered with the mapped OCPP error)" % (action, oc[1], action)))
        if oc is None or oc[0] != "result" or skip:
            continue
        ind = V.independent_verdict(version, "CallResult", action, _camel(json.loads(json.dumps(oc[1], default=float))))
        if ind is False:
            bad.append(("invalid-result-returned:%s:%s" % (version, action),
                        "call(%s) returned %r, which violates the %s response schema" % (action, oc[1], action)))
    return bad


def c16_outbound(version, routes, ops, timeout, res):
    """per-call scope of skip_schema_validation: a call that did not skip never writes an invalid request,
    whatever the routes of the endpoint say"""
    from harness import verdict as V
    from ocpp.charge_point import remove_nones, snake_to_camel_case
    bad = []
    ids = _caller_ids(ops)
    written = [json.loads(m) for (t, m) in res["writes"]]
    for o in ops:
        if o[0] != "start" or o[5]:
            continue
        _, k, uid, action, snake, skip, suppress, send_ok = o
        wire = remove_nones(snake_to_camel_case(snake))
        if V.independent_verdict(version, "Call", action, wire) is False:
            hit = [fr for fr in written if isinstance(fr, list) and len(fr) == 4 and fr[0] == 2 and jkey(fr[1]) == jkey(ids[k])
                   and fr[2] == action and same_value(fr[3], wire)]
            if hit:
                skipping = [r["action"] for r in routes if r.get("skip")]
                bad.append(("invalid-call-written:%s:%s" % (version, action),
                            "a %s request that violates its schema was written although this call did not skip validation "
                            "(routes skipping validation on this endpoint: %r)" % (action, skipping)))
    # the reply of a call is validated iff THAT call did not skip
    bad += c05_caller(version, routes, ops, timeout, res)
    replies = {}
    for o in ops:
        if o[0] == "inbound":
            try:
                fr = json.loads(o[1])
            except ValueError:
                continue
            if isinstance(fr, list) and len(fr) >= 3 and fr[0] in (3, 4) and not isinstance(fr[0], bool):
                replies.setdefault(jkey(fr[1]), set()).add(fr[0])
    for o in ops:
        if o[0] != "start" or not o[5]:
            continue
        _, k, uid, action, snake, skip, suppress, send_ok = o
        oc = res["outcomes"].get(k) or res["outcomes"].get(str(k))
        if oc is not None and oc[0] == "ocpp" and replies.get(jkey(ids[k])) == {3}:
            bad.append(("skipping-call-validated:%s:%s" % (version, action),
                        "call(%s, skip_schema_validation=True) was answered by a CALLRESULT only, yet ended with %s: its reply "
                        "was validated although this call skipped validation" % (action, oc[1][0])))
    return bad
