"""Schema-driven instance generation for the `verdict`, `loopback` and `relay` correspondences.

Reads the schema JSON files of the working tree directly (own $ref resolution, independent of
harness/translate.py). For one schema it produces
  * valid instances: only-required, everything, each optional alone, falsy values, boundary lengths/counts
  * for EVERY constraint occurrence (path, keyword) one instance violating exactly that constraint
  * random combinations of two or three such mutations.
Every instance carries the list of (path, keyword) it was built to violate."""
import copy
import glob
import json
import os
import random

from harness import common as C


def load_schemas(pkg):
    out = {}
    for f in sorted(glob.glob(os.path.join(C.REPO, "ocpp", pkg, "schemas", "*.json"))):
        with open(f, encoding="utf-8-sig") as fh:
            out[os.path.basename(f)[:-5]] = json.load(fh)
    return out


def resolve(schema, root):
    while isinstance(schema, dict) and "$ref" in schema:
        name = schema["$ref"].split("/")[-1]
        schema = root.get("definitions", {})[name]
    return schema


# ------------------------------------------------------------------------------- valid values
def _string(s, flavour, rng):
    if "enum" in s:
        return s["enum"][0] if flavour != "alt" else s["enum"][-1]
    mx = s.get("maxLength")
    if flavour == "falsy":
        return ""
    if flavour == "boundary" and mx is not None:
        # exactly maxLength characters, some of them multi-byte
        base = ("é中\U0001F600a" * (mx // 4 + 1))[:mx]
        return base
    if s.get("format") == "date-time":
        return "2024-01-02T03:04:05Z"
    if s.get("format") == "uri":
        return "http://x/y"
    txt = "abc"
    if mx is not None:
        txt = txt[:mx]
    return txt


def valid_value(s, root, flavour, rng, include_optional, depth=0):
    """flavour in {'plain','falsy','boundary','alt'}; include_optional: 'all' | 'none' | a set of paths."""
    s = resolve(s, root)
    t = s.get("type")
    if t == "string" or (t is None and "enum" in s):
        return _string(s, flavour, rng)
    if t == "integer":
        lo = s.get("minimum")
        if flavour == "falsy" and (lo is None or lo <= 0) and (s.get("maximum") is None or s["maximum"] >= 0):
            return 0
        v = 1 if flavour != "alt" else 7
        if lo is not None and v < lo:
            v = int(lo)
        if s.get("maximum") is not None and v > s["maximum"]:
            v = int(s["maximum"])
        return v
    if t == "number":
        if flavour == "falsy":
            v = 0.0
        elif flavour == "alt":
            v = 3 if "multipleOf" in s else 16.25
        elif flavour == "big":
            v = 123456789.5 if "multipleOf" in s else 1.5           # legal, but needs ten significant digits
        elif flavour == "boundary":
            v = 21.4 if "multipleOf" in s else 2.675
        else:
            v = 1.5 if "multipleOf" not in s else 16.1
        if s.get("minimum") is not None and v < s["minimum"]:
            v = s["minimum"]
        if s.get("maximum") is not None and v > s["maximum"]:
            v = s["maximum"]
        return v
    if t == "boolean":
        return False if flavour == "falsy" else True
    if t == "array":
        n = s.get("minItems", 0)
        if flavour == "falsy":
            n = s.get("minItems", 0)
        elif flavour == "boundary" and "maxItems" in s:
            n = min(s["maxItems"], 4)
        else:
            n = max(n, 1)
        items = s.get("items", {})
        return [valid_value(items, root, flavour if i == 0 else "alt", rng, include_optional, depth + 1)
                for i in range(n)]
    if t == "object" or "properties" in s:
        out = {}
        req = s.get("required", [])
        for k, sub in s.get("properties", {}).items():
            if k in req or include_optional == "all" or (isinstance(include_optional, set) and k in include_optional):
                if k == "customData" and include_optional == "all" and depth > 0:
                    continue            # keep instances small: customData only at the top level
                out[k] = valid_value(sub, root, flavour, rng, include_optional, depth + 1)
        return out
    # no type: anything goes
    return {"free": "form"} if flavour != "falsy" else {}


# ------------------------------------------------------------------------------- constraint occurrences
def occurrences(s, root, inst, path=()):
    """Walk schema and a valid instance in parallel; yield (path, keyword, schema_node)."""
    s = resolve(s, root)
    for kw in ("type", "enum", "maxLength", "minItems", "maxItems", "minimum", "maximum", "multipleOf"):
        if kw in s:
            yield (path, kw, s)
    if isinstance(inst, dict):
        for k in s.get("required", []):
            yield (path, "required:" + k, s)
        if s.get("additionalProperties") is False:
            yield (path, "additionalProperties", s)
        for k, sub in s.get("properties", {}).items():
            if k in inst:
                yield from occurrences(sub, root, inst[k], path + (k,))
    if isinstance(inst, list) and isinstance(s.get("items"), dict) and inst:
        yield from occurrences(s["items"], root, inst[0], path + (0,))


def _get(inst, path):
    for p in path:
        inst = inst[p]
    return inst


def _set(inst, path, v):
    if not path:
        return v
    cur = inst
    for p in path[:-1]:
        cur = cur[p]
    cur[path[-1]] = v
    return inst


WRONG_TYPE = {"string": [5, True, None, ["x"]], "integer": ["1", 1.5, True, 2.0], "number": ["1.5", True, None],
              "boolean": ["true", 0, 1], "object": ["x", [], 3], "array": [{}, "x", 0]}


def mutate(inst, path, kw, s, root, rng):
    """Return a copy of inst violating constraint kw at path (None if impossible)."""
    inst = copy.deepcopy(inst)
    cur = _get(inst, path)
    if kw == "type":
        choices = WRONG_TYPE[s["type"]]
        return _set(inst, path, rng.choice(choices))
    if kw == "enum":
        return _set(inst, path, "zz")
    if kw == "maxLength":
        n = s["maxLength"] + 1
        v = ("éx" * n)[:n]
        return _set(inst, path, v)
    if kw == "minItems":
        if s["minItems"] <= 0 or not isinstance(cur, list):
            return None
        return _set(inst, path, cur[: s["minItems"] - 1])
    if kw == "maxItems":
        if not isinstance(cur, list) or not cur:
            return None
        small = valid_value(s.get("items", {}), root, "plain", rng, "none")
        return _set(inst, path, [copy.deepcopy(small) for _ in range(s["maxItems"] + 1)])
    if kw == "minimum":
        v = s["minimum"] - 1
        return _set(inst, path, int(v) if s.get("type") == "integer" else v - 0.5)
    if kw == "maximum":
        v = s["maximum"] + 1
        return _set(inst, path, int(v) if s.get("type") == "integer" else v + 0.5)
    if kw == "multipleOf":
        return _set(inst, path, rng.choice([0.15, 4.11, 21.45, 0.05, 100.01]))
    if kw.startswith("required:"):
        k = kw.split(":", 1)[1]
        if not isinstance(cur, dict) or k not in cur:
            return None
        del cur[k]
        return inst
    if kw == "additionalProperties":
        if not isinstance(cur, dict):
            return None
        cur["notInSchema"] = 1
        return inst
    return None


def instances_for(name, schema, rng, tier, combos=2):
    """[(kind, instance, [ (path, kw) ... ])] for one schema file."""
    root = schema
    out = []
    full = valid_value(schema, root, "plain", rng, "all")
    out.append(("valid-all", full, []))
    out.append(("valid-required", valid_value(schema, root, "plain", rng, "none"), []))
    out.append(("valid-falsy", valid_value(schema, root, "falsy", rng, "all"), []))
    out.append(("valid-boundary", valid_value(schema, root, "boundary", rng, "all"), []))
    out.append(("valid-alt", valid_value(schema, root, "alt", rng, "all"), []))
    top = resolve(schema, root)
    optional = [k for k in top.get("properties", {}) if k not in top.get("required", [])]
    for k in optional:
        out.append(("valid-opt:" + k, valid_value(schema, root, "plain", rng, {k}), []))
    if '"multipleOf"' in json.dumps(schema):
        out.append(("valid-big", valid_value(schema, root, "big", rng, "all"), []))
    occ = list(occurrences(schema, root, full))
    muts = []
    for (path, kw, node) in occ:
        m = mutate(full, path, kw, node, root, rng)
        if m is not None:
            out.append(("viol:" + kw.split(":")[0], m, [("/".join(map(str, path)), kw)]))
            muts.append((path, kw, node))
        if kw == "multipleOf" and m is not None:
            # also where binary floating point is coarse: a relative tolerance or a float remainder misjudges these
            for big in (100000000.05, 123456789.37, 4000000.25):
                out.append(("viol:multipleOf", _set(copy.deepcopy(full), path, big), [("/".join(map(str, path)), kw)]))
        if kw == "type" and node.get("type") == "array":
            # a bare string where a list of strings belongs (a string is a sequence of strings in Python, not in JSON)
            cur = _get(full, path)
            if isinstance(cur, list) and cur and isinstance(cur[0], str):
                out.append(("viol:type", _set(copy.deepcopy(full), path, cur[0]), [("/".join(map(str, path)), kw)]))
        if kw == "type" and node.get("type") == "integer":
            # draft 4: an integral float is not an integer (later drafts accept it)
            cur = _get(full, path)
            if isinstance(cur, int) and not isinstance(cur, bool):
                out.append(("viol:type-intfloat", _set(copy.deepcopy(full), path, float(cur)), [("/".join(map(str, path)), kw)]))
        if kw == "type" and path and rng.random() < 0.35:
            # JSON null in place of a value is a type violation too (and is what remove_nones would hide)
            out.append(("viol:null", _set(copy.deepcopy(full), path, None), [("/".join(map(str, path)), kw)]))
    n_combo = combos if tier == "quick" else combos * 4
    for _ in range(n_combo):
        if len(muts) < 2:
            break
        k = rng.choice([2, 3])
        chosen = rng.sample(muts, min(k, len(muts)))
        inst = full
        tags = []
        ok = True
        # apply deepest paths first so that shallower mutations do not remove them
        for (path, kw, node) in sorted(chosen, key=lambda x: -len(x[0])):
            try:
                m = mutate(inst, path, kw, node, root, rng)
            except (KeyError, IndexError, TypeError):
                m = None
            if m is None:
                ok = False
                break
            inst = m
            tags.append(("/".join(map(str, path)), kw))
        if ok:
            out.append(("viol-combo", inst, tags))
    return out


def message_index():
    """[(version, pkg, mtype, action, schema_name)] for all 206 schema files."""
    rows = []
    for version, pkg in (("1.6", "v16"), ("2.0.1", "v201")):
        names = sorted(load_schemas(pkg).keys())
        for n in names:
            if n.endswith("Response"):
                rows.append((version, pkg, "CallResult", n[: -len("Response")], n))
            elif pkg == "v201":
                if not n.endswith("Request"):
                    raise SystemExit("unexpected schema file name " + n)
                rows.append((version, pkg, "Call", n[: -len("Request")], n))
            else:
                rows.append((version, pkg, "Call", n, n))
    return rows
