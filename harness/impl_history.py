"""Histories on a real endpoint under a virtual clock: callers starting call(), inbound frames,
clock advances, cancellations, failing writes.  Each op is run to quiescence."""
import asyncio
import concurrent.futures
import copy
import dataclasses
import heapq
import json
import logging

from harness import common as C
from harness import impl_dispatch as D

logging.disable(logging.CRITICAL)


class VClock:
    def __init__(self):
        self.t = 1000.0

    def time(self):
        return self.t


class VLoop(asyncio.SelectorEventLoop):
    """Event loop whose clock is a variable; timers fire only when the harness advances it."""

    def __init__(self, clock):
        super().__init__()
        self._vclock = clock

    def time(self):
        return self._vclock.t

    def run_in_executor(self, executor, func, *args):
        """Worker-thread jobs run inline: the history stays deterministic (real threads: C13)."""
        fut = self.create_future()
        try:
            fut.set_result(func(*args))
        except BaseException as e:  # noqa: BLE001
            fut.set_exception(e)
        return fut

    def settle(self):
        for _ in range(10000):
            self.call_soon(self.stop)
            self.run_forever()
            if not self._ready:
                return
        raise RuntimeError("event loop does not become quiescent")

    def next_timer(self):
        live = [h for h in self._scheduled if not h._cancelled]
        return min((h._when for h in live), default=None)

    def advance_to(self, target):
        while True:
            w = self.next_timer()
            if w is None or w > target:
                break
            self._vclock.t = max(self._vclock.t, w)
            self.settle()
        self._vclock.t = target
        self.settle()


class InlineExecutor(concurrent.futures.Executor):
    def submit(self, fn, *a, **kw):
        f = concurrent.futures.Future()
        try:
            f.set_result(fn(*a, **kw))
        except BaseException as e:  # noqa: BLE001
            f.set_exception(e)
        return f


class HConn:
    def __init__(self, rec, clock, fail_ids):
        self.rec, self.clock, self.fail_ids = rec, clock, fail_ids

    async def send(self, m):
        try:
            fr = json.loads(m)
        except ValueError:
            fr = None
        if isinstance(fr, list) and fr and fr[0] == 2 and json.dumps(fr[1]) in self.fail_ids:
            self.rec.log("send-failed", self.clock.t, m)
            raise ConnectionError("scripted write failure")
        self.rec.log("send", self.clock.t, m)

    async def recv(self):
        raise ConnectionError("not used")


def payload_object(version, action, snake):
    """A dataclass instance named `action` whose asdict() is `snake`."""
    import importlib

    mod = importlib.import_module("ocpp.%s.call" % ("v16" if version == "1.6" else "v201"))
    cls = getattr(mod, action, None)
    if cls is not None and dataclasses.is_dataclass(cls) and isinstance(snake, dict):
        names = [f.name for f in dataclasses.fields(cls)]
        if set(snake) <= set(names):
            try:
                obj = cls(**copy.deepcopy(snake))
                if dataclasses.asdict(obj) == {**{n: getattr(obj, n) for n in names}} and \
                        all((k in snake) or getattr(obj, k) is None for k in names):
                    return obj
            except TypeError:
                pass
    fields = [(k, object, dataclasses.field(default=None)) for k in snake]
    dc = dataclasses.make_dataclass(action, fields)
    return dc(**copy.deepcopy(snake))


def run_history(version, routes, ops, timeout=30, async_validation=False):
    """ops: ('start', k, uid|None, action, snake, skip, suppress, send_ok) | ('inbound', raw) |
            ('tick', dt) | ('cancel', k)
    Returns dict(writes=[(t, frame_text)], outcomes={k: (kind, detail, t)}, locked=bool, queue=int)."""
    import ocpp.charge_point as CPM
    import ocpp.messages as M
    from ocpp.exceptions import OCPPError

    rec = D.Recorder()
    clock = VClock()
    t0 = clock.t
    loop = VLoop(clock)
    asyncio.set_event_loop(loop)
    fail_ids = set()
    conn = HConn(rec, clock, fail_ids)
    cls = D.make_cp_class(version, routes)
    old_time, old_async = CPM.time, M.ASYNC_VALIDATION
    CPM.time = clock
    M.ASYNC_VALIDATION = async_validation
    outcomes = {}
    tasks = {}
    try:
        cp = cls("cp", conn, response_timeout=timeout)
        cp._ov_rec = rec
        gen = {"n": 0}

        def genid():
            i = gen["n"]
            gen["n"] += 1
            return "gen-%d" % i
        cp._unique_id_generator = genid

        async def caller(k, obj, uid, skip, suppress):
            try:
                r = await cp.call(obj, suppress=suppress, unique_id=uid, skip_schema_validation=skip)
                if r is None:
                    outcomes[k] = ("none", None, clock.t - t0)
                else:
                    outcomes[k] = ("result", {f.name: getattr(r, f.name) for f in dataclasses.fields(r)
                                              if getattr(r, f.name) is not None}, clock.t - t0)
            except asyncio.TimeoutError:
                outcomes[k] = ("timeout", None, clock.t - t0)
            except asyncio.CancelledError:
                outcomes[k] = ("cancelled", None, clock.t - t0)
                raise
            except OCPPError as e:
                outcomes[k] = ("ocpp", (type(e).__name__, e.description, e.details), clock.t - t0)
            except ConnectionError:
                outcomes[k] = ("sendfail", None, clock.t - t0)
            except BaseException as e:  # noqa: BLE001
                outcomes[k] = ("exc", type(e).__name__, clock.t - t0)

        async def inbound(raw):
            try:
                await cp.route_message(raw)
            except BaseException as e:  # noqa: BLE001
                rec.log("escape", clock.t, type(e).__name__)

        for op in ops:
            if op[0] == "start":
                _, k, uid, action, snake, skip, suppress, send_ok = op
                obj = payload_object(version, action, snake)
                if not send_ok:
                    fail_ids.add(json.dumps(uid if uid is not None else "gen-%d" % gen["n"]))
                tasks[k] = loop.create_task(caller(k, obj, uid, skip, suppress))
                loop.settle()
            elif op[0] == "inbound":
                loop.create_task(inbound(op[1]))
                loop.settle()
            elif op[0] == "burst":
                # many frames handed to route_message() back to back, as a reader does that finds them all buffered:
                # no other task runs in between
                async def many(raws):
                    for raw in raws:
                        await inbound(raw)
                loop.create_task(many(op[1]))
                loop.settle()
            elif op[0] == "tick":
                if op[1] > 0:
                    loop.advance_to(clock.t + op[1])
            elif op[0] == "cancel":
                t = tasks.get(op[1])
                if t is not None and not t.done():
                    t.cancel()
                loop.settle()
            else:
                raise AssertionError(op)
        locked = cp._call_lock.locked()
        qlen = cp._response_queue.qsize()
        pending = sorted(k for k, t in tasks.items() if not t.done())
        for t in tasks.values():
            t.cancel()
        loop.settle()
        leaked = [t for t in asyncio.all_tasks(loop) if not t.done()]
        for t in leaked:
            t.cancel()
        loop.settle()
    finally:
        CPM.time = old_time
        M.ASYNC_VALIDATION = old_async
        try:
            loop.close()
        finally:
            asyncio.set_event_loop(None)
    writes = [(e[1] - t0, e[2]) for e in rec.seq if e[0] == "send"]
    escapes = [e for e in rec.seq if e[0] == "escape"]
    return {"writes": writes, "outcomes": {k: v for k, v in outcomes.items() if k not in pending},
            "pending": pending, "leaked_tasks": len(leaked), "locked": locked, "queue": qlen, "escapes": escapes,
            "handlers": [e for e in rec.seq if e[0] in ("handler", "after")]}


# ------------------------------------------------------------------------------- rendering
def cop(op):
    if op[0] == "start":
        _, k, uid, action, snake, skip, suppress, send_ok = op
        return "(OStart %d %s %s %s %s %s %s)" % (k, C.copt(None if uid is None else C.cjson(uid)), C.cs(action),
                                                   C.cjson(snake), C.cbool(skip), C.cbool(suppress), C.cbool(send_ok))
    if op[0] == "inbound":
        val, lo = D.loads_outcome(op[1])
        return None if lo is None else "(OInbound %s)" % lo
    if op[0] == "tick":
        return "(OTick %s)" % C.cz(tick_units(op[1]))
    if op[0] == "cancel":
        return "(OCancel %d)" % op[1]
    raise AssertionError(op)


UNITS = 4          # model time unit = 1/4 s; every duration in a history is a multiple of it


def tick_units(x):
    u = x * UNITS
    if abs(u - round(u)) > 1e-9:
        raise ValueError("duration %r is not a multiple of 1/%d s" % (x, UNITS))
    return int(round(u))


def coutcome(o):
    kind, detail, t = o
    tt = C.cz(tick_units(t))
    if kind == "result":
        return "(OOResult %s, %s)" % (C.cjson(detail), tt)
    if kind == "none":
        return "(OONone, %s)" % tt
    if kind == "timeout":
        return "(OOTimeout, %s)" % tt
    if kind == "cancelled":
        return "(OOCancelled, %s)" % tt
    if kind == "sendfail":
        return "(OOSendFail, %s)" % tt
    if kind == "ocpp":
        cls, descr, details = detail
        return "(OOExc %s %s %s, %s)" % (C.cs(cls), C.cjson(descr), C.cjson(json.loads(json.dumps(details, default=repr))), tt)
    if kind == "exc":
        return "(OOOther %s, %s)" % (C.cs(detail), tt)
    raise AssertionError(o)


def chobs(res):
    ws = []
    for (t, m) in res["writes"]:
        ws.append("(%s, %s)" % (C.cz(tick_units(t)), C.cjson(json.loads(m))))
    outs = ["(%d%%nat, %s)" % (k, coutcome(v)) for k, v in sorted(res["outcomes"].items())]
    return "(mkHObs %s %s %s %d %s)" % (C.clist(ws), C.clist(outs), C.cbool(res["locked"]), res["queue"],
                                        C.cbool(bool(res["escapes"])))


HEADER = C.CASE_HEADER + ("From OV.Model Require Import Names Schema Validate Frame Dispatch Endpoint Shipped "
                          "CaseHistory.\n")


def shard_source(cases, view):
    return HEADER + "Definition cases : list hcase := %s.\nEval vm_compute in hdisagreements %s cases.\n" % (
        C.clist(["\n" + c for c in cases]), view)


def expand_ops(ops):
    """bursts as the individual inbound frames they consist of (what the oracles and the model see)"""
    out = []
    for o in ops:
        if o[0] == "burst":
            out += [("inbound", raw) for raw in o[1]]
        else:
            out.append(o)
    return out


def chcase(version, routes, ops, timeout, res):
    ops = expand_ops(ops)
    cops = [cop(o) for o in ops]
    if any(x is None for x in cops):
        return None
    return "mkH %s %s %s %s" % (D.ccfg(version, routes), C.cz(tick_units(timeout)), C.clist(cops), chobs(res))
