#!/usr/bin/env python3
"""Writes /verif/MANIFEST.json from the table below (python3 harness/manifest.py)."""
import json
import os

VERIF = os.path.dirname(os.path.dirname(os.path.abspath(__file__)))
BASELINE = json.load(open("/root/.vp/BASELINE.json"))["cmd"] if os.path.exists("/root/.vp/BASELINE.json") else ""

CHECKS = {
    "C10": dict(
        technique="Rocq table theorems (vm_compute + forallb lifting) over tables re-translated from the tree; "
                  "exhaustive names correspondence",
        text="Theorems C10_roundtrip / C10_injective / C10_fields_* are re-proved by the Coq kernel against the "
             "vocabulary, object positions and class tables regenerated from the working tree on every run (finite, "
             "complete domain), and the Gallina c2s/s2c are compared with the real functions on every vocabulary and "
             "field name.",
        note="Trusted: Coq kernel + VM, harness/translate.py (data transcription; cross-checked against an independent "
             "walk of the schema files), the hand model of the two name functions (exhaustively compared on the domain).",
        design="4/C10"),
}

CHECKS["C01"] = dict(
    technique="Rocq theorems over an executable model of route_message/_handle_call (case analysis over every "
              "branch) + dispatch correspondence against real ChargePoint objects",
    text="C01_exactly_one_reply / C01_silent_otherwise / C01_no_escape are proved for every frame outcome, every route "
         "set over the version's actions and every handler behaviour (function-valued handlers), using the crash-freedom "
         "of all shipped schemas re-checked from the regenerated tables. The model is tied to the code by running both on "
         "the same frames (structured + malformed streams) and comparing replies, ids and escapes; the same frame repeated on "
         "one endpoint, reply floods of 1100 frames, a decoy endpoint of the same class, handlers returning coroutines / Tasks / "
         "custom awaitables, connections whose send() returns a Task. C01_text_no_escape / C01_text_at_most_one_reply restate the "
         "result over raw texts parsed by the json.loads model.",
    note="Trusted: Coq kernel + VM, translator, the hand model of charge_point.py/messages.py control flow (tied by "
         "the correspondence only), CPython json (frames enter the model as json.loads parsed them). Excluded by "
         "hypothesis: handlers returning non-dataclass values; connection writes that fail.",
    design="4/C01")

DISPATCH_NOTE = ("Trusted: Coq kernel + VM, translator, the hand model of charge_point.py/messages.py control flow (tied by the "
                 "dispatch correspondence in this property's own observables), CPython json/inspect/dataclasses.")
CHECKS["C05"] = dict(
    technique="Rocq theorems (Dispatch model + sound/complete Draft-04 evaluator) + dispatch/verdict correspondence",
    text="C05_handler_guard: a handler invocation implies the route opted out or the payload is declaratively valid "
         "(inductive Draft-04 reading, proved equivalent to the evaluator) against the request schema of that version and "
         "action; C05_violation_answered: otherwise the single event is a CALLERROR whose code is code_of a violated kind; "
         "C05_code_table. Tied by single-constraint-violating CALLs and handler results on real endpoints.",
    note=DISPATCH_NOTE + " jsonschema's choice among several errors is left nondeterministic (membership).", design="4/C05")
CHECKS["C07"] = dict(
    technique="Rocq theorem (complete shape of handle_call) + dispatch correspondence with recording handlers",
    text="C07_contract: for every CALL either nothing is invoked, or exactly the handler of that action runs first with the "
         "snake_case payload and call_unique_id iff declared, no other handler runs, and the after-hook runs at most once, "
         "with the same keywords, directly after the CALLRESULT; C07_every_call_of_a_sequence: in the receive loop over any "
         "frame list the i-th frame is followed by exactly the events it gives alone, whatever came before. Tied by handlers "
         "of every shape on real endpoints (every action of both versions registered through its Action member), failing "
         "reply writes, reused handler names, repeated frames and hook sequences on one endpoint.",
    note=DISPATCH_NOTE, design="4/C07")
CHECKS["C16"] = dict(
    technique="Rocq theorems (non-interference of other routes; unchanged delivery) + dispatch/history correspondence",
    text="C16_route_scope: configurations agreeing on the action's route process a CALL identically; C16_unchanged: with "
         "validation skipped every payload is delivered and every result written unchanged. Tied by skipping and "
         "validating routes side by side, invalid payloads on both, and (history view) calls of actions whose route skips; "
         "twin classes, handler functions registered again, route maps rebuilt on the instance, requests issued while a "
         "skipping route's CALL is handled, two endpoints handling the same id at once.",
    note=DISPATCH_NOTE, design="4/C16")
CHECKS["C17"] = dict(
    technique="Rocq theorems over the regenerated Action lists + dispatch correspondence (all action names of both versions)",
    text="C17_classify / C17_code: with no route for the action (any JSON value) the only event is one CALLERROR, "
         "NotImplemented iff the action is a string in the version's Action list (regenerated from the tree), else "
         "NotSupported, independent of payload and other routes.",
    note=DISPATCH_NOTE, design="4/C17")
HISTORY_NOTE = ("Trusted: Coq kernel + VM, translator, the hand model of call()/_get_specific_response()/asyncio.Lock/Queue/"
                "wait_for as a FIFO gate, FIFO queue and exact timers (tied by the history correspondence under a virtual "
                "clock; worker-thread validation runs inline there). Partial: liveness and the wall-clock/loop-clock split.")
CHECKS["C02"] = dict(
    technique="Rocq invariant proved by induction over every operation sequence (Endpoint model) + history correspondence",
    text="Inv_run: for every finite sequence of caller starts, inbound frames, clock advances, cancellations and failing "
         "writes: a reply is delivered only to the caller whose id it carries (Python ==), only if it arrived; result/None/"
         "error outcomes come only from such a delivery; a timeout is raised exactly response_timeout after the CALL was "
         "written. Tied by running the same histories on real call() tasks under a virtual clock.",
    note=HISTORY_NOTE, design="4/C02")
CHECKS["C03"] = dict(
    technique="Rocq invariant (gate protocol read off the log) by induction over every operation sequence + history correspondence",
    text="C03_gate_protocol / C03_mutex: in every reachable state the log obeys the gate protocol, so between two CALL "
         "writes lies the release of the first request (reply, timeout, cancellation; failed writes never count); the gate is "
         "held only by the one caller waiting for a reply; inbound CALL processing does not read the gate. Tied by histories "
         "with write failures, cancellations and an epilogue request that must be written and answered; call() tasks created "
         "before start(), a caller cancelled while its write is pending, a queued caller behind special reply ids; oracle "
         "'released-without-its-reply'.",
    note=HISTORY_NOTE, design="4/C03")

CHECKS["C04"] = dict(
    technique="Rocq theorems (evaluator = declarative Draft-04; call/result guards) + verdict correspondence over all 206 schemas",
    text="C04_independent_oracle (violations = [] <-> Valid, all schemas and instances), C04_accept_iff_valid, C04_no_crash "
         "(every shipped action's schemas are crash-free; table theorem re-checked each run), C04_call_guard_reject/accept and "
         "C04_result_guard over the call and dispatch models. Tied by per-constraint instances for every schema file judged "
         "by _validate_payload, by the model, by construction and by a fresh independent Draft4Validator; then through "
         "call() and route_message on real endpoints.",
    note="Trusted: Coq kernel + VM, translator (schemas), the instance generator (bounds what is exercised), jsonschema as "
         "the library's evaluator (compared, not verified). Numbers: decimal model, correspondences use <= 15 significant digits.",
    design="4/C04")
CHECKS["C08"] = dict(
    technique="Rocq theorems at the value level (round trip, shape, total classification of unpack) and at the text level "
              "(json.loads modelled character by character: loads total on every text, loads(dumps v) = v, "
              "unpack_text(pack_text m) = m) + exhaustive array tally + text correspondence against CPython json",
    text="Value level: C08_roundtrip, C08_shape, C08_total_classified for every parsed value / every message. Text level: "
         "C08_loads_total (every string gives a value, a ValueError or a RecursionError; the model's fuel is never exhausted), "
         "C08_text_classified (FormatViolation iff not decodable), C08_json_roundtrip (loads (print_compact v) = v for every "
         "representable v: ints within the 4300-digit limit, floats given by their repr, strs without an ambiguous surrogate "
         "pair, distinct keys, nesting within the recursion budget), C08_text_roundtrip (unpack_text (pack_text m) = m). "
         "Tied by the exhaustive family of arrays over a 10-element alphabet, malformed/hostile str and bytes frames, random "
         "messages through pack and back, and the `text` correspondence: JsonParse.loads / unpack_text against CPython's "
         "json.loads and the real unpack on number/string/structure zoos, layout variants, single-character mutations, the "
         "measured recursion budget +-1 and the digit limit +-1. bytes input is decoded by CPython before the model sees it.",
    note="Trusted: Coq kernel + VM, the hand models of json.loads / json.dumps / unpack / to_json (compared, not verified "
         "against CPython's C source), the binary64 conversion inside the model (validated by the correspondence, no theorem).", design="4/C08")
CHECKS["C18"] = dict(
    technique="Rocq theorem by induction over the frame list (start = in-order concatenation, ends only with recv) + loop correspondence",
    text="C18_in_order / C18_only_recv_ends_it: for every frame list the events of start() are, frame by frame, the receive "
         "followed by that frame's complete processing, and the only end is the propagation of recv's exception (using C01's "
         "no-escape for each frame). Tied by the real start() on scripted connections with slow handlers, hostile frames, "
         "recv failures of several exception types (identity checked), optionally while the send gate is held.",
    note=DISPATCH_NOTE, design="4/C18")

CHECKS["C14"] = dict(
    technique="Rocq theorems over exact integer arithmetic (accept iff <= 1 fractional digit, below 1e9) + exhaustive tenths sweep",
    text="C14_accept / C14_reject / C14_int / C14_wire for every decimal m*10^e of magnitude below 1e9 (no sampling), "
         "C14_keyword (the validator's multipleOf on the re-parsed payload is that remainder test) and C14_positions (exactly "
         "the six positions, re-checked from the regenerated tables). Tied by the exhaustive k/10 (|k|<=100000), k/100, "
         "k/1000 sweeps, integers, Decimal-typed values and sampled magnitudes through the real validation and to_json, and by "
         "the model on a stratified sample in all six positions; also through the 1.6 data-type classes, with an endpoint "
         "constructed before the first validation (fresh interpreter), on the binary neighbours of one-decimal numbers, and "
         "with the application's decimal context (current and DefaultContext) set to low precision / other rounding -- verdict "
         "and written digits. "
         "C14_decimal_path_is_retag: the Decimal re-parse of _validate_payload (dumps, then loads with parse_float=Decimal) is "
         "proved at the text level to hand back every float as the Decimal with the digits of its repr.",
    note="Trusted: Coq kernel + VM, translator; CPython float repr / decimal / '%.1f' formatting are modelled (a float is its "
         "shortest decimal form; json.dumps / json.loads are modelled character by character and compared with CPython), not verified.", design="4/C14")

TABLE_NOTE = ("Trusted: Coq kernel + VM, harness/translate.py (dataclass fields / annotations / defaults, enum members, schemas "
              "as data; cross-checked by an independent introspection walk over the real classes and schema files).")
CHECKS["C11"] = dict(
    technique="Rocq table theorems (vm_compute of a class/schema walk + lifting lemmas) over tables re-translated every run",
    text="C11_walk_clean: the walk of every request/response class against its schema -- field sets both ways, mandatory => "
         "required, omittable => optional, annotation shapes through lists, unions and nested data types, every data type "
         "placed -- finds nothing; lifted to ClassAgrees for every class of the four tables. The same walk is done by "
         "introspection on the real classes and the schema files, which yields the failing class/field as replay.",
    note=TABLE_NOTE, design="4/C11")
CHECKS["C12"] = dict(
    technique="Rocq table theorems (vm_compute + lifting) over re-translated enum / class / schema tables",
    text="C12_members16/201: every legal wire value at every enum-annotated position (found by walking annotations and "
         "schemas in parallel) is a member of the annotated class; C12_no_dead: no member is dead except the open findings "
         "carried explicitly from known_findings.jsonl; C12_actions: Action values = request schemas = response schemas = "
         "request classes = response classes, per version.",
    note=TABLE_NOTE, design="4/C12")

CHECKS["C13"] = dict(
    technique="Rocq invariant over histories and over all thread schedules of a cache model + differential runs (histories, 8 threads, executor)",
    text="C13_history: after any history of requests (any versions/directions/actions of the Action lists/payloads) the "
         "verdict is that of the request validated alone; C13_threads: the same under every interleaving of the "
         "lookup/load/store steps of any number of threads; both rest on the table fact that the cache key determines the "
         "float mode (re-checked each run). Tied by comparing every verdict with the cold-cache verdict in shuffled "
         "histories, on 8 real threads, inline vs executor (also 300 validations and a burst of heavy ones in flight), the same "
         "message object validated again, fresh interpreters (cold orders, the other version's same-named definitions first, "
         "the version string 2.0 first), and with the model's pure verdict.",
    note="Trusted: Coq kernel + VM, translator, the hand model of get_validator's cache. Partial: races inside jsonschema "
         "objects and per-thread interpreter state (decimal context) are only observed.", design="4/C13")

CHECKS["C15"] = dict(
    technique="Rocq theorems over a model of the decorators' global name list and attribute lookup (fold invariants, NoDup) + routing correspondence",
    text="C15_on_is_resolved / C15_after_is_resolved / C15_*_absent: for every process history of class definitions, the "
         "entry of an action is the (unique) decorated method that lookup on the instance resolves to, with its own skip flag "
         "-- the statements mention the rest of the history only through lookup, so other classes, their order and name reuse "
         "cannot matter (a method may carry on() alone, after() alone, or both stacked in either order: handles / follows, "
         "C15_handles_spelled_out, C15_follows_spelled_out); C15_no_getters. Tied by defining generated hierarchies for real in two orders and reading the map "
         "back (owner, name, flag, bound instance), and by an independent getattr_static walk.",
    note="Trusted: Coq kernel + VM, the hand model of routing.py and of single-inheritance attribute lookup (compared). "
         "Multiple inheritance / metaclasses are outside the model.", design="4/C15")

NET_NOTE = ("Trusted: Coq kernel + VM, translator, the hand models of dispatch and call composed in Model/Net.v (tied by running "
            "two / three real endpoints over in-memory connections with real receive loops and comparing both frames, the "
            "handlers' keywords and the caller's outcome), CPython json/dataclasses.asdict.")
CHECKS["C06"] = dict(
    technique="Rocq theorems on what is written (no null; nulls only are dropped) + loopback correspondence over all 103 actions",
    text="C06_no_null_obj (for every object, remove_nones leaves no null at any depth), C06_falsy_kept, with C10 (name "
         "bijection on the vocabulary) and C11 (classes = schemas) carrying the key mapping; the composition A.call -> wire -> "
         "B.route_message -> wire -> A is an executable Gallina function (Model/Net.v loopback) compared, for every action and "
         "several schema-valid request/response instances, with two real endpoints: both frames, the handler's keywords, the "
         "returned object, nested values as data-type objects, dicts, data types by shape (1.6) or enumeration members; an "
         "older endpoint object of the same class on another connection; fresh-interpreter exchanges; slow handlers. PARTIAL: the key-mapping round trip of whole payload "
         "trees is proved per name (C10), not yet as a theorem about rekey over trees.",
    note=NET_NOTE, design="4/C06")
CHECKS["C09"] = dict(
    technique="Rocq theorems (codes distinct; raised error -> frame -> to_exception round trip; fixed InternalError frame; unknown codes) + error transport correspondence",
    text="C09_codes_distinct and C09_all_classes_reachable (tables regenerated from exceptions.py, classes enumerated without "
         "__subclasses__), C09_raised_on_wire, C09_transport (same class, description, details; None under suppression), "
         "C09_internal (the frame for a non-OCPP exception is a constant), C09_unknown. Tied by every class x descriptions x "
         "details x suppression through two real endpoints, ten foreign exception types with secret markers searched in every "
         "frame, and all defined / ~80 undefined codes injected as CALLERROR.",
    note=NET_NOTE, design="4/C09")
CHECKS["C19"] = dict(
    technique="Rocq theorems (re-tagging idempotent; verdict invariant under re-tagging; digits stable over a second hop) + relay correspondence",
    text="C19_retag_idempotent, C19_verdict_unchanged (for every schema and payload the decimal-mode verdict does not depend "
         "on whether numbers arrive as floats or as the exact decimals the library itself produced), C19_second_hop_digits. "
         "Tied by relaying, for every action, schema-valid requests and responses through three real endpoints whose middle "
         "handler forwards exactly the keywords it received and returns the object call() gave it.",
    note=NET_NOTE, design="4/C19")

PENDING_REASON = "check not built yet in this round (work in progress; see DESIGN.md section 9)"


def main():
    props = [json.loads(l)["id"] for l in open(os.path.join(VERIF, "properties.jsonl")) if l.strip()]
    checks = []
    for pid in props:
        if pid not in CHECKS:
            continue
        c = CHECKS[pid]
        checks.append({
            "property_id": pid,
            "quick_cmd": "python3 check.py %s quick" % pid,
            "thorough_cmd": "python3 check.py %s thorough" % pid,
            "evidence_file": "/verif/evidence/%s.json" % pid,
            "replay_cmd_template": "python3 replay.py {path}",
            "engine": "rocq",
            "level_claimed": {"category": "proof", "text": c["text"], "design_ref": "DESIGN.md section " + c["design"]},
            "level_note": c["note"],
            "technique": c["technique"],
        })
    man = {
        "version": 1,
        "setup_cmd": "python3 check.py --setup",
        "hooks": {
            "guard": "MOBILITYHOUSE_OCPP_VERIF",
            "enable": "no source hooks: every observation point is reachable from outside (scripted connection, "
                      "module attributes); checks import ocpp from /repo via PYTHONPATH=/repo",
            "baseline_off_cmd": BASELINE,
            "source_commits": [],
            "add_only": True,
        },
        "engines": [{"name": "rocq", "path": "/verif/coq", "serves_properties": sorted(CHECKS),
                     "kind_free_text": "Coq 8.16.1 development: hand-written executable Gallina model + tables "
                                       "regenerated from /repo + one Props/Cxx.v per property; correspondence by "
                                       "generated case files evaluated with vm_compute"}],
        "checks": checks,
        "not_applicable": [{"property_id": p, "reason": PENDING_REASON} for p in props if p not in CHECKS],
        "notes": "All checks: python3 check.py <id> quick|thorough; VERIF_SEED seeds every random choice.",
    }
    with open(os.path.join(VERIF, "MANIFEST.json"), "w") as fh:
        json.dump(man, fh, indent=1)
    print("MANIFEST.json: %d checks, %d not_applicable" % (len(checks), len(man["not_applicable"])))


if __name__ == "__main__":
    main()
