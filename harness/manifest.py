#!/usr/bin/env python3
"""Writes /verif/MANIFEST.json from the table below (python3 harness/manifest.py)."""
import json
import os

VERIF = os.path.dirname(os.path.dirname(os.path.abspath(__file__)))
BASELINE = json.load(open("/root/.vp/BASELINE.json"))["cmd"] if os.path.exists("/root/.vp/BASELINE.json") else ""

CHECKS = {
    "C10": dict(
        technique="Rocq table theorems (vm_compute + forallb lifting) over tables re-translated from the tree; "
                  "exhaustive names correspondence",
        text="Theorems C10_roundtrip / C10_injective / C10_fields_* are re-proved by the Coq kernel against the "
             "vocabulary, object positions and class tables regenerated from the working tree on every run (finite, "
             "complete domain), and the Gallina c2s/s2c are compared with the real functions on every vocabulary and "
             "field name.",
        note="Trusted: Coq kernel + VM, harness/translate.py (data transcription; cross-checked against an independent "
             "walk of the schema files), the hand model of the two name functions (exhaustively compared on the domain).",
        design="4/C10"),
}

CHECKS["C01"] = dict(
    technique="Rocq theorems over an executable model of route_message/_handle_call (case analysis over every "
              "branch) + dispatch correspondence against real ChargePoint objects",
    text="C01_exactly_one_reply / C01_silent_otherwise / C01_no_escape are proved for every frame outcome, every route "
         "set over the version's actions and every handler behaviour (function-valued handlers), using the crash-freedom "
         "of all shipped schemas re-checked from the regenerated tables. The model is tied to the code by running both on "
         "the same frames (structured + malformed streams) and comparing replies, ids and escapes.",
    note="Trusted: Coq kernel + VM, translator, the hand model of charge_point.py/messages.py control flow (tied by "
         "the correspondence only), CPython json (frames enter the model as json.loads parsed them). Excluded by "
         "hypothesis: handlers returning non-dataclass values; connection writes that fail.",
    design="4/C01")

PENDING_REASON = "check not built yet in this round (work in progress; see DESIGN.md section 9)"


def main():
    props = [json.loads(l)["id"] for l in open(os.path.join(VERIF, "properties.jsonl")) if l.strip()]
    checks = []
    for pid in props:
        if pid not in CHECKS:
            continue
        c = CHECKS[pid]
        checks.append({
            "property_id": pid,
            "quick_cmd": "python3 check.py %s quick" % pid,
            "thorough_cmd": "python3 check.py %s thorough" % pid,
            "evidence_file": "/verif/evidence/%s.json" % pid,
            "replay_cmd_template": "python3 replay.py {path}",
            "engine": "rocq",
            "level_claimed": {"category": "proof", "text": c["text"], "design_ref": "DESIGN.md section " + c["design"]},
            "level_note": c["note"],
            "technique": c["technique"],
        })
    man = {
        "version": 1,
        "setup_cmd": "python3 check.py --setup",
        "hooks": {
            "guard": "MOBILITYHOUSE_OCPP_VERIF",
            "enable": "no source hooks: every observation point is reachable from outside (scripted connection, "
                      "module attributes); checks import ocpp from /repo via PYTHONPATH=/repo",
            "baseline_off_cmd": BASELINE,
            "source_commits": [],
            "add_only": True,
        },
        "engines": [{"name": "rocq", "path": "/verif/coq", "serves_properties": sorted(CHECKS),
                     "kind_free_text": "Coq 8.16.1 development: hand-written executable Gallina model + tables "
                                       "regenerated from /repo + one Props/Cxx.v per property; correspondence by "
                                       "generated case files evaluated with vm_compute"}],
        "checks": checks,
        "not_applicable": [{"property_id": p, "reason": PENDING_REASON} for p in props if p not in CHECKS],
        "notes": "All checks: python3 check.py <id> quick|thorough; VERIF_SEED seeds every random choice.",
    }
    with open(os.path.join(VERIF, "MANIFEST.json"), "w") as fh:
        json.dump(man, fh, indent=1)
    print("MANIFEST.json: %d checks, %d not_applicable" % (len(checks), len(man["not_applicable"])))


if __name__ == "__main__":
    main()
