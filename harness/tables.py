"""C11 / C12 stated directly on the implementation: the real dataclasses (typing hints) walked
against the schema JSON files (own $ref resolution) -- independent of translate.py and of Coq."""
import dataclasses
import enum
import importlib
import inspect
import typing

from harness import gen_instances as G

JSONTYPE = {str: "string", int: "integer", float: "number", bool: "boolean"}


def mods(pkg):
    return {n: importlib.import_module("ocpp.%s.%s" % (pkg, n)) for n in ("call", "call_result", "datatypes", "enums")}


def classes_of(mod):
    return [c for _, c in inspect.getmembers(mod, inspect.isclass) if c.__module__ == mod.__name__ and dataclasses.is_dataclass(c)]


def s2c(n):
    from ocpp.charge_point import snake_to_camel_case
    return list(snake_to_camel_case({n: 0}))[0]


def strip_optional(t):
    if typing.get_origin(t) is typing.Union:
        rest = [a for a in typing.get_args(t) if a is not type(None)]
        return rest[0] if len(rest) == 1 else typing.Union[tuple(rest)]
    return t


def shape_problems(t, s, root, where, out, pairs, depth=0):
    """annotation t against schema node s"""
    s = G.resolve(s, root)
    t = strip_optional(t)
    origin = typing.get_origin(t)
    ty = s.get("type")
    if depth > 12:
        out.append(("fuel",) + where)
        return
    if t is typing.Any:
        return
    if origin is typing.Union:
        trial = []
        for a in typing.get_args(t):
            o2, p2 = [], []
            shape_problems(a, s, root, where, o2, p2, depth + 1)
            trial.append((o2, p2))
            pairs.extend(p2)
        if not any(not o for o, _ in trial):
            out.append(("shape",) + where)
        # a data type that the annotation names next to a plain Dict / List (the OCPP 1.6 classes do that) must fit the
        # position by itself: its own problems are reported even though the Dict alternative has none
        for a, (o2, _) in zip(typing.get_args(t), trial):
            b = strip_optional(a)
            inner = typing.get_args(b)[0] if typing.get_origin(b) in (list, typing.List) and typing.get_args(b) else b
            if isinstance(inner, type) and dataclasses.is_dataclass(inner) and any(not o for o, _ in trial):
                out.extend(x for x in o2 if x not in out)
        return
    if origin in (list, typing.List) or t in (list, typing.List):
        if ty not in (None, "array"):
            out.append(("shape",) + where)
            return
        args = typing.get_args(t)
        if args and isinstance(s.get("items"), dict):
            shape_problems(args[0], s["items"], root, where, out, pairs, depth + 1)
        return
    if origin in (dict, typing.Dict) or t in (dict, typing.Dict):
        if ty not in (None, "object"):
            out.append(("shape",) + where)
        return
    if isinstance(t, type) and issubclass(t, enum.Enum):
        if ty not in (None, "string"):
            out.append(("shape",) + where)
        if "enum" in s:
            pairs.append((t, list(s["enum"])) + where)
        return
    if isinstance(t, type) and dataclasses.is_dataclass(t):
        if ty not in (None, "object"):
            out.append(("shape",) + where)
            return
        hints = typing.get_type_hints(t)
        props = s.get("properties", {})
        cam = {s2c(f.name): f for f in dataclasses.fields(t)}
        for c, f in cam.items():
            if c not in props:
                out.append(("nested-field", where[0], where[1], t.__name__, f.name))
        for r in s.get("required", []):
            if r not in cam:
                out.append(("nested-required", where[0], where[1], t.__name__, r))
            elif cam[r].default is None:
                # the data type lets the field be left out, the schema demands it at this position: an object built without
                # it fails on structure
                out.append(("nested-omittable-required", where[0], where[1], t.__name__, cam[r].name))
        for c, f in cam.items():
            if c in props:
                shape_problems(hints[f.name], props[c], root, (t.__name__, f.name), out, pairs, depth + 1)
        return
    if t in JSONTYPE:
        if ty is not None and ty != JSONTYPE[t]:
            out.append(("shape",) + where)
        return
    out.append(("unknown-annotation",) + where)


def walk(pkg):
    """(problems, enum pairs) for one version"""
    m = mods(pkg)
    schemas = G.load_schemas(pkg)
    out, pairs = [], []
    for modname, suffix in (("call", "" if pkg == "v16" else "Request"), ("call_result", "Response")):
        for cls in classes_of(m[modname]):
            name = cls.__name__ + suffix
            if name not in schemas:
                out.append(("no-schema", modname, cls.__name__))
                continue
            root = schemas[name]
            top = G.resolve(root, root)
            props, req = top.get("properties", {}), top.get("required", [])
            hints = typing.get_type_hints(cls)
            cam = {s2c(f.name): f for f in dataclasses.fields(cls)}
            for c, f in cam.items():
                if c not in props:
                    out.append(("field-not-in-schema", modname, cls.__name__, f.name))
            for p in props:
                if p not in cam:
                    out.append(("prop-not-in-class", modname, cls.__name__, p))
            for c, f in cam.items():
                nodefault = f.default is dataclasses.MISSING and f.default_factory is dataclasses.MISSING
                if nodefault and c not in req:
                    out.append(("mandatory-not-required", modname, cls.__name__, f.name))
                if f.default is None and c in req:
                    out.append(("omittable-required", modname, cls.__name__, f.name))
                if c in props:
                    shape_problems(hints[f.name], props[c], root, (cls.__name__, f.name), out, pairs)
    # data types: each fits at least one object position of the version
    positions = []
    for name, root in schemas.items():
        def rec(x):
            if isinstance(x, dict):
                if x.get("type") == "object" or "properties" in x:
                    positions.append((set(x.get("properties", {})), set(x.get("required", []))))
                for k, v in x.items():
                    if k in ("properties", "definitions") and isinstance(v, dict):
                        for vv in v.values():
                            rec(vv)
                    elif k == "items":
                        rec(v)
        rec(root)
    for cls in classes_of(m["datatypes"]):
        cam = {s2c(f.name) for f in dataclasses.fields(cls)}
        if not any(cam <= props and req <= cam for props, req in positions):
            out.append(("no-fit", cls.__name__))
    return out, pairs


def enum_problems(pkg, pairs):
    m = mods(pkg)
    out = []
    legal = {}
    for (E, values, cls, field) in pairs:
        members = {x.value for x in E}
        legal.setdefault(E, set()).update(values)
        for v in values:
            if v not in members:
                out.append(("value-not-member", E.__name__, v, cls, field))
            else:
                try:
                    E(v)
                except ValueError:
                    out.append(("value-not-convertible", E.__name__, v, cls, field))
    for E, vs in legal.items():
        for x in E:
            if x.value not in vs:
                out.append(("dead-member", E.__name__, x.value))
    return out


def action_problems(pkg):
    m = mods(pkg)
    schemas = G.load_schemas(pkg)
    acts = {x.value for x in m["enums"].Action}
    resp = {n[:-8] for n in schemas if n.endswith("Response")}
    reqs = {n for n in schemas if not n.endswith("Response")} if pkg == "v16" else {n[:-7] for n in schemas if n.endswith("Request")}
    sets = {"response schemas": resp, "request schemas": reqs, "request classes": {c.__name__ for c in classes_of(m["call"])},
            "response classes": {c.__name__ for c in classes_of(m["call_result"])}}
    out = []
    for what, sset in sets.items():
        for a in sorted(acts - sset):
            out.append(("action-without", a, what))
        for a in sorted(sset - acts):
            out.append(("not-an-action", a, what))
    # the same statement operationally: the library finds the request and the response schema of every member
    # (it derives the file from the action; a file that exists but is not found is as good as missing)
    from harness import verdict as V
    ver = "1.6" if pkg == "v16" else "2.0.1"
    for member in m["enums"].Action:
        for mt, what in (("Call", "request"), ("CallResult", "response")):
            for a in (member, member.value):
                v = V.impl_verdict(ver, mt, a, {})
                if v[0] == "crash" or (v[0] == "reject" and v[1] == "NotImplemented"):
                    out.append(("action-schema-not-found", member.value, what, v[1][:60]))
                    break
    return out
