"""The `verdict` correspondence: Gallina `validate` on the translated schemas against
ocpp.messages._validate_payload (jsonschema) on the schema files, instance by instance."""
import copy
import json
import random

from harness import common as C
from harness import gen_instances as G


def impl_verdict(version, mtype, action, payload):
    """('accept', payload_after) | ('reject', code) | ('crash', 'ExcClass: text')."""
    import copy
    from ocpp.exceptions import OCPPError
    from ocpp.messages import Call, CallResult, _validate_payload

    p = copy.deepcopy(payload)
    msg = Call("id", action, p) if mtype == "Call" else CallResult("id", p, action)
    try:
        _validate_payload(msg, version)
    except OCPPError as e:
        return ("reject", e.code)
    except Exception as e:  # noqa: BLE001 - anything else is a crash of the validation path
        return ("crash", "%s: %s" % (type(e).__name__, str(e)[:200]))
    return ("accept", msg.payload)


def impl_verdicts_public(rows, async_validation=False):
    """The same verdicts through the public coroutine validate_payload() (what call() and
    route_message() use), all in one event loop."""
    import asyncio
    import copy
    import ocpp.messages as M
    from ocpp.exceptions import OCPPError
    from ocpp.messages import Call, CallResult, validate_payload

    async def go():
        out = []
        for (version, mtype, action, kind, payload, tags) in rows:
            p = copy.deepcopy(payload)
            msg = Call("id", action, p) if mtype == "Call" else CallResult("id", p, action)
            try:
                await validate_payload(msg, version)
                out.append(("accept", msg.payload))
            except OCPPError as e:
                out.append(("reject", e.code))
            except Exception as e:  # noqa: BLE001
                out.append(("crash", "%s: %s" % (type(e).__name__, str(e)[:200])))
        return out
    old = M.ASYNC_VALIDATION
    M.ASYNC_VALIDATION = async_validation
    try:
        return asyncio.run(go())
    finally:
        M.ASYNC_VALIDATION = old


_IND = {}


def independent_verdict(version, mtype, action, payload):
    """An evaluation of the schema file that shares nothing with the library's validator cache, mode
    selection or error mapping: a fresh Draft4Validator over the file, numbers as exact Decimals.
    True (valid) / False (invalid) / None (no such schema)."""
    import decimal
    import os
    from jsonschema import Draft4Validator
    pkg = "v16" if version == "1.6" else "v201"
    name = action + "Response" if mtype == "CallResult" else (action if version == "1.6" else action + "Request")
    key = (pkg, name)
    if key not in _IND:
        path = os.path.join(C.REPO, "ocpp", pkg, "schemas", name + ".json")
        if not os.path.exists(path):
            _IND[key] = None
        else:
            with open(path, encoding="utf-8-sig") as fh:
                _IND[key] = Draft4Validator(json.loads(fh.read(), parse_float=decimal.Decimal))
    val = _IND[key]
    if val is None:
        return None
    try:
        inst = json.loads(json.dumps(payload), parse_float=decimal.Decimal)
        return val.is_valid(inst)
    except Exception:  # noqa: BLE001 - out of range for the oracle: no opinion
        return None


def coq_case(version, mtype, action, payload, verdict):
    exp = {"accept": "EAccept", "crash": "ECrash"}.get(verdict[0]) or "(EReject %s)" % C.cs(verdict[1])
    return "mkV %s %s %s %s %s" % ("V16" if version == "1.6" else "V201",
                                    "MCall" if mtype == "Call" else "MCallResult",
                                    C.cs(action), C.cjson(payload), exp)


HEADER = C.CASE_HEADER + "From OV.Model Require Import Schema Validate Shipped CaseVerdict.\n"


def shard_source(cases):
    return HEADER + "Definition cases : list vcase := %s.\nEval vm_compute in disagreements cases.\n" % \
        C.clist(["\n" + c for c in cases])


def generate(tier, seed, only=None):
    """[(version, mtype, action, kind, payload, tags)] over all 206 schemas."""
    rng = random.Random(seed * 7919 + 17)
    rows = []
    schemas = {"v16": G.load_schemas("v16"), "v201": G.load_schemas("v201")}
    for (version, pkg, mtype, action, name) in G.message_index():
        if only and not only(version, mtype, action):
            continue
        insts = G.instances_for(name, schemas[pkg][name], rng, tier)
        for (kind, inst, tags) in insts:
            rows.append((version, mtype, action, kind, inst, tags))
        # the same payload under the OTHER version's schema of the same action and direction (if any):
        # verdicts must not be carried over between versions
        other = "2.0.1" if version == "1.6" else "1.6"
        opkg = "v201" if pkg == "v16" else "v16"
        oname = (action + "Response") if mtype == "CallResult" else (action if other == "1.6" else action + "Request")
        if oname in schemas[opkg]:
            for (kind, inst, tags) in insts[:3]:
                rows.append((other, mtype, action, "cross", inst, None))
    return rows


def run_correspondence(rep, rows, tag, prop_id, shard_size=250, check_codes=False):
    """Evaluate rows on the implementation and in Coq; report disagreements. Returns list of
    (row, verdict) for further use."""
    results = []
    cases = []
    public = impl_verdicts_public(rows)
    for ri, row in enumerate(rows):
        version, mtype, action, kind, inst, tags = row
        v = impl_verdict(version, mtype, action, inst)
        if public[ri][:2] != v[:2] and not (v[0] == "accept" and public[ri][0] == "accept"):
            rep.violation("%s:wrapper:%s:%s:%s:%s" % (prop_id, version, mtype, action, json.dumps(tags)),
                          "%s %s %s: validate_payload() gives %r, _validate_payload() gives %r" % (
                              version, mtype, action, public[ri][:2], v[:2] if v[0] != "accept" else ("accept",)),
                          {"kind": "verdict", "version": version, "mtype": mtype, "action": action, "payload": inst,
                           "built_to_violate": tags, "public": public[ri][:2]})
            v = public[ri]
        results.append((row, v))
        cases.append(coq_case(version, mtype, action, inst, v))
        rep.count(json.dumps([version, mtype, action, inst], sort_keys=True, default=repr), nontrivial=True)
        rep.add("kind:" + kind.split(":")[0])
        rep.add("impl:" + v[0] + (":" + v[1] if v[0] == "reject" else ""))
        # oracle by construction: what the generator built must be judged accordingly
        expect_reject = bool(tags)
        if v[0] == "crash":
            rep.violation("%s:crash:%s:%s:%s:%s" % (prop_id, version, mtype, action, json.dumps(tags)),
                          "validation of %s %s %s raised %s" % (version, mtype, action, v[1]),
                          {"kind": "verdict", "version": version, "mtype": mtype, "action": action,
                           "payload": inst, "built_to_violate": tags, "implementation": v})
        elif tags is None:
            ind = independent_verdict(version, mtype, action, inst)
            if ind is not None and ind != (v[0] == "accept") and "null" not in json.dumps(inst) and v[1:2] != ("NotImplemented",):
                rep.violation("%s:verdict-independent:%s:%s:%s:%s" % (prop_id, version, mtype, action,
                                                                      C.hashlib.sha1(json.dumps(inst, sort_keys=True).encode()).hexdigest()[:8]),
                              "%s %s %s: the library %ss a payload that an independent Draft-04 evaluation finds %s" % (
                                  version, mtype, action, v[0], "valid" if ind else "invalid"),
                              {"kind": "verdict", "version": version, "mtype": mtype, "action": action,
                               "payload": inst, "built_to_violate": None, "implementation": v[:2], "independent": ind})
        elif expect_reject != (v[0] == "reject"):
            rep.violation("%s:verdict:%s:%s:%s:%s" % (prop_id, version, mtype, action, json.dumps(tags)),
                          "%s %s %s: payload built %s was %sed" % (
                              version, mtype, action,
                              "to violate %s" % tags if tags else "schema-valid", v[0]),
                          {"kind": "verdict", "version": version, "mtype": mtype, "action": action,
                           "payload": inst, "built_to_violate": tags, "implementation": v})
        elif check_codes and tags and v[0] == "reject":
            from harness.oracles import code_for
            allowed = sorted({code_for(kw) for (_, kw) in tags})
            if v[1] not in allowed:
                rep.violation("%s:code:%s:%s:%s:%s" % (prop_id, version, mtype, action, json.dumps(tags)),
                              "%s %s %s: violation of %s was reported as %s, expected one of %s" % (
                                  version, mtype, action, tags, v[1], allowed),
                              {"kind": "verdict", "version": version, "mtype": mtype, "action": action,
                               "payload": inst, "built_to_violate": tags, "implementation": v})
    shards = [shard_source(cases[i:i + shard_size]) for i in range(0, len(cases), shard_size)]
    outs = C.coq_eval_shards(tag, shards)
    described = 0
    for si, (idx, out) in enumerate(outs):
        if idx is None:
            rep.violation("%s:correspondence:verdict:shard-failed" % prop_id,
                          "the verdict correspondence could not be evaluated in Coq",
                          {"kind": "correspondence", "correspondence": "verdict", "coq_output": out[-3000:],
                           "theorem": "verdict correspondence (Model/Schema.v vs _validate_payload)"}, found_input=False)
            continue
        for i in idx:
            row, v = results[si * shard_size + i]
            version, mtype, action, kind, inst, tags = row
            # the model's own account of the case: only for the first few disagreements (one coqc run each)
            desc = ""
            if described < 5:
                described += 1
                rc, desc = C.coq_query(tag + "-desc", HEADER + "Eval vm_compute in describe (%s).\n" % cases[si * shard_size + i])
            # is this a failing input for the property? the construction oracle above decides;
            # otherwise the correspondence is broken without one.
            already = tags is not None and any(json.dumps(tags) in vkey and action in vkey for (vkey, _, _) in rep.violations)
            if not already:
                rep.violation("%s:corr:verdict:%s:%s:%s:%s" % (prop_id, version, mtype, action, json.dumps(tags)),
                              "model and implementation disagree on %s %s %s (%s): implementation %r" % (
                                  version, mtype, action, kind, v[:2] if v[0] != "accept" else "accept"),
                              {"kind": "correspondence", "correspondence": "verdict", "version": version,
                               "mtype": mtype, "action": action, "payload": inst, "built_to_violate": tags,
                               "implementation": v if v[0] != "accept" else ["accept"], "model": desc[-800:],
                               "theorem": "verdict correspondence (Model/Schema.v vs _validate_payload)"},
                              found_input=False)
    return results


# ----------------------------------------------------------------------------- same-named definitions in both versions
def shared_definition_rows():
    """Definitions that BOTH versions' schema files declare under the same name with different enumerations (the 1.6
    security extension and 2.0.1 share many type names): for every position that refers to such a definition, the valid
    instance of the message with a value that only the OTHER version's definition allows.
    -> [(version, mtype, action, payload)] (all of them invalid for `version`)."""
    rng = random.Random(5)
    schemas = {"1.6": G.load_schemas("v16"), "2.0.1": G.load_schemas("v201")}
    enums = {v: {} for v in schemas}
    for v, files in schemas.items():
        for name, root in files.items():
            for dname, d in (root.get("definitions") or {}).items():
                if isinstance(d, dict) and isinstance(d.get("enum"), list):
                    enums[v].setdefault(dname, set()).update(x for x in d["enum"] if isinstance(x, str))
    props = {v: {} for v in schemas}
    for v, files in schemas.items():
        for name, root in files.items():
            for dname, d in (root.get("definitions") or {}).items():
                if isinstance(d, dict) and isinstance(d.get("properties"), dict):
                    props[v].setdefault(dname, set()).update(d["properties"])
    rows = []
    for (version, pkg, mtype, action, name) in G.message_index():
        other = "2.0.1" if version == "1.6" else "1.6"
        root = schemas[version][name]
        full = G.valid_value(root, root, "plain", rng, "all")

        def walk(s, inst, path):
            dname = None
            while isinstance(s, dict) and "$ref" in s:
                dname = s["$ref"].split("/")[-1]
                s = root["definitions"][dname]
            if not isinstance(s, dict):
                return
            if dname and isinstance(s.get("enum"), list) and dname in enums[other]:
                extra = sorted(enums[other][dname] - set(s["enum"]))
                if extra:
                    yield path, extra[0]
            if dname and isinstance(inst, dict) and isinstance(s.get("properties"), dict) and s.get("additionalProperties") is False \
                    and dname in props[other]:
                extra = sorted(props[other][dname] - set(s["properties"]))
                if extra:
                    yield path + (extra[0],), ({"vendorId": "v"} if extra[0] == "customData" else "x")
            if isinstance(inst, dict):
                for k, sub in (s.get("properties") or {}).items():
                    if k in inst:
                        yield from walk(sub, inst[k], path + (k,))
            elif isinstance(inst, list) and inst and isinstance(s.get("items"), dict):
                yield from walk(s["items"], inst[0], path + (0,))
        for path, value in walk(root, full, ()):
            mutated = copy.deepcopy(full)
            cur = mutated
            for k in path[:-1]:
                cur = cur[k]
            cur[path[-1]] = value
            rows.append((version, mtype, action, mutated))
    return rows


_COLD_CROSS = r"""
import json, sys
sys.path[:0] = [sys.argv[1], sys.argv[2]]
from harness import verdict as V
out = []
for (version, mtype, action, payload) in json.loads(sys.stdin.read()):
    out.append(list(V.impl_verdict(version, mtype, action, payload)[:2]))
print("@@" + json.dumps(out, default=repr))
"""


def cold_cross_versions(rep, prop):
    """In a FRESH interpreter: every message of one version validated once (all validators of that version exist), then
    the other version's messages carrying values that only the first version's same-named definitions allow -- they are
    refused all the same; and both orders.  The expectation is an evaluation of the schema file that shares nothing with
    the library (independent_verdict)."""
    import os
    import subprocess
    rng = random.Random(7)
    schemas = {"1.6": G.load_schemas("v16"), "2.0.1": G.load_schemas("v201")}
    warm = {"1.6": [], "2.0.1": []}
    for (version, pkg, mtype, action, name) in G.message_index():
        root = schemas[version][name]
        warm[version].append((version, mtype, action, G.valid_value(root, root, "plain", rng, "all")))
    targeted = shared_definition_rows()
    rep.coverage["shared_definition_positions"] = len(targeted)
    for first in ("2.0.1", "1.6"):
        second = "1.6" if first == "2.0.1" else "2.0.1"
        # the very first validation of the process names the version "2.0" (the interface accepts it, no schemas are shipped
        # for it): refused as not implemented, and nothing the other versions use is left pointing at it
        v20 = [("2.0", "Call", "Heartbeat", {}), ("2.0", "CallResult", "BootNotification", {"status": "Accepted"})]
        seq = v20 + warm[first] + [r for r in targeted if r[0] == second] + warm[second] + [r for r in targeted if r[0] == first] + v20
        pr = subprocess.run([C.PY, "-c", _COLD_CROSS, C.REPO, C.VERIF], input=json.dumps(seq), capture_output=True, text=True, timeout=300,
                            env=dict(os.environ, PYTHONHASHSEED="0", PYTHONPATH=C.REPO, OCPP_REPO=C.REPO))
        try:
            got = json.loads(pr.stdout.split("@@")[-1])
        except ValueError:
            rep.violation("%s:cold-cross:%s-first:harness" % (prop, first), "the fresh-interpreter run failed: %s" % pr.stderr[-300:],
                          {"kind": "cold-cross", "first": first}, found_input=False)
            continue
        for (version, mtype, action, payload), v in zip(seq, got):
            rep.count("cold-cross:%s:%s:%s:%s:%s" % (first, version, mtype, action, json.dumps(payload, sort_keys=True)[:300]))
            if version == "2.0":
                if v != ["reject", "NotImplemented"]:
                    rep.violation("%s:cold-cross:%s-first:2.0" % (prop, first),
                                  "fresh interpreter: a validation for the version string \"2.0\" (no schemas shipped) is judged %r" % (v,),
                                  {"kind": "cold-cross", "first": first, "version": version, "mtype": mtype, "action": action,
                                   "payload": payload, "verdict": v})
                continue
            want = independent_verdict(version, mtype, action, payload)
            if want is None:
                continue
            if (v[0] == "accept") != want:
                rep.violation("%s:cold-cross:%s-first:%s:%s:%s" % (prop, first, version, mtype, action),
                              "fresh interpreter, OCPP %s messages validated first: %s %s %s is judged %r, the schema file says %s" % (
                                  first, version, mtype, action, v, "valid" if want else "invalid"),
                              {"kind": "cold-cross", "first": first, "version": version, "mtype": mtype, "action": action,
                               "payload": payload, "verdict": v, "schema_says_valid": want})
