"""The `verdict` correspondence: Gallina `validate` on the translated schemas against
ocpp.messages._validate_payload (jsonschema) on the schema files, instance by instance."""
import json
import random

from harness import common as C
from harness import gen_instances as G


def impl_verdict(version, mtype, action, payload):
    """('accept', payload_after) | ('reject', code) | ('crash', 'ExcClass: text')."""
    import copy
    from ocpp.exceptions import OCPPError
    from ocpp.messages import Call, CallResult, _validate_payload

    p = copy.deepcopy(payload)
    msg = Call("id", action, p) if mtype == "Call" else CallResult("id", p, action)
    try:
        _validate_payload(msg, version)
    except OCPPError as e:
        return ("reject", e.code)
    except Exception as e:  # noqa: BLE001 - anything else is a crash of the validation path
        return ("crash", "%s: %s" % (type(e).__name__, str(e)[:200]))
    return ("accept", msg.payload)


def coq_case(version, mtype, action, payload, verdict):
    exp = {"accept": "EAccept", "crash": "ECrash"}.get(verdict[0]) or "(EReject %s)" % C.cs(verdict[1])
    return "mkV %s %s %s %s %s" % ("V16" if version == "1.6" else "V201",
                                    "MCall" if mtype == "Call" else "MCallResult",
                                    C.cs(action), C.cjson(payload), exp)


HEADER = C.CASE_HEADER + "From OV.Model Require Import Schema Validate Shipped CaseVerdict.\n"


def shard_source(cases):
    return HEADER + "Definition cases : list vcase := %s.\nEval vm_compute in disagreements cases.\n" % \
        C.clist(["\n" + c for c in cases])


def generate(tier, seed, only=None):
    """[(version, mtype, action, kind, payload, tags)] over all 206 schemas."""
    rng = random.Random(seed * 7919 + 17)
    rows = []
    schemas = {"v16": G.load_schemas("v16"), "v201": G.load_schemas("v201")}
    for (version, pkg, mtype, action, name) in G.message_index():
        if only and not only(version, mtype, action):
            continue
        for (kind, inst, tags) in G.instances_for(name, schemas[pkg][name], rng, tier):
            rows.append((version, mtype, action, kind, inst, tags))
    return rows


def run_correspondence(rep, rows, tag, prop_id, shard_size=250):
    """Evaluate rows on the implementation and in Coq; report disagreements. Returns list of
    (row, verdict) for further use."""
    results = []
    cases = []
    for row in rows:
        version, mtype, action, kind, inst, tags = row
        v = impl_verdict(version, mtype, action, inst)
        results.append((row, v))
        cases.append(coq_case(version, mtype, action, inst, v))
        rep.count(json.dumps([version, mtype, action, inst], sort_keys=True, default=repr), nontrivial=True)
        rep.add("kind:" + kind.split(":")[0])
        rep.add("impl:" + v[0] + (":" + v[1] if v[0] == "reject" else ""))
        # oracle by construction: what the generator built must be judged accordingly
        expect_reject = bool(tags)
        if v[0] == "crash":
            rep.violation("%s:crash:%s:%s:%s:%s" % (prop_id, version, mtype, action, json.dumps(tags)),
                          "validation of %s %s %s raised %s" % (version, mtype, action, v[1]),
                          {"kind": "verdict", "version": version, "mtype": mtype, "action": action,
                           "payload": inst, "built_to_violate": tags, "implementation": v})
        elif expect_reject != (v[0] == "reject"):
            rep.violation("%s:verdict:%s:%s:%s:%s" % (prop_id, version, mtype, action, json.dumps(tags)),
                          "%s %s %s: payload built %s was %sed" % (
                              version, mtype, action,
                              "to violate %s" % tags if tags else "schema-valid", v[0]),
                          {"kind": "verdict", "version": version, "mtype": mtype, "action": action,
                           "payload": inst, "built_to_violate": tags, "implementation": v})
    shards = [shard_source(cases[i:i + shard_size]) for i in range(0, len(cases), shard_size)]
    outs = C.coq_eval_shards(tag, shards)
    for si, (idx, out) in enumerate(outs):
        if idx is None:
            rep.violation("%s:correspondence:verdict:shard-failed" % prop_id,
                          "the verdict correspondence could not be evaluated in Coq",
                          {"kind": "correspondence", "correspondence": "verdict", "coq_output": out[-3000:],
                           "theorem": "verdict correspondence (Model/Schema.v vs _validate_payload)"}, found_input=False)
            continue
        for i in idx:
            row, v = results[si * shard_size + i]
            version, mtype, action, kind, inst, tags = row
            rc, desc = C.coq_query(tag + "-desc", HEADER + "Eval vm_compute in describe (%s).\n" % cases[si * shard_size + i])
            # is this a failing input for the property? the construction oracle above decides;
            # otherwise the correspondence is broken without one.
            already = any(json.dumps(tags) in vkey and action in vkey for (vkey, _, _) in rep.violations)
            if not already:
                rep.violation("%s:corr:verdict:%s:%s:%s:%s" % (prop_id, version, mtype, action, json.dumps(tags)),
                              "model and implementation disagree on %s %s %s (%s): implementation %r" % (
                                  version, mtype, action, kind, v[:2] if v[0] != "accept" else "accept"),
                              {"kind": "correspondence", "correspondence": "verdict", "version": version,
                               "mtype": mtype, "action": action, "payload": inst, "built_to_violate": tags,
                               "implementation": v if v[0] != "accept" else ["accept"], "model": desc[-800:],
                               "theorem": "verdict correspondence (Model/Schema.v vs _validate_payload)"},
                              found_input=False)
    return results
