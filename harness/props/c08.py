"""C08 -- OCPP-J framing round-trips and parsing is total."""
import itertools
import json
import random
import re

from harness import common as C
from harness import gen_dispatch as GD
from harness import impl_dispatch as D
from harness.props import c01 as base
from harness import textcases as T

ALPHABET = [2, 3, 4, 5, 2.0, True, "s", {}, [], None]
CLASS = {"Call": 0, "CallResult": 1, "CallError": 2, "ProtocolError": 3, "PropertyConstraintViolationError": 4,
         "FormatViolationError": 5}


def impl_class(raw):
    """(class index, message or None, escaped exception or None) for unpack(raw)."""
    from ocpp.exceptions import OCPPError
    from ocpp.messages import unpack
    try:
        m = unpack(raw)
    except OCPPError as e:
        return CLASS.get(type(e).__name__, 6), None, None
    except BaseException as e:  # noqa: BLE001
        return 7, None, "%s: %s" % (type(e).__name__, str(e)[:100])
    return CLASS.get(type(m).__name__, 6), m, None


def spec_class(raw):
    """The property's own classification, independent of the library and of the model."""
    try:
        v = json.loads(raw)
    except (ValueError, RecursionError):
        return 5
    if not isinstance(v, list) or not v:
        return 3
    t = v[0]
    def is_(n):
        try:
            return (t == n) is True
        except Exception:  # noqa: BLE001
            return False
    n = len(v) - 1
    if is_(2):
        return 0 if n == 3 else 3
    if is_(3):
        return 1 if n in (2, 3) else 3
    if is_(4):
        return 2 if n in (3, 4) else 3
    return 4


def tally(maxlen):
    from ocpp.messages import unpack  # noqa: F401
    table = []
    for n in range(0, maxlen):
        row = []
        for a in ALPHABET:
            cnt = [0] * 7
            for rest in itertools.product(ALPHABET, repeat=n):
                raw = json.dumps([a] + list(rest))
                k, _, esc = impl_class(raw)
                cnt[min(k, 6)] += 1
            row.append(cnt)
        table.append(row)
    return table


def random_json(rng, depth=0):
    r = rng.random()
    if depth > 2 or r < 0.5:
        return rng.choice([None, True, False, 0, -7, 10 ** 20, 1.5, -0.25, 1e300, 1e16, 1e15, 1e-05, 0.0001, 123456789.123, 5e-324, 1.7976931348623157e308, 0.1, 100.0,
                           1e22, -2.5e-07, 12345678901234567.0, "\x7f", "\u0080\u07ff\u0800\uffff\U00010000\U0010ffff", "a\tb\nc\rd\be\ff/", "", "s", "ünï\u2028\"\\", "\U0001F600", "\x00\x1f"])
    if r < 0.75:
        return [random_json(rng, depth + 1) for _ in range(rng.randrange(4))]
    return {rng.choice(["a", "b", "ü", "", "a b"]) + str(i): random_json(rng, depth + 1) for i in range(rng.randrange(4))}


def body_factory(tier, seed):
    def body(rep, support_ok):
        from ocpp.messages import Call, CallError, CallResult, pack
        rng = random.Random(seed * 13 + 1)
        # 1. exhaustive arrays over the alphabet
        maxlen = 5 if tier == "quick" else 7          # lengths 0..maxlen-1 after the first element
        t_impl = tally(maxlen)
        n_arrays = sum(len(ALPHABET) ** (n + 1) for n in range(maxlen)) + 1
        rep.coverage["exhaustive_arrays"] = n_arrays
        rep.coverage["evaluations"] += n_arrays
        # the direct oracle on the same space: the class of each (first element, length) group
        for n, row in enumerate(t_impl):
            for a, cnt in zip(ALPHABET, row):
                want = spec_class(json.dumps([a] + [ALPHABET[0]] * n))
                total = len(ALPHABET) ** n
                if cnt[want] != total:
                    rep.violation("C08:array:%s:%d" % (json.dumps(a), n + 1),
                                  "arrays of length %d starting with %r: classes %r, expected all %d in class %d" % (n + 1, a, cnt, total, want),
                                  {"kind": "array-group", "first": a, "length": n + 1, "counters": cnt, "expected_class": want})
        k0 = impl_class("[]")
        if k0[0] != 3:
            rep.violation("C08:array:empty", "unpack('[]') gave class %r" % (k0,), {"kind": "frame", "frame": "[]"})
        # 2. frames: malformed stream + generated
        g = GD.Gen(tier, seed)
        raws = [c[3] for c in base.corpus() + g.stratum_frames()]
        raws += ["\ufeff[2]", "[2,\"i\",\"a\",{}]\x00", "[1e400,1]", "[-0,\"\"]", "[2,\"i\",\"a\",{\"k\":" + "9" * 4301 + "}]",
                 b'[2,"id-\xff","Heartbeat",{}]', b'[3,"i",{"k":"caf\xe9"}]', b'[4,"i","GenericError","d\xc3",{}]', b'[2,"i","Heart\x80beat",{}]',
                 b'[2,"i","a",{"k\xc0\xaf":1}]', b'[3,"\xed\xa0\x80",{}]', b'[2,"i","a",{"v":"\xf8\x88\x80\x80\x80"}]', b'[2,"\xe2\x82","a",{}]',
                 "{" * 5000, "[" * 995 + "]" * 995, "\"\\ud800\"", "[2,\"\\u0000\",\"\",{}]", b"[2,\"i\",\"a\",{}]\xff", b"\xfe\xff\x00[\x00]"]
        # long frames that do not parse, as text and as bytes (anything an error quotes of them must cope with either type and
        # any length): truncated, undecodable, bad UTF-8 inside a long string, unbalanced, trailing garbage, oversized integer
        for n in (3000, 70000):
            big = '[2,"i","Heartbeat",{"k":"' + "x" * n
            raws += [big, big.encode(), b"\xff" * n, b"[" * n, ('[2,"i","a",{"k":"' + "y" * n + '"}]').encode() + b"\xff",
                     b'[2,"i","a",{"k":"' + b"\xc3" * n + b'"}]', ("[3,\"i\",{}]" + " " * n + "x").encode(),
                     ('[2,"i","a",' + "9" * (n + 2000) + "]").encode(), bytearray(b"\x80" * n), "\x00" * n]
        for _ in range(200 if tier == "quick" else 3000):
            v = [rng.choice([2, 3, 4, rng.choice(ALPHABET)])] + [random_json(rng) for _ in range(rng.randrange(6))]
            try:
                txt = json.dumps(v)
            except (TypeError, ValueError):
                continue
            if rng.random() < 0.15:
                txt = txt[:rng.randrange(len(txt) + 1)]
            raws.append(txt if rng.random() < 0.8 else txt.encode("utf-8", "surrogatepass"))
        fterms, fmeta = [], []
        for raw in raws:
            k, m, esc = impl_class(raw)
            rep.count(repr(raw)[:4000])
            want = spec_class(raw)
            replay = {"kind": "frame", "frame": raw if isinstance(raw, str) else {"hex": bytes(raw).hex()},
                      "implementation_class": k, "expected_class": want, "escaped": esc}
            if esc is not None:
                rep.violation("C08:escape:%s" % C.hashlib.sha1(repr(raw).encode()).hexdigest()[:10],
                              "unpack raised %s instead of an OCPP error" % esc, replay)
            elif k != want:
                rep.violation("C08:class:%s" % C.hashlib.sha1(repr(raw).encode()).hexdigest()[:10],
                              "unpack classified the frame as %d, the property says %d" % (k, want), replay)
            val, lo = D.loads_outcome(raw)
            if lo is None:
                continue
            same = "None" if m is None else "(Some %s)" % D.cmsg(m)
            fterms.append("mkF %s %d %s" % (lo, min(k, 6), same))
            fmeta.append(replay)
        # 3. pack: messages with JSON-representable fields
        pterms, pmeta = [], []
        for _ in range(150 if tier == "quick" else 2000):
            kind = rng.choice(["call", "result", "error"])
            uid = rng.choice(["i", "", "ü", 5, None, [1]]) if rng.random() < 0.3 else "id-%d" % rng.randrange(1000)
            if kind == "call":
                m = Call(uid, rng.choice(["Heartbeat", "", "ü", 7]), random_json(rng))
            elif kind == "result":
                m = CallResult(uid, random_json(rng), rng.choice([None, "Heartbeat"]))
            else:
                m = CallError(uid, rng.choice(["GenericError", "X", ""]), rng.choice(["d", "", "dë", "x" * 256, "é" * 300, "long " * 400]),
                              rng.choice([None, {}, {"a": [1, None]}, [], "", 0, False]))
            txt = pack(m)
            rep.count("pack:" + txt[:4000])
            back = json.loads(txt)
            replay = {"kind": "pack", "message": repr(m), "text": txt}
            if txt != json.dumps(back, separators=(",", ":")):
                rep.violation("C08:not-compact:" + kind, "pack() wrote %r which is not the compact JSON array" % txt[:200], replay)
            k, m2, esc = impl_class(txt)
            ok = esc is None and m2 is not None and type(m2) is type(m) and C.cjson(m2.unique_id) == C.cjson(m.unique_id)
            if ok and kind == "call":
                ok = C.cjson(m2.action) == C.cjson(m.action) and C.cjson(m2.payload) == C.cjson(m.payload)
            if ok and kind == "result":
                ok = C.cjson(m2.payload) == C.cjson(m.payload)
            if ok and kind == "error":
                ok = (m2.error_code, m2.error_description) == (m.error_code, m.error_description) and \
                     C.cjson(m2.error_details) == C.cjson(m.error_details)
            if not ok:
                rep.violation("C08:roundtrip:%s:%s" % (kind, C.hashlib.sha1(txt.encode()).hexdigest()[:8]),
                              "unpack(pack(m)) is not m for %r -> %r" % (m, txt[:200]), replay)
            try:
                pterms.append("mkP %s %s %s" % (D.cmsg(m), C.cjson(back), C.cs(txt)))
                pmeta.append(replay)
            except TypeError:
                pass
        # 3b. the text level: json.loads / unpack against JsonParse.loads / unpack_text
        cov = T.run_text(rep, "C08", tier, seed, support_ok)
        for k_, v_ in cov.items():
            rep.coverage[k_] = v_
        rep.coverage["evaluations"] += cov.get("texts", 0) + cov.get("dumps_cases", 0)
        # 3c. serialising is a function of the message's CURRENT fields: serialise, change a field (by assignment and
        #     in place), serialise again -- the text must be the one a fresh message with those fields gets
        for kind in ("call", "result", "error"):
            for how in ("payload-assigned", "payload-in-place", "id", "unpacked-then-edited"):
                if kind == "call":
                    mk = lambda i, p: Call(i, "Heartbeat", p)
                elif kind == "result":
                    mk = lambda i, p: CallResult(i, p)
                else:
                    mk = lambda i, p: CallError(i, "GenericError", "d", p)
                m = mk("m-1", {"a": 1})
                first = pack(m)
                if how == "unpacked-then-edited":
                    from ocpp.messages import unpack
                    m = unpack(first)
                    pack(m)
                attr = "error_details" if kind == "error" else "payload"
                if how == "id":
                    m.unique_id = "m-2"
                    want = mk("m-2", {"a": 1})
                elif how == "payload-in-place" or how == "unpacked-then-edited":
                    getattr(m, attr)["b"] = [2.5, None]
                    want = mk("m-1", {"a": 1, "b": [2.5, None]})
                else:
                    setattr(m, attr, {"z": "new"})
                    want = mk("m-1", {"z": "new"})
                rep.count("repack:%s:%s" % (kind, how))
                got, exp = pack(m), pack(want)
                if got != exp:
                    rep.violation("C08:stale-text:%s:%s" % (kind, how),
                                  "a %s serialised again after its %s changed is written as %r, a fresh message with the same fields as %r" % (
                                      kind, how, got[:120], exp[:120]),
                                  {"kind": "repack", "message_kind": kind, "how": how, "text": got, "expected": exp})
        if not support_ok:
            return
        # 4. the model on the same inputs
        shard = 150
        shards = []
        tally_src = (C.CASE_HEADER + "From OV.Model Require Import Schema Frame CaseFrame.\n"
                     "Definition impl_table : list (list (list N)) := %s.\n"
                     "Eval vm_compute in (if forallb (fun p => forallb (fun q => forallb (fun r => N.eqb (fst r) (snd r)) "
                     "(combine (fst q) (snd q)) && Nat.eqb (List.length (fst q)) (List.length (snd q))) (combine (fst p) (snd p))) "
                     "(combine (tally_table %d) impl_table) then ([] : list N) else [0%%N]).\n") % (
            C.clist([C.clist([C.clist(["%d%%N" % x for x in cnt]) for cnt in row]) for row in t_impl]), maxlen)
        shards.append(tally_src)
        fh = C.CASE_HEADER + "From OV.Model Require Import Schema Frame CaseFrame.\n"
        for i in range(0, len(fterms), shard):
            shards.append(fh + "Definition cases : list fcase := %s.\nEval vm_compute in fdisagreements cases.\n" % C.clist(
                ["\n" + t for t in fterms[i:i + shard]]))
        nf = len(shards)
        for i in range(0, len(pterms), shard):
            shards.append(fh + "Definition cases : list pcase := %s.\nEval vm_compute in pdisagreements cases.\n" % C.clist(
                ["\n" + t for t in pterms[i:i + shard]]))
        outs = C.coq_eval_shards("C08", shards, timeout=1200)
        broken = []
        for si, (idx, out) in enumerate(outs):
            if idx is None:
                rep.violation("C08:correspondence:unpack:shard-failed", "the unpack correspondence could not be evaluated in Coq",
                              {"kind": "correspondence", "correspondence": "unpack", "coq_output": out[-3000:],
                               "theorem": "unpack correspondence (Model/Frame.v vs ocpp.messages.unpack/pack)"}, found_input=False)
                continue
            for i in idx:
                if si == 0:
                    broken.append({"kind": "tally", "implementation_table": t_impl})
                elif si < nf:
                    broken.append(fmeta[(si - 1) * shard + i])
                else:
                    broken.append(pmeta[(si - nf) * shard + i])
        if broken and not any(v[2] for v in rep.violations):
            rep.violation("C08:corr:unpack", "model and implementation disagree on %d framing case(s)" % len(broken),
                          {"kind": "correspondence", "correspondence": "unpack", "cases": broken[:5],
                           "theorem": "unpack correspondence (Model/Frame.v vs ocpp.messages.unpack/pack)"}, found_input=False)
        rep.sample({"frame": str(raws[40])[:120]})
        rep.sample({"pack": pmeta[0]["text"][:120] if pmeta else ""})
    return body


def run(rep, tier, seed):
    return C.standard_run(rep, "C08", ["Model/CaseFrame.vo", "Model/CaseText.vo"], [body_factory(tier, seed + 1000 * i) for i in range(3 if tier == "thorough" else 1)], rule=(
        "exhaustive: all JSON arrays of length 0..5 (quick) / 0..7 (thorough) over the alphabet [2,3,4,5,2.0,true,'s',{},[],null] "
        "through the real unpack and, tallied per (first element, length), through the model; plus malformed / hostile / "
        "random frames (str and bytes, truncated, huge literals, deep nesting, surrogates, non-UTF-8) and random messages through "
        "pack and back; distinct by frame text"), exhaustive=True)


def replay(d):
    if d.get("kind") == "frame":
        raw = d["frame"] if isinstance(d["frame"], str) else bytes.fromhex(d["frame"]["hex"])
        k, m, esc = impl_class(raw)
        want = spec_class(raw)
        print("unpack ->", k, m, esc, "; property says class", want)
        ok = esc is None and k == want
        print("HOLDS" if ok else "FAILS")
        return 0 if ok else 1
    if d.get("kind") == "repack":
        from ocpp.messages import Call, CallError, CallResult, pack, unpack
        kind, how = d["message_kind"], d["how"]
        mk = {"call": lambda i, p: Call(i, "Heartbeat", p), "result": lambda i, p: CallResult(i, p),
              "error": lambda i, p: CallError(i, "GenericError", "d", p)}[kind]
        m = mk("m-1", {"a": 1})
        first = pack(m)
        if how == "unpacked-then-edited":
            m = unpack(first)
            pack(m)
        attr = "error_details" if kind == "error" else "payload"
        if how == "id":
            m.unique_id = "m-2"
            want = mk("m-2", {"a": 1})
        elif how in ("payload-in-place", "unpacked-then-edited"):
            getattr(m, attr)["b"] = [2.5, None]
            want = mk("m-1", {"a": 1, "b": [2.5, None]})
        else:
            setattr(m, attr, {"z": "new"})
            want = mk("m-1", {"z": "new"})
        got, exp = pack(m), pack(want)
        print("serialised again:", got, "| fresh message:", exp)
        print("HOLDS" if got == exp else "FAILS")
        return 0 if got == exp else 1
    print("re-run: python3 check.py C08 quick")
    return 0
