"""C15 -- an endpoint's route map is exactly its own decorated methods."""
import inspect
import json
import random

from harness import common as C

PROP = "C15"
# actions of both versions, of one version only (StartTransaction: 1.6, NotifyReport: 2.0.1 -- an endpoint of the other version may
# still route them), and an application action of its own
ACTIONS = ["Heartbeat", "BootNotification", "Reset", "Authorize", "StartTransaction", "NotifyReport", "VendorDiagnostics"]
NAMES = ["on_a", "on_b", "handle", "after_a", "hook", "foo", "bar"]


def gen_hierarchy(rng):
    """classes: [{'name','base': index|None,'attrs':[(name, kind, action, skip, is_async)]}] in definition order"""
    n = rng.choice([1, 2, 3, 4, 5])
    classes = []
    for i in range(n):
        base = rng.choice([None] + [j for j in range(i) if depth(classes, j) < 2]) if i else None
        attrs = []
        names = rng.sample(NAMES, rng.choice([0, 1, 2, 3]))
        for nm in names:
            k = rng.random()
            if k < 0.08:
                # one method carrying both decorators: "<on-action>|<after-action>|<which decorator is outermost>"
                attrs.append((nm, "both", "%s|%s|%s" % (rng.choice(ACTIONS), rng.choice(ACTIONS), rng.choice(["after", "on"])),
                              rng.random() < 0.5, rng.random() < 0.5))
            elif k < 0.45:
                attrs.append((nm, "on", rng.choice(ACTIONS), rng.random() < 0.3, rng.random() < 0.5))
            elif k < 0.65:
                attrs.append((nm, "after", rng.choice(ACTIONS), False, rng.random() < 0.5))
            elif k < 0.85:
                attrs.append((nm, "plain", None, False, rng.random() < 0.5))
            else:
                attrs.append((nm, "property", None, False, False))
        if base is not None and rng.random() < 0.3:
            inherited = [a for a in classes[base]["attrs"] if a[1] in ("on", "after") and a[0] not in [x[0] for x in attrs]]
            if inherited:
                (nm, kind, action, skip, _) = rng.choice(inherited)
                # the parent's decorated function object itself, decorated again for another action / other options
                attrs.append((nm, kind, rng.choice([a for a in ACTIONS if a != action]), rng.random() < 0.3 if kind == "on" else False, "redecorate"))
        classes.append({"name": "K%d" % i, "base": base, "attrs": attrs})
    return classes


def depth(classes, j):
    d = 0
    while classes[j]["base"] is not None:
        j = classes[j]["base"]
        d += 1
    return d


def permutations_of(classes, rng):
    """another definition order respecting base-before-subclass"""
    order = list(range(len(classes)))
    for _ in range(20):
        rng.shuffle(order)
        pos = {c: i for i, c in enumerate(order)}
        if all(classes[c]["base"] is None or pos[classes[c]["base"]] < pos[c] for c in order):
            return order
    return list(range(len(classes)))


def build(classes, order, version="1.6"):
    """define the classes for real, in the given order; returns {index: class} and the getter log"""
    import ocpp.routing as R
    from ocpp.routing import after, on
    from ocpp.v16 import ChargePoint as CP16
    from ocpp.v201 import ChargePoint as CP201
    R.routables.clear()            # the history of this case starts here
    log = []
    built = {}
    for ci in order:
        c = classes[ci]
        ns = {}
        for (nm, kind, action, skip, is_async) in c["attrs"]:
            if kind == "property":
                def getter(self, _nm=nm, _cn=c["name"]):
                    log.append((_cn, _nm))
                    raise RuntimeError("getter %s.%s evaluated" % (_cn, _nm))
                ns[nm] = property(getter)
                continue
            if is_async == "redecorate":
                fn = inspect.getattr_static(built[c["base"]], nm)
            else:
                src = "%sdef %s(self, **kwargs):\n    return None\n" % ("async " if is_async else "", nm)
                loc = {}
                exec(src, {}, loc)  # noqa: S102
                fn = loc[nm]
                fn._ov_owner = c["name"]
            if kind == "on":
                fn = on(action, skip_schema_validation=skip)(fn)
            elif kind == "after":
                fn = after(action)(fn)
            elif kind == "both":
                a_on, a_after, outer = action.split("|")
                fn = after(a_after)(on(a_on, skip_schema_validation=skip)(fn)) if outer == "after" else \
                    on(a_on, skip_schema_validation=skip)(after(a_after)(fn))
                fn._ov_owner = c["name"]
            if is_async == "redecorate":
                fn._ov_owner = c["name"]          # the new wrapper belongs to this class (decorating returns a new function)
            ns[nm] = fn
        base = built[c["base"]] if c["base"] is not None else (CP16 if version == "1.6" else CP201)
        built[ci] = type(c["name"], (base,), ns)
        try:
            built[ci]("early", None)           # an instance exists before the classes defined later do
        except RuntimeError:
            pass                               # a getter was evaluated: it is in the log
    return built, log


def observe(built, log, ci):
    first = built[ci]("first", None)          # an earlier instance of the same class must not matter
    obj = built[ci]("x", None)
    assert first is not obj
    out = {}
    for action, r in obj.route_map.items():
        e = {}
        if "_on_action" in r:
            f = r["_on_action"]
            e["on"] = [f._ov_owner, f.__name__, bool(r.get("_skip_schema_validation")), f.__self__ is obj]
        if "_after_action" in r:
            f = r["_after_action"]
            e["after"] = [f._ov_owner, f.__name__, f.__self__ is obj]
        out[action] = e
    return out


def expected(built, classes, ci):
    """the property, directly: walk the instance's namespace by attribute lookup (getattr_static)"""
    cls = built[ci]
    out, amb = {}, set()
    names = set()
    for k in cls.__mro__:
        names |= set(vars(k))
    decl = {(c["name"], a[0]): a for c in classes for a in c["attrs"]}
    for nm in sorted(names):
        a = inspect.getattr_static(cls, nm)
        if not inspect.isfunction(a):
            continue
        owner = getattr(a, "_ov_owner", None)
        # action and flag as DECLARED for that method in its class (what the decorators left on the function only where
        # the case does not say, i.e. never for generated hierarchies)
        d = decl.get((owner, nm))
        if (d[1] in ("on", "both")) if d else hasattr(a, "_on_action"):
            action = d[2].split("|")[0] if d and d[1] in ("on", "both") else a._on_action
            e = out.setdefault(action, {})
            if "on" in e:
                amb.add(action)
            e["on"] = [owner, nm, bool(d[3]) if d and d[1] in ("on", "both") else bool(a._skip_schema_validation), True]
        if (d[1] in ("after", "both")) if d else hasattr(a, "_after_action"):
            action = (d[2].split("|")[1] if d[1] == "both" else d[2]) if d and d[1] in ("after", "both") else a._after_action
            e = out.setdefault(action, {})
            if "after" in e:
                amb.add(action)
            e["after"] = [owner, nm, True]
    return out, amb


def chistory(classes, order):
    rows = []
    for ci in order:
        c = classes[ci]
        attrs = []
        for (nm, kind, action, skip, is_async) in c["attrs"]:
            if kind == "both":
                a = "ABoth %s %s %s" % (C.cs(action.split("|")[0]), C.cbool(skip), C.cs(action.split("|")[1]))
            else:
                a = {"on": "AOn %s %s" % (C.cs(action or ""), C.cbool(skip)), "after": "AAfter %s" % C.cs(action or ""),
                     "plain": "APlain", "property": "AProperty"}[kind]
            attrs.append("(%s, %s)" % (C.cs(nm), a))
        base = "None" if c["base"] is None else "(Some %s)" % C.cs(classes[c["base"]]["name"])
        rows.append("mkRC %s %s %s" % (C.cs(c["name"]), base, C.clist(attrs)))
    return C.clist(rows)


def centry(e):
    on = "None" if "on" not in e else "(Some (%s, %s, %s))" % (C.cs(e["on"][0]), C.cs(e["on"][1]), C.cbool(e["on"][2]))
    af = "None" if "after" not in e else "(Some (%s, %s))" % (C.cs(e["after"][0]), C.cs(e["after"][1]))
    return "(mkEntry %s %s)" % (on, af)


def stacked(rep):
    """one method carrying BOTH decorators, in either stacking order, alone and inherited / next to other routes: it is the
    handler of its on()-action with the flag on() was given, and the hook of its after()-action.  The expectation comes
    from the declaration, not from the attributes the decorators leave on the function."""
    from ocpp.routing import after, on
    from ocpp.v16 import ChargePoint as CP16
    from ocpp.v201 import ChargePoint as CP201
    n = 0
    for base_cls in (CP16, CP201):
        for skip in (True, False):
            for outer in ("after", "on"):
                for (a_on, a_after) in (("Heartbeat", "Heartbeat"), ("Reset", "Heartbeat")):
                    for is_async in (False, True):
                        for inherited in (False, True):
                            src = "%sdef both(self, **kwargs):\n    return None\n" % ("async " if is_async else "")
                            loc = {}
                            exec(src, {}, loc)  # noqa: S102
                            fn = loc["both"]
                            if outer == "after":
                                fn = after(a_after)(on(a_on, skip_schema_validation=skip)(fn))
                            else:
                                fn = on(a_on, skip_schema_validation=skip)(after(a_after)(fn))

                            def other(self, **kwargs):
                                return None
                            ns = {"both": fn, "other": on("ClearCache", skip_schema_validation=not skip)(other)}
                            cls = type("Stacked", (base_cls,), ns)
                            if inherited:
                                cls = type("StackedChild", (cls,), {})
                            obj = cls("x", None)
                            n += 1
                            decl = {"base": base_cls.__module__, "skip": skip, "outer": outer, "on": a_on, "after": a_after, "async": is_async, "inherited": inherited}
                            rep.count("stacked:" + json.dumps(decl, sort_keys=True))
                            rm = obj.route_map
                            got = {"on": (getattr(rm.get(a_on, {}).get("_on_action"), "__name__", None), bool(rm.get(a_on, {}).get("_skip_schema_validation"))),
                                   "after": getattr(rm.get(a_after, {}).get("_after_action"), "__name__", None),
                                   "other": (getattr(rm.get("ClearCache", {}).get("_on_action"), "__name__", None),
                                             bool(rm.get("ClearCache", {}).get("_skip_schema_validation")))}
                            want = {"on": ("both", skip), "after": "both", "other": ("other", not skip)}
                            if got != want:
                                rep.violation("C15:stacked:%s-outer:skip=%s" % (outer, skip),
                                              "one method declared @%s over @%s (on(%r, skip_schema_validation=%r), after(%r)%s): the route map has %r, "
                                              "declared %r" % (outer, "on" if outer == "after" else "after", a_on, skip, a_after,
                                                               ", inherited" if inherited else "", got, want),
                                              {"kind": "stacked", "declaration": decl, "route_map": repr(got), "expected": repr(want)})
    rep.coverage["stacked_decorator_cases"] = n


def instance_attributes(rep):
    """'the method that attribute lookup ON THAT INSTANCE resolves to': an instance attribute of the same name takes
    precedence over the class's handler -- a decorated replacement (with its own flag) becomes the route, a plain value
    removes it; other instances of the class are not affected"""
    from ocpp.routing import after, on
    from ocpp.v16 import ChargePoint as CP16
    from ocpp.v201 import ChargePoint as CP201
    for base_cls in (CP16, CP201):
        def replacement_fn(**kwargs):
            return None
        replacement_fn.__name__ = "on_hb"

        class WithClassHandlers(base_cls):
            def __init__(self, id, connection, replace=False, drop_hook=False):
                if replace:
                    self.on_hb = on("Heartbeat", skip_schema_validation=True)(replacement_fn)
                if drop_hook:
                    self.after_hb = None
                super().__init__(id, connection)

            @on("Heartbeat")
            def on_hb(self, **kwargs):
                return None

            @after("Heartbeat")
            def after_hb(self, **kwargs):
                return None
        plain, replaced, dropped = WithClassHandlers("p", None), WithClassHandlers("r", None, replace=True), WithClassHandlers("d", None, drop_hook=True)
        plain2 = WithClassHandlers("p2", None)
        rep.count("instance-attributes:" + base_cls.__module__)

        def view(o):
            r = o.route_map.get("Heartbeat", {})
            h = r.get("_on_action")
            return {"on_is_class_method": getattr(h, "__self__", None) is o, "skip": bool(r.get("_skip_schema_validation")),
                    "has_hook": "_after_action" in r}
        got = {"plain": view(plain), "replaced": view(replaced), "dropped": view(dropped), "plain-after": view(plain2)}
        want = {"plain": {"on_is_class_method": True, "skip": False, "has_hook": True},
                "replaced": {"on_is_class_method": False, "skip": True, "has_hook": True},
                "dropped": {"on_is_class_method": True, "skip": False, "has_hook": False},
                "plain-after": {"on_is_class_method": True, "skip": False, "has_hook": True}}
        if got != want:
            rep.violation("C15:instance-attribute:%s" % base_cls.__module__,
                          "instances whose own attributes shadow the class's handler / hook: route maps %r, attribute lookup says %r" % (got, want),
                          {"kind": "instance-attributes", "base": base_cls.__module__, "route_maps": got, "expected": want})


def body_factory(tier, seed):
    def body(rep, support_ok):
        stacked(rep)
        instance_attributes(rep)
        rng = random.Random(seed * 53 + 9)
        n = 150 if tier == "quick" else 2500
        terms, meta = [], []
        for case_i in range(n):
            classes = gen_hierarchy(rng)
            orders = [list(range(len(classes))), permutations_of(classes, rng)]
            seen = {}
            for oi, order in enumerate(orders):
                try:
                    built, log = build(classes, order, rng.choice(["1.6", "2.0.1"]))
                except Exception as e:  # noqa: BLE001
                    rep.violation("C15:define:%d" % case_i, "defining the classes failed: %r" % e,
                                  {"kind": "routing", "classes": classes, "order": order})
                    continue
                for ci in range(len(classes)):
                    replay = {"kind": "routing", "classes": classes, "order": order, "class": classes[ci]["name"]}
                    try:
                        got = observe(built, log, ci)
                    except RuntimeError as e:
                        rep.violation("C15:getter:%s" % json.dumps(classes[ci]["attrs"]),
                                      "constructing %s evaluated a property: %s" % (classes[ci]["name"], e), replay)
                        continue
                    rep.count(json.dumps([classes, order, ci]))
                    want, amb = expected(built, classes, ci)
                    for action in set(want) | set(got):
                        if action in amb:
                            rep.add("ambiguous")
                            continue
                        if want.get(action, {}) != got.get(action, {}):
                            rep.violation("C15:map:%s:%s" % (action, C.hashlib.sha1(json.dumps([classes, order, ci]).encode()).hexdigest()[:10]),
                                          "%s routes %s to %r, attribute lookup says %r" % (classes[ci]["name"], action, got.get(action), want.get(action)),
                                          dict(replay, action=action, route_map=got, expected=want))
                    if log:
                        rep.violation("C15:getter:%s" % json.dumps(log[:2]), "building the route map evaluated %r" % (log[:3],), replay)
                        del log[:]
                    key = ci
                    if oi == 0:
                        seen[key] = got
                    elif {a: v for a, v in got.items() if a not in amb} != {a: v for a, v in seen.get(key, {}).items() if a not in amb}:
                        rep.violation("C15:order:%s" % C.hashlib.sha1(json.dumps([classes, ci]).encode()).hexdigest()[:10],
                                      "the route map of %s depends on the class definition order" % classes[ci]["name"],
                                      dict(replay, first_order=seen.get(key), this_order=got))
                    obs = [(a, got.get(a, {})) for a in ACTIONS]
                    terms.append("mkR %s %s %s" % (chistory(classes, order), C.cs(classes[ci]["name"]),
                                                    C.clist(["(%s, %s)" % (C.cs(a), centry(e)) for a, e in obs])))
                    meta.append(replay)
        import ocpp.routing as R
        R.routables.clear()
        if support_ok:
            shard = 200
            hdr = C.CASE_HEADER + "From OV.Model Require Import Routing CaseRouting.\n"
            shards = [hdr + "Definition cases : list rcase := %s.\nEval vm_compute in rdisagreements cases.\n" % C.clist(
                ["\n" + t for t in terms[i:i + shard]]) for i in range(0, len(terms), shard)]
            outs = C.coq_eval_shards("C15", shards)
            broken = []
            for si, (idx, out) in enumerate(outs):
                if idx is None:
                    rep.violation("C15:correspondence:routing:shard-failed", "the routing correspondence could not be evaluated in Coq",
                                  {"kind": "correspondence", "correspondence": "routing", "coq_output": out[-3000:],
                                   "theorem": "routing correspondence (Model/Routing.v vs ocpp.routing)"}, found_input=False)
                    continue
                broken += [si * shard + i for i in idx]
            if broken and not any(v[2] for v in rep.violations):
                rep.violation("C15:corr:routing", "model and implementation disagree on %d route map(s)" % len(broken),
                              {"kind": "correspondence", "correspondence": "routing", "cases": [meta[i] for i in broken[:3]],
                               "theorem": "routing correspondence (Model/Routing.v vs ocpp.routing)"}, found_input=False)
        rep.sample({"classes": meta[5]["classes"], "order": meta[5]["order"]} if len(meta) > 5 else {})
    return body


def run(rep, tier, seed):
    return C.standard_run(rep, PROP, ["Model/CaseRouting.vo"], [body_factory(tier, seed + 1000 * i) for i in range(3 if tier == "thorough" else 1)], rule=(
        "one case = a generated class hierarchy (1-5 classes, inheritance depth <= 3, siblings, the same method names reused "
        "across classes, on/after/skip flags, sync/async, undecorated overrides, properties that raise when evaluated) defined "
        "for real in two definition orders, one instance per class; the route map read back as (owner class, function name, "
        "skip flag, bound to the instance); distinct by (hierarchy, order, class)"))


def replay(d):
    if d.get("kind") == "instance-attributes":
        class R3:
            hit = []
            coverage = {}

            def count(self, *_a):
                pass

            def violation(self, key, what, *_a, **_k):
                self.hit.append(key)
                print(what)
        r3 = R3()
        instance_attributes(r3)
        print("FAILS" if r3.hit else "HOLDS")
        return 1 if r3.hit else 0
    if d.get("kind") == "stacked":
        class R:
            hit = []
            coverage = {}

            def count(self, *_a):
                pass

            def violation(self, key, what, *_a, **_k):
                self.hit.append(key)
                print(what)
        r = R()
        stacked(r)
        key = "C15:stacked:%s-outer:skip=%s" % (d["declaration"]["outer"], d["declaration"]["skip"])
        print("FAILS" if key in r.hit else "HOLDS")
        return 1 if key in r.hit else 0
    classes = d["classes"]
    for c in classes:
        c["attrs"] = [tuple(a) for a in c["attrs"]]
    built, log = build(classes, d["order"])
    ci = [i for i, c in enumerate(classes) if c["name"] == d["class"]][0]
    try:
        got = observe(built, log, ci)
    except RuntimeError as e:
        print("FAILS: getter evaluated:", e)
        return 1
    want, amb = expected(built, classes, ci)
    print("route map:", got, "\nattribute lookup says:", want, "ambiguous:", amb)
    bad = [a for a in set(want) | set(got) if a not in amb and want.get(a, {}) != got.get(a, {})] or log
    print("FAILS" if bad else "HOLDS")
    return 1 if bad else 0
