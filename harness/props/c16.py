"""C16 -- see properties.jsonl; theorems in coq/Props/C16.v, tie: the dispatch correspondence in the
observables of this property, plus the property's direct oracle on every observed frame."""
from harness import common as C
from harness import gen_dispatch as GD
from harness import oracles as O
from harness.props import c01 as base

PROP = "C16"
VIEW = "VC16"
ORACLE = O.c16


def body_factory(tier, seed):
    def body(rep, support_ok):
        g = GD.Gen(tier, seed)
        cases = base.corpus() + g.all_cases()
        extra = EXTRA(g, tier) if EXTRA else []
        cases = cases + extra
        modes = (False, True) if tier == "thorough" else (False,)
        if not support_ok:
            from harness import impl_dispatch as D
            for (kind, version, routes, raw, info) in map(GD.norm, cases):
                if not any(kind.startswith(k) for k in KINDS):
                    continue
                obs = D.observe_frame(version, routes, raw, send_ok=info.get('send_ok', True))
                rep.count(repr((version, routes, raw)))
                for key, what in ORACLE(kind, version, routes, raw, obs, info):
                    rep.violation(PROP + ":" + key, what, {"kind": "dispatch", "version": version, "routes": routes,
                                                           "frame": raw if isinstance(raw, str) else {"hex": bytes(raw).hex()},
                                                           "observation": obs, "info": info})
            return
        GD.run_cases(rep, cases, PROP, PROP, ORACLE, async_modes=modes, view=VIEW, kinds=KINDS)
        GD.run_repeats(rep, cases, PROP, ("skip", "payload-skip", "bad-req", "bad-res"))
        # the outbound half (call()): histories on a real endpoint under the virtual clock
        from harness import gen_history as GH
        hs = GH.HGen(tier, seed).all()[: (40 if tier == "quick" else 300)]
        GH.run_histories(rep, hs, PROP + "h", PROP, O.c16_outbound, "VH16")
        # two endpoint classes in one process, same handler names, opposite flags, BOTH defined before either is
        # used: each keeps its own behaviour (skipping is scoped to the class that declared it)
        from harness import impl_dispatch as D
        import json as _json
        for version in ("1.6", "2.0.1"):
            for first_skips in (True, False):
                def mk(skip):
                    return [{"action": "Reset", "skip": skip,
                             "on": {"name": "on_reset", "sig": GD.KW, "async": False, "out": ("ret", {"status": "NotAStatus"})}}]
                ra, rb = mk(first_skips), mk(not first_skips)
                ca, cb = D.make_cp_class(version, ra), D.make_cp_class(version, rb)
                for (cls_, routes_, skips) in ((ca, ra, first_skips), (cb, rb, not first_skips), (ca, ra, first_skips)):
                    raw = '[2,"tc","Reset",{"type":"NotAType","extra":1}]'
                    obs = D.observe_frame(version, routes_, raw, cls=cls_)
                    rep.count(_json.dumps([version, first_skips, skips]))
                    hs = [e for e in obs if e[0] == "handler"]
                    w = O.sends(obs)
                    ok = (len(hs) == 1 and len(w) == 1 and w[0][0] == 3) if skips else (not hs and len(w) == 1 and w[0][0] == 4)
                    if not ok:
                        rep.violation("C16:two-classes:%s:%s" % (version, "skipping" if skips else "validating"),
                                      "with two endpoint classes declaring the same handler name with opposite flags, the %s class "
                                      "%s an invalid Reset" % ("skipping" if skips else "validating", "rejected" if skips else "accepted"),
                                      {"kind": "two-classes", "version": version, "first_class_skips": first_skips, "this_class_skips": skips,
                                       "frame": raw, "observation": obs})
        # a handler function that one class registered with validation skipped is registered AGAIN by another class
        # (or a subclass) with default / explicit validating options: the second declaration decides for that class
        import asyncio as _asyncio
        import importlib as _importlib
        from ocpp.routing import on as _on
        for version in ("1.6", "2.0.1"):
            pkg = "v16" if version == "1.6" else "v201"
            base_cls = getattr(_importlib.import_module("ocpp." + pkg), "ChargePoint")
            cr = _importlib.import_module("ocpp.%s.call_result" % pkg)
            for variant in ("default", "explicit-false", "subclass"):
                ran = []

                class Legacy(base_cls):
                    @_on("Reset", skip_schema_validation=True)
                    def on_reset(self, **kw):
                        ran.append(type(self).__name__)
                        return cr.Reset(status="Accepted")
                if variant == "subclass":
                    class Strict(Legacy):
                        on_reset = _on("Reset")(Legacy.on_reset)
                elif variant == "default":
                    class Strict(base_cls):
                        on_reset = _on("Reset")(Legacy.on_reset)
                else:
                    class Strict(base_cls):
                        on_reset = _on("Reset", skip_schema_validation=False)(Legacy.on_reset)
                rec = D.Recorder()
                rec_legacy = D.Recorder()

                async def go():
                    import logging
                    cp = Strict("strict", D.Conn(rec))
                    cp.logger = logging.getLogger("ov-silent")
                    await cp.route_message('[2,"rd","Reset",{"type":"NotAType","extra":1}]')
                    ran_strict = list(ran)
                    del ran[:]
                    # ... and the class that asked for skipping still skips, although Strict was declared after it
                    lg = Legacy("legacy", D.Conn(rec_legacy))
                    lg.logger = cp.logger
                    await lg.route_message('[2,"rl","Reset",{"type":"NotAType","extra":1}]')
                    ran_legacy = list(ran)
                    del ran[:]
                    ran.extend(ran_strict)
                    return ran_legacy
                ran_legacy = _asyncio.run(go())
                rep.count("redecorated:%s:%s" % (version, variant))
                w = O.sends(rec.seq)
                wl = O.sends(rec_legacy.seq)
                if ran_legacy != ["Legacy"] or not (len(wl) == 1 and wl[0][0] == 3):
                    rep.violation("C16:redecorated-legacy:%s:%s" % (version, variant),
                                  "after another class registered the same handler function again (%s options), the class that declared it "
                                  "with validation skipped no longer skips: handler ran %r, written %r" % (variant, ran_legacy, wl[:1]),
                                  {"kind": "redecorated", "version": version, "variant": variant, "which": "legacy",
                                   "frame": '[2,"rl","Reset",{"type":"NotAType","extra":1}]', "handler_ran": ran_legacy, "written": wl[:1]})
                if ran or not (len(w) == 1 and w[0][0] == 4):
                    rep.violation("C16:redecorated:%s:%s" % (version, variant),
                                  "a class that registers an already skip-decorated handler function again with %s options %s an invalid Reset "
                                  "(handler ran: %r, written: %r)" % (variant, "accepted" if ran else "mishandled", ran, w[:1]),
                                  {"kind": "redecorated", "version": version, "variant": variant, "frame": '[2,"rd","Reset",{"type":"NotAType","extra":1}]',
                                   "handler_ran": ran, "written": w[:1]})
        # the public route map rebuilt after handlers were attached to the INSTANCE (what the library's own tests do:
        # cp.route_map = create_route_map(cp)): the flags in force are those of the map the endpoint now has
        from ocpp.routing import create_route_map as _crm
        for version in ("1.6", "2.0.1"):
            pkg = "v16" if version == "1.6" else "v201"
            base_cls = getattr(_importlib.import_module("ocpp." + pkg), "ChargePoint")
            cr = _importlib.import_module("ocpp.%s.call_result" % pkg)
            for becomes_skipping in (True, False):
                ran = []

                class WithRoute(base_cls):
                    @_on("Reset", skip_schema_validation=not becomes_skipping)
                    def on_reset(self, **kw):
                        ran.append("class")
                        return cr.Reset(status="Accepted")

                def inst_handler(**kw):
                    ran.append("instance")
                    return cr.Reset(status="Accepted")
                inst_handler.__name__ = "on_reset"
                rec = D.Recorder()

                async def go_rebuilt():
                    import logging
                    cp = WithRoute("x", D.Conn(rec))
                    cp.logger = logging.getLogger("ov-silent")
                    cp.on_reset = _on("Reset", skip_schema_validation=becomes_skipping)(inst_handler)
                    cp.route_map = _crm(cp)
                    await cp.route_message('[2,"rb","Reset",{"type":"NotAType","extra":1}]')
                _asyncio.run(go_rebuilt())
                rep.count("rebuilt-route-map:%s:%s" % (version, becomes_skipping))
                w = O.sends(rec.seq)
                ok = (ran == ["instance"] and len(w) == 1 and w[0][0] == 3) if becomes_skipping else (not ran and len(w) == 1 and w[0][0] == 4)
                if not ok:
                    rep.violation("C16:rebuilt-route-map:%s:%s" % (version, "now-skipping" if becomes_skipping else "now-validating"),
                                  "after cp.on_reset was replaced on the instance by a handler registered with skip_schema_validation=%r and "
                                  "cp.route_map = create_route_map(cp), an invalid Reset CALL: handlers run %r, written %r" % (
                                      becomes_skipping, ran, [x[:3] for x in w]),
                                  {"kind": "rebuilt-route-map", "version": version, "becomes_skipping": becomes_skipping, "ran": ran, "written": w})
        # two endpoints of different classes in one process handle CALLs with the SAME unique id at the same time: the one
        # whose route skips validation is still inside its (slow, asynchronous) handler when the other one, whose route
        # validates, gets its invalid handler result -- 'every other endpoint in the process keeps full validation'
        for version in ("1.6", "2.0.1"):
            for b_action, b_bad in (("Reset", {"status": "NotAStatus"}), ("Heartbeat", {"current_time": 5})):
                ra = [{"action": "Reset", "skip": True,
                       "on": {"name": "on_reset", "sig": GD.KW, "async": True, "sleep": 0.05, "out": ("ret", {"status": "NotAStatus"})}}]
                rb = [{"action": b_action, "skip": False,
                       "on": {"name": "on_" + b_action.lower(), "sig": GD.KW, "async": False, "out": ("ret", b_bad)}}]
                ca, cb = D.make_cp_class(version, ra), D.make_cp_class(version, rb)
                rec_a, rec_b = D.Recorder(), D.Recorder()
                reset = '{"type":"Hard"}' if version == "1.6" else '{"type":"Immediate"}'

                async def go_two():
                    import logging
                    a, b = ca("a", D.Conn(rec_a)), cb("b", D.Conn(rec_b))
                    a._ov_rec, b._ov_rec = rec_a, rec_b
                    a.logger = b.logger = logging.getLogger("ov-silent")

                    async def later():
                        await _asyncio.sleep(0.01)
                        await b.route_message('[2,"1","%s",%s]' % (b_action, reset if b_action == "Reset" else "{}"))
                    await _asyncio.gather(a.route_message('[2,"1","Reset",%s]' % reset), later())
                import asyncio as _asyncio
                _asyncio.run(go_two())
                rep.count("same-id-two-endpoints:%s:%s" % (version, b_action))
                wa, wb = O.sends(rec_a.seq), O.sends(rec_b.seq)
                if not (len(wb) == 1 and wb[0][0] == 4) or not (len(wa) == 1 and wa[0][0] == 3):
                    rep.violation("C16:same-id-two-endpoints:%s:%s" % (version, b_action),
                                  "while a skipping endpoint was handling CALL \"1\", a validating endpoint of another class answered its own "
                                  "CALL \"1\" (%s, invalid handler result) with %r (expected a CALLERROR); the skipping endpoint wrote %r" % (
                                      b_action, [x[:3] for x in wb], [x[:3] for x in wa]),
                                  {"kind": "same-id-two-endpoints", "version": version, "validating_action": b_action,
                                   "validating_endpoint_wrote": wb, "skipping_endpoint_wrote": wa})
        # a request the endpoint issues ITSELF while it handles the CALL of a route that skips validation (from the
        # coroutine handler, or from the asynchronous after-hook): that request did not ask for skipping and is validated
        for version in ("1.6", "2.0.1"):
            for where in ("on", "after"):
                for route_skips in (True, False):
                    r = {"action": "Heartbeat", "skip": route_skips,
                         "on": {"name": "on_heartbeat", "sig": GD.KW, "async": True, "out": ("ret", {"current_time": "t"})},
                         "after": {"name": "after_heartbeat", "sig": GD.KW, "async": True, "out": ("ret",)}}
                    r[where]["calls"] = "invalid"
                    frames = ['[2,"h1","Heartbeat",{}]']
                    seq, how = D.observe_loop(version, [r], frames, "closed", False, response_timeout=0.05, linger=0.25)
                    rep.count("own-call-from-%s:%s:%s" % (where, version, route_skips))
                    own = [e[1] for e in seq if e[0] == "send" and _json.loads(e[1])[0] == 2]
                    done = [e[2] for e in seq if e[0] == "hook-call-done"]
                    import ocpp.exceptions as _ex
                    rejected = len(done) == 1 and isinstance(getattr(_ex, done[0], None), type) and issubclass(getattr(_ex, done[0]), _ex.OCPPError)
                    if own or not rejected:
                        rep.violation("C16:own-call-in-%s:%s:%s" % (where, version, "skipping-route" if route_skips else "validating-route"),
                                      "while handling a CALL of a route declared with skip_schema_validation=%r, the %s issued call(Reset(type='NotAType')) "
                                      "without asking for skipping: written %r, call() ended with %r (expected: nothing written, a validation error)" % (
                                          route_skips, "handler" if where == "on" else "after-hook", own[:1], done),
                                      {"kind": "own-call", "version": version, "where": where, "route_skips": route_skips, "routes": [r], "frames": frames,
                                       "observation": [list(map(str, e))[:3] for e in seq], "ended": how})
        for c in (cases[25], cases[len(cases) // 2], cases[-1]):
            rep.sample({"stratum": c[0], "version": c[1], "frame": str(c[3])[:200]})
    return body


EXTRA = None
KINDS = ("skip","payload-skip","bad-req","bad-res","ok","malformed-5th")


def run(rep, tier, seed):
    return C.standard_run(rep, PROP, ["Model/CaseDispatch.vo", "Model/CaseHistory.vo"], [body_factory(tier, seed + 1000 * i) for i in range(3 if tier == "thorough" else 1)], rule=RULE)


def replay(d):
    if d.get("kind") == "repeat":
        return GD.replay_repeat(d)
    if d.get("kind") == "own-call":
        import json as _json
        from harness import impl_dispatch as D
        import ocpp.exceptions as _ex
        routes = d["routes"]
        for r in routes:
            for k in ("on", "after"):
                r[k]["out"] = tuple(r[k]["out"])
        seq, how = D.observe_loop(d["version"], routes, d["frames"], "closed", False, response_timeout=0.05, linger=0.25)
        own = [e[1] for e in seq if e[0] == "send" and _json.loads(e[1])[0] == 2]
        done = [e[2] for e in seq if e[0] == "hook-call-done"]
        ok = not own and len(done) == 1 and isinstance(getattr(_ex, done[0], None), type)
        print("written:", own, "call() ended with:", done)
        print("HOLDS" if ok else "FAILS")
        return 0 if ok else 1
    from harness import impl_dispatch as D
    raw = d["frame"] if isinstance(d["frame"], str) else bytes.fromhex(d["frame"]["hex"])
    routes = d["routes"]
    for r in routes:
        for k in ("on", "after"):
            if r.get(k):
                r[k]["out"] = tuple(r[k]["out"])
    obs = D.observe_frame(d["version"], routes, raw, async_validation=d.get("async_validation", False), send_ok=(d.get("info") or {}).get("send_ok", True), prelude=(d.get("info") or {}).get("prelude"), send_style=(d.get("info") or {}).get("send_style"))
    print("observation:", obs)
    bad = ORACLE(d.get("stratum", "replay"), d["version"], routes, raw, obs, d.get("info"))
    print("FAILS: %s" % bad if bad else "HOLDS (for the recorded stratum %r)" % d.get("stratum"))
    return 1 if bad else 0


RULE = ("one case = (version, registered routes with scripted handler/hook outcomes, one inbound frame); the dispatch "
        "streams of C01 (valid and single-constraint-violating CALLs x handler outcomes x hooks x shapes x skip flags, "
        "unhandled actions, malformed frames); compared in the observables of this property; distinct by (version, routes, frame)")
