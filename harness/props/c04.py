"""C04 -- nothing schema-invalid is sent unless validation was explicitly skipped."""
import json
import os

from harness import common as C
from harness import gen_dispatch as GD
from harness import gen_history as GH
from harness import oracles as O
from harness import verdict as V

PROP = "C04"


def outbound_oracle(version, routes, ops, timeout, res):
    """A CALL frame on the wire implies: its request was built schema-valid, or the call skipped."""
    from ocpp.charge_point import remove_nones, snake_to_camel_case
    bad = []
    ids = O._caller_ids(ops)
    written = [json.loads(m) for (t, m) in res["writes"]]
    for o in ops:
        if o[0] != "start" or o[5]:
            continue            # calls that skip validation are exempt
        _, k, uid, action, snake, skip, suppress, send_ok = o
        wire = remove_nones(snake_to_camel_case(snake))
        ind = V.independent_verdict(version, "Call", action, wire)
        oc = res["outcomes"].get(k) or res["outcomes"].get(str(k))
        if ind is True and send_ok and oc and oc[0] in ("ocpp", "exc") and list(ids.values()).count(ids[k]) == 1 and \
                not any(isinstance(fr, list) and len(fr) == 4 and fr[0] == 2 and O.jkey(fr[1]) == O.jkey(ids[k]) for fr in written):
            bad.append(("valid-call-refused:%s:%s" % (version, action),
                        "a %s request that satisfies its schema was not written: call() ended with %r" % (action, oc[:2])))
        if ind is False:
            hit = [fr for fr in written if isinstance(fr, list) and len(fr) == 4 and fr[0] == 2 and O.jkey(fr[1]) == O.jkey(ids[k])
                   and fr[2] == action and O.same_value(fr[3], wire)]
            if hit:
                bad.append(("invalid-call-written:%s:%s" % (version, action),
                            "a %s request that violates its schema was written although the call did not skip validation: %r" % (
                                action, hit[0])))
    return bad


def body_factory(tier, seed):
    def body(rep, support_ok):
        rows = V.generate(tier, seed)
        if not support_ok:
            for row in rows:
                version, mtype, action, kind, inst, tags = row
                v = V.impl_verdict(version, mtype, action, inst)
                rep.count(json.dumps([version, mtype, action, inst], sort_keys=True, default=repr))
                if tags is not None and (v[0] == "crash" or bool(tags) != (v[0] == "reject")):
                    rep.violation("C04:verdict:%s:%s:%s:%s" % (version, mtype, action, json.dumps(tags)),
                                  "%s %s %s: payload built %s was judged %r" % (version, mtype, action, tags or "valid", v[:2]),
                                  {"kind": "verdict", "version": version, "mtype": mtype, "action": action, "payload": inst,
                                   "built_to_violate": tags})
            return
        V.run_correspondence(rep, rows, "C04", PROP)
        cold_orders(rep)
        V.cold_cross_versions(rep, PROP)
        # through the real endpoints: invalid handler results become CALLERRORs, invalid requests are not written
        g = GD.Gen(tier, seed)
        dcases = [c for c in g.stratum_handled("all" if tier == "thorough" else 10) if c[0] in ("ok", "bad-res", "skip")]
        # every kind of violation in a handler result, half of them next to a twin class that opts out of validation
        dcases += [c for c in g.stratum_kinds() if c[0] in ("bad-res", "malformed-5th")]
        GD.run_cases(rep, dcases, "C04d", PROP, O.c16, view="VC05", kinds=("ok", "bad-res", "malformed-5th"))
        hg = GH.HGen(tier, seed)
        hs = hg.all()[: (32 if tier == "quick" else 200)]
        GH.run_histories(rep, hs, "C04h", PROP, outbound_oracle, "VH04")
        if tier == "thorough":
            import ocpp.messages as M
            GH.run_histories(rep, hs[::2], "C04ha", PROP, outbound_oracle, "VH04", async_validation=True)
        rep.sample({"version": rows[7][0], "mtype": rows[7][1], "action": rows[7][2], "kind": rows[7][3],
                    "payload": json.loads(json.dumps(rows[7][4], default=repr))})
        rep.sample({"version": rows[-1][0], "mtype": rows[-1][1], "action": rows[-1][2], "kind": rows[-1][3]})
    return body


COLD = r"""
import json, sys
sys.path.insert(0, sys.argv[1])
from ocpp.messages import Call, CallResult, _validate_payload
from ocpp.exceptions import OCPPError
def v(mtype, action, payload):
    msg = Call("i", action, payload) if mtype == "Call" else CallResult("i", payload, action)
    try:
        _validate_payload(msg, "1.6")
        return "accept"
    except OCPPError as e:
        return "reject:" + type(e).__name__
    except Exception as e:
        return "crash:" + type(e).__name__
print(json.dumps([v(*x) for x in json.loads(sys.argv[2])]))
"""


def cold_orders(rep, prop="C04"):
    """'every payload that satisfies the schema is written' must not depend on what the process validated before:
    for the three decimal-validated 1.6 messages, in a FRESH interpreter each, an integer-only payload, a payload
    with a one-decimal float, one with two decimals -- in both orders of the first two"""
    import subprocess
    from harness.props import c14
    seen = set()
    for (mtype, action, path) in c14.POSITIONS:
        if (mtype, action) in seen:
            continue
        seen.add((mtype, action))
        base = c14.base_payload(mtype, action)
        # every multipleOf position of the message gets the value
        def with_value(x):
            p = base
            for (mt, a, pth) in c14.POSITIONS:
                if (mt, a) == (mtype, action):
                    p = c14.set_at(p, pth, x)
            return p
        ints, tenth, hundredth = with_value(16), with_value(21.4), with_value(21.45)
        for order, seq, want in (("int-first", [ints, tenth, hundredth, ints], ["accept", "accept", "reject:FormatViolationError", "accept"]),
                                 ("float-first", [tenth, ints, hundredth, tenth], ["accept", "accept", "reject:FormatViolationError", "accept"])):
            arg = json.dumps([[mtype, action, p] for p in seq])
            pr = subprocess.run([C.PY, "-c", COLD, C.REPO, arg], capture_output=True, text=True, timeout=120,
                                env=dict(os.environ, PYTHONHASHSEED="0", PYTHONPATH=C.REPO))
            rep.count("cold:%s:%s:%s" % (mtype, action, order))
            try:
                got = json.loads(pr.stdout.strip().splitlines()[-1])
            except (ValueError, IndexError):
                got = ["no output: " + pr.stderr[-200:]]
            if got != want:
                rep.violation("%s:cold-order:%s:%s:%s" % (prop, mtype, action, order),
                              "fresh interpreter, 1.6 %s %s, payloads validated in the order %s: verdicts %r, expected %r" % (
                                  mtype, action, order, got, want),
                              {"kind": "cold-order", "mtype": mtype, "action": action, "order": order, "payloads": seq,
                               "verdicts": got, "expected": want})


def run(rep, tier, seed):
    return C.standard_run(rep, PROP, ["Model/CaseVerdict.vo", "Model/CaseDispatch.vo", "Model/CaseHistory.vo"],
                          [body_factory(tier, seed + 1000 * i) for i in range(3 if tier == "thorough" else 1)], rule=(
        "for every one of the 206 (version, direction, action) schemas: valid instances (all / only required / each optional "
        "alone / falsy / boundary lengths and counts / alternative values), one instance per constraint occurrence violating "
        "exactly it (plus null-for-value and 2-3-fold combinations), and the same payloads under the other version's schema; "
        "verdict of _validate_payload vs the Gallina evaluator on the translated schema vs the verdict by construction; "
        "then invalid results through route_message and invalid requests through call(); distinct by (schema, payload)"))


def replay_cold(d):
    if d.get("kind") == "cold-order":
        import subprocess
        arg = json.dumps([[d["mtype"], d["action"], p] for p in d["payloads"]])
        pr = subprocess.run([C.PY, "-c", COLD, C.REPO, arg], capture_output=True, text=True, timeout=120,
                            env=dict(os.environ, PYTHONHASHSEED="0", PYTHONPATH=C.REPO))
        got = json.loads(pr.stdout.strip().splitlines()[-1]) if pr.stdout.strip() else [pr.stderr[-200:]]
        print("verdicts in a fresh interpreter:", got, "expected:", d["expected"])
        print("HOLDS" if got == d["expected"] else "FAILS")
        return 0 if got == d["expected"] else 1
    return None


def replay(d):
    if d.get("kind") == "cold-order":
        return replay_cold(d)
    if d.get("kind") in ("verdict", "correspondence") and "payload" in d:
        v = V.impl_verdict(d["version"], d["mtype"], d["action"], d["payload"])
        tags = d.get("built_to_violate")
        print("_validate_payload ->", v[:2], "; built to violate:", tags)
        ok = v[0] != "crash" and (tags is None or bool(tags) == (v[0] == "reject"))
        print("HOLDS" if ok else "FAILS")
        return 0 if ok else 1
    print("re-run: python3 check.py C04 quick")
    return 0
