"""C17 -- see properties.jsonl; theorems in coq/Props/C17.v, tie: the dispatch correspondence in the
observables of this property, plus the property's direct oracle on every observed frame."""
from harness import common as C
from harness import gen_dispatch as GD
from harness import oracles as O
from harness.props import c01 as base

PROP = "C17"
VIEW = "VC17"
ORACLE = O.c17


def body_factory(tier, seed):
    def body(rep, support_ok):
        g = GD.Gen(tier, seed)
        cases = base.corpus() + g.all_cases()
        extra = EXTRA(g, tier) if EXTRA else []
        cases = cases + extra
        modes = (False, True) if tier == "thorough" else (False,)
        if not support_ok:
            from harness import impl_dispatch as D
            for (kind, version, routes, raw, info) in map(GD.norm, cases):
                if not any(kind.startswith(k) for k in KINDS):
                    continue
                obs = D.observe_frame(version, routes, raw, send_ok=info.get('send_ok', True))
                rep.count(repr((version, routes, raw)))
                for key, what in ORACLE(kind, version, routes, raw, obs, info):
                    rep.violation(PROP + ":" + key, what, {"kind": "dispatch", "version": version, "routes": routes,
                                                           "frame": raw if isinstance(raw, str) else {"hex": bytes(raw).hex()},
                                                           "observation": obs, "info": info})
            return
        GD.run_cases(rep, cases, PROP, PROP, ORACLE, async_modes=modes, view=VIEW, kinds=KINDS)
        # the same unhandled CALL again and again on one endpoint (a peer that retries with the same id): the same answer each time
        GD.run_repeats(rep, cases, PROP, ("unhandled", "id-unhandled", "after-only"), limit=80)
        for c in (cases[25], cases[len(cases) // 2], cases[-1]):
            rep.sample({"stratum": c[0], "version": c[1], "frame": str(c[3])[:200]})
    return body


EXTRA = None
KINDS = ("unhandled","id-unhandled","corpus-D2","after-only")


def run(rep, tier, seed):
    return C.standard_run(rep, PROP, ["Model/CaseDispatch.vo"], [body_factory(tier, seed + 1000 * i) for i in range(3 if tier == "thorough" else 1)], rule=RULE)


def replay(d):
    if d.get("kind") == "repeat":
        return GD.replay_repeat(d)
    from harness import impl_dispatch as D
    raw = d["frame"] if isinstance(d["frame"], str) else bytes.fromhex(d["frame"]["hex"])
    routes = d["routes"]
    for r in routes:
        for k in ("on", "after"):
            if r.get(k):
                r[k]["out"] = tuple(r[k]["out"])
    obs = D.observe_frame(d["version"], routes, raw, async_validation=d.get("async_validation", False), send_ok=(d.get("info") or {}).get("send_ok", True), prelude=(d.get("info") or {}).get("prelude"), send_style=(d.get("info") or {}).get("send_style"))
    print("observation:", obs)
    bad = ORACLE(d.get("stratum", "replay"), d["version"], routes, raw, obs, d.get("info"))
    print("FAILS: %s" % bad if bad else "HOLDS (for the recorded stratum %r)" % d.get("stratum"))
    return 1 if bad else 0


RULE = ("one case = (version, registered routes with scripted handler/hook outcomes, one inbound frame); the dispatch "
        "streams of C01 (valid and single-constraint-violating CALLs x handler outcomes x hooks x shapes x skip flags, "
        "unhandled actions, malformed frames); compared in the observables of this property; distinct by (version, routes, frame)")
