"""C18 -- the receive loop: in order, one frame at a time, ends only with the connection."""
import json
import random

from harness import common as C
from harness import gen_dispatch as GD
from harness import impl_dispatch as D
from harness import oracles as O
from harness.props import c01 as base

PROP = "C18"
EXC_KINDS = ["closed", "oserror", "cancelled", "eof", "timeout", "builtin-timeout", "runtime", "lookup", "value"]


def oracle(frames, seq, how, exc_kind):
    bad = []
    # an asynchronous after-hook must not hold up the loop: the next frame is taken before a slow hook ends
    order = [e[0] for e in seq if e[0] in ("recv", "after-done")]
    if "after-done" in order and "recv" in order[order.index("after-done"):]:
        bad.append(("hook-blocks-loop", "the loop waited for a slow asynchronous after-hook before taking the next frame"))
    recvs = [e[1] for e in seq if e[0] == "recv"]
    if recvs != list(range(len(frames) + 1)):
        bad.append(("recv-order", "recv was called %r times/order for %d frames" % (recvs, len(frames))))
    if how is None or how[0] != "same":
        bad.append(("end:%s" % (how,), "start() ended with %r instead of propagating the exception raised by recv (%s)" % (how, exc_kind)))
    # one at a time: between recv i and recv i+1 lie exactly the handler run and the reply of frame i
    cur, per = -1, {}
    for e in seq:
        if e[0] == "recv":
            cur = e[1]
        elif e[0] in ("send", "handler"):
            per.setdefault(cur, []).append(e)
    for i, raw in enumerate(frames):
        call = O.parse_call(raw)
        w = [e for e in per.get(i, []) if e[0] == "send"]
        if call is not None:
            ok = len(w) == 1 and O.jkey(json.loads(w[0][1])[1]) == O.jkey(call[0])
            if not ok and not (isinstance(call[0], float) and call[0] != call[0]):
                bad.append(("interleaved:%d" % i, "the reply to frame %d (id %r) was not written before the next frame was taken: %r" % (
                    i, call[0], [x[1][:60] for x in w])))
        elif w:
            bad.append(("spurious:%d" % i, "frame %d is not a CALL but something was written: %r" % (i, w[0][1][:80])))
    return bad


def gen_cases(tier, seed):
    rng = random.Random(seed * 31 + 7)
    g = GD.Gen(tier, seed)
    pool = [c for c in base.corpus() + g.all_cases() if c[0] not in ("send-fails",) and isinstance(c[3], (str, bytes, bytearray))]
    hb_frames = ['[2,"a%d","Heartbeat",{}]' % i for i in range(6)]
    cases = []
    n = 40 if tier == "quick" else 400
    for i in range(n):
        version = rng.choice(["1.6", "2.0.1"])
        slow = rng.random() < 0.6
        hb = g.route("Heartbeat", ("ret", {"current_time": "t"}), is_async=rng.choice([True, "future", "awaitable"]) if slow else False,
                     after=("ret",) if rng.random() < 0.5 else None,
                     after_async=rng.random() < 0.5)
        if slow:
            hb["on"]["sleep"] = 0.003
        k = rng.choice([0, 1, 2, 3, 5, 8])
        frames = []
        for _ in range(k):
            r = rng.random()
            if r < 0.5:
                frames.append(rng.choice(hb_frames))
            else:
                c = rng.choice(pool)
                frames.append(c[3] if len(str(c[3])) < 20000 else '[2,"x","Nope",{}]')
        cases.append((version, [hb], frames, EXC_KINDS[i % len(EXC_KINDS)], rng.random() < 0.3))
    # fixed sequences: the same id again and again, null / falsy ids, more unsolicited replies than any
    # small buffer holds, empty frames, a handler slower than the response timeout, a slow async after-hook
    hbp = g.route("Heartbeat", ("ret", {"current_time": "t"}))
    fixed = [
        ['[2,"same","Heartbeat",{}]'] * 4,
        ['[2,null,"Heartbeat",{}]', '[2,null,"Heartbeat",{}]', '[2,0,"Heartbeat",{}]', '[2,false,"Heartbeat",{}]', '[2,"","Heartbeat",{}]', '[2,"","Heartbeat",{}]'],
        ['[2,"a","Heartbeat",{}]', '[2,"b","Nope",{}]', '[2,"a","Heartbeat",{}]', '[3,"a",{}]', '[2,"a","Heartbeat",{}]'],
        ['[3,"r%d",{}]' % i for i in range(14)] + ['[4,"e%d","GenericError","",{}]' % i for i in range(14)] + ['[2,"after-replies","Heartbeat",{}]'],
        ['[3,"r%d",{}]' % i for i in range(600)] + ['[4,"e%d","GenericError","",{}]' % i for i in range(600)] + ['[2,"after-flood","Heartbeat",{}]'],
        ['', '[2,"x","Heartbeat",{}]', b'', '[2,"y","Heartbeat",{}]', ' ', '[2,"z","Heartbeat",{}]'],
    ]
    for fr in fixed:
        cases.append(("1.6", [hbp], fr, "closed", False))
        cases.append(("2.0.1", [hbp], fr, "oserror", True))
    slow = g.route("Heartbeat", ("ret", {"current_time": "t"}), is_async=True)
    slow["on"]["sleep"] = 0.05
    cases.append(("1.6", [slow], ['[2,"s1","Heartbeat",{}]', '[2,"s2","Heartbeat",{}]'], "closed", False, 0.01))
    hook = g.route("Heartbeat", ("ret", {"current_time": "t"}), after=("ret",), after_async=True)
    hook.pop("after_first", None)
    hook["after"]["sleep"] = 0.05
    cases.append(("1.6", [hook], ['[2,"k1","Heartbeat",{}]', '[2,"k2","Heartbeat",{}]'], "closed", False))
    # every hostile frame once, between two ordinary CALLs: the loop must survive it and go on
    hostile = [c[3] for c in base.corpus() + g.stratum_frames() if isinstance(c[3], (str, bytes, bytearray))]
    seen = set()
    for f in hostile:
        key = bytes(f) if not isinstance(f, str) else f
        if key in seen or len(f) > 300000:
            continue
        seen.add(key)
        decimal_msg = isinstance(f, str) and any(a in f for a in ("SetChargingProfile", "RemoteStartTransaction", "GetCompositeSchedule"))
        hb = g.route("Heartbeat", ("ret", {"current_time": "t"}))
        rts = [hb]
        if decimal_msg:
            # with a handler for the decimal-validated action, so that the frame gets as far as validation
            for a in ("SetChargingProfile", "RemoteStartTransaction"):
                if a in f:
                    rts = [hb, g.route(a, ("ret", {"status": "Accepted"}))]
        cases.append(("1.6", rts, ['[2,"h0","Heartbeat",{}]', f, '[2,"h1","Heartbeat",{}]'], "closed", False))
    # a route that skips validation gets whatever the peer sends as payload: arrays, strings, numbers, null -- the handler's
    # failure to take it is a CALLERROR, never the end of the loop
    dts = g.route("DataTransfer", ("ret", {"status": "Accepted"}), skip=True, after=("ret",))
    for p_txt in ('["x","y"]', '"p"', "5", "null", "true", "[]", '[{"a":1}]', "1e999"):
        cases.append(("1.6", [dts, g.route("Heartbeat", ("ret", {"current_time": "t"}))],
                      ['[2,"h0","Heartbeat",{}]', '[2,"np","DataTransfer",%s]' % p_txt, '[2,"h1","Heartbeat",{}]'], "closed", False))
        cases.append(("2.0.1", [dts], ['[2,"np","DataTransfer",%s]' % p_txt, '[2,"ok","DataTransfer",{"vendorId":"v"}]'], "oserror", False))
    # payloads nested deeper than the recursive key conversion can follow but within what json.loads accepts: a
    # schema-valid CALL (free-form customData), a CALL on a validation-skipping route, and a CALL that validation
    # rejects (its CALLERROR quotes the payload); none of them may end the loop.  Not given to the model (the
    # recursion limit of the Python-level helpers is not modelled).
    from harness import textcases as T
    limit = T.measured_limit() or 1497

    def nest(d):
        return '{"a":' * d + "1" + "}" * d
    hb201 = g.route("Heartbeat", ("ret", {"current_time": "t"}))
    dt_skip = g.route("DataTransfer", ("ret", {"status": "Accepted"}), skip=True)
    dt = g.route("DataTransfer", ("ret", {"status": "Accepted"}))
    for d in (100, 700, 990, 1200, limit - 12):
        cases.append(("2.0.1", [hb201], ['[2,"p0","Heartbeat",{}]', '[2,"deep","Heartbeat",{"customData":{"vendorId":"v","x":%s}}]' % nest(d),
                                          '[2,"p1","Heartbeat",{}]'], "closed", False, 30, "valid-%d" % d))
        cases.append(("1.6", [dt_skip], ['[2,"deep","DataTransfer",{"vendorId":"v","data":%s}]' % nest(d), '[2,"p1","DataTransfer",{"vendorId":"v"}]'],
                      "closed", False, 30, "skip-%d" % d))
    for d in (990, 1200, limit - 7):
        cases.append(("1.6", [dt], ['[2,"deep","DataTransfer",{"vendorId":"v","data":%s}]' % nest(d), '[2,"p1","DataTransfer",{"vendorId":"v"}]'],
                      "closed", False, 30, "rejected-%s" % ("near-limit" if d == limit - 7 else d)))
    return cases


def body_factory(tier, seed):
    def body(rep, support_ok):
        cases = gen_cases(tier, seed)
        terms, meta = [], []
        for case in cases:
            version, routes, frames, exc_kind, gate_held = case[:5]
            rt = case[5] if len(case) > 5 else 30
            deep = case[6] if len(case) > 6 else None
            seq, how = D.observe_loop(version, routes, frames, exc_kind, gate_held, response_timeout=rt)
            rep.count(json.dumps([version, repr(frames), exc_kind, gate_held], default=repr))
            rep.add("frames", len(frames))
            rep.add("end:" + exc_kind)
            replay = {"kind": "loop", "version": version, "routes": routes, "frames": [f if isinstance(f, str) else {"hex": bytes(f).hex()} for f in frames],
                      "recv_exception": exc_kind, "gate_held": gate_held, "response_timeout": rt, "observation": seq, "ended": how}
            if deep:
                replay["frames"] = None
                replay["deep"] = deep
            for key, what in oracle(frames, seq, how, exc_kind):
                rep.violation(("C18:deep:%s:%s" % (deep, key.split(":")[0])) if deep else ("C18:" + key), what, replay)
            if deep:
                continue
            los = [D.loads_outcome(f)[1] for f in frames]
            if any(x is None for x in los):
                continue
            obs = []
            ok = True
            for e in seq:
                if e[0] == "recv":
                    obs.append("LORecv %d" % e[1])
                elif e[0] == "send":
                    try:
                        obs.append("LOSend %s" % C.cjson(json.loads(e[1])[1]))
                    except (ValueError, IndexError, TypeError):
                        ok = False
            obs.append("LOEndSame" if how and how[0] == "same" else "LOEndOther")
            if ok:
                terms.append("mkL %s %s %s" % (D.ccfg(version, routes), C.clist(los), C.clist(["(%s)" % o for o in obs])))
                meta.append(replay)
        if support_ok:
            shard = 10
            shards = [D.HEADER + "Definition cases : list lcase := %s.\nEval vm_compute in ldisagreements cases.\n" % C.clist(
                ["\n" + t for t in terms[i:i + shard]]) for i in range(0, len(terms), shard)]
            outs = C.coq_eval_shards("C18", shards)
            broken = []
            for si, (idx, out) in enumerate(outs):
                if idx is None:
                    rep.violation("C18:correspondence:loop:shard-failed", "the loop correspondence could not be evaluated in Coq",
                                  {"kind": "correspondence", "correspondence": "loop", "coq_output": out[-3000:],
                                   "theorem": "loop correspondence (Model/Dispatch.v start vs ChargePoint.start)"}, found_input=False)
                    continue
                broken += [si * shard + i for i in idx]
            if broken and not any(v[2] for v in rep.violations):
                rep.violation("C18:corr:loop", "model and implementation disagree on %d receive-loop run(s)" % len(broken),
                              {"kind": "correspondence", "correspondence": "loop", "cases": [meta[i] for i in broken[:3]],
                               "theorem": "loop correspondence (Model/Dispatch.v start vs ChargePoint.start)"}, found_input=False)
        cold_loops(rep, GD.Gen(tier, seed))
        rep.sample({"frames": [str(f)[:80] for f in cases[3][2]], "recv_exception": cases[3][3], "gate_held": cases[3][4]})
    return body


PROFILE = ('{"chargingProfileId":1,"stackLevel":0,"chargingProfilePurpose":"TxProfile","chargingProfileKind":"Relative",'
           '"chargingSchedule":{"chargingRateUnit":"A","chargingSchedulePeriod":[{"startPeriod":0,"limit":%s}]}}')


def cold_frames(order):
    scp = '[2,"scp-%s","SetChargingProfile",{"connectorId":1,"csChargingProfiles":' + PROFILE + '}]'
    rst = '[2,"rst-%s","RemoteStartTransaction",{"idTag":"t","chargingProfile":' + PROFILE + '}]'
    ints = [scp % ("int", "16"), '[2,"rst-none","RemoteStartTransaction",{"idTag":"t"}]', rst % ("int", "32")]
    fracs = [scp % ("frac", "21.4"), rst % ("frac", "10.5"), scp % ("frac2", "0.1")]
    hb = ['[2,"hb","Heartbeat",{}]']
    return {"int-first": ints + fracs + ints[:1] + hb, "float-first": fracs + ints + fracs[:1] + hb,
            "alternating": [x for pair in zip(ints, fracs) for x in pair] + hb}[order]


def cold_loops(rep, g):
    """The loop in a FRESH interpreter (nothing validated before), fed valid 1.6 CALLs of the decimal-validated actions
    with whole-number and with fractional limits in either order: every one is answered with a CALLRESULT and the loop
    ends only with the connection.  (In-process strata see these actions only after their validators are built.)"""
    for order in ("int-first", "float-first", "alternating"):
        frames = cold_frames(order)
        routes = [g.route("Heartbeat", ("ret", {"current_time": "t"})), g.route("SetChargingProfile", ("ret", {"status": "Accepted"})),
                  g.route("RemoteStartTransaction", ("ret", {"status": "Accepted"}))]
        res = D.cold([("observe_loop", ("1.6", routes, frames, "closed", False), {})])[0]
        rep.count("cold-loop:" + order)
        replay = {"kind": "cold-loop", "order": order, "frames": frames}
        if res[0] != "ok":
            rep.violation("C18:cold-loop:%s:harness" % order, "the fresh-interpreter run failed: %r" % (res[1:],), replay, found_input=False)
            continue
        seq, how = res[1]
        bad = oracle(frames, seq, how, "closed")
        types = [json.loads(e[1])[0] for e in seq if e[0] == "send"]
        if not bad and types != [3] * len(frames):
            bad.append(("answers", "valid CALLs were answered with message types %r" % (types,)))
        for key, what in bad:
            rep.violation("C18:cold-loop:%s:%s" % (order, key.split(":")[0]),
                          "fresh interpreter, valid 1.6 CALLs in the order %s: %s" % (order, what), dict(replay, observation=seq, ended=how))


def run(rep, tier, seed):
    return C.standard_run(rep, PROP, ["Model/CaseDispatch.vo"], [body_factory(tier, seed + 1000 * i) for i in range(3 if tier == "thorough" else 1)], rule=(
        "one case = a finite frame sequence (valid CALLs with slow asynchronous handlers, replies, malformed and hostile "
        "frames from the C01 streams) fed by a scripted connection whose recv then raises (ConnectionClosed-like, OSError, "
        "CancelledError, EOFError), optionally while the send gate is held; real start(); distinct by (frames, exception, gate)"))


def replay(d):
    if d.get("kind") == "cold-loop":
        class R:
            violations = []

            def count(self, *_a):
                pass

            def violation(self, key, what, *_a, **_k):
                self.violations.append(key)
                print(what)
        r = R()
        cold_loops(r, GD.Gen("quick", 0))
        hit = [k for k in r.violations if (":%s:" % d["order"]) in k]
        print("FAILS" if hit else "HOLDS")
        return 1 if hit else 0
    if d.get("deep"):
        hit = [c for c in gen_cases("quick", 0) if len(c) > 6 and c[6] == d["deep"]]
        if not hit:
            print("no such deep case")
            return 0
        version, routes, frames, exc_kind, gate_held = hit[0][:5]
        seq, how = D.observe_loop(version, routes, frames, exc_kind, gate_held, response_timeout=30)
        bad = oracle(frames, seq, how, exc_kind)
        print("deep case %s: ended %r; %s" % (d["deep"], how, "FAILS: %s" % bad if bad else "HOLDS"))
        return 1 if bad else 0
    frames = [f if isinstance(f, str) else bytes.fromhex(f["hex"]) for f in d["frames"]]
    routes = d["routes"]
    for r in routes:
        for k in ("on", "after"):
            if r.get(k):
                r[k]["out"] = tuple(r[k]["out"])
    seq, how = D.observe_loop(d["version"], routes, frames, d["recv_exception"], d["gate_held"], response_timeout=d.get("response_timeout", 30))
    print("observation:", seq, how)
    bad = oracle(frames, seq, how, d["recv_exception"])
    print("FAILS: %s" % bad if bad else "HOLDS")
    return 1 if bad else 0
