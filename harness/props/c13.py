"""C13 -- validation verdicts independent of history, cache, version mix and threads."""
import asyncio
import copy
import json
import random
import threading

from harness import common as C
from harness import gen_instances as G
from harness import verdict as V

PROP = "C13"


def short(v):
    return (v[0], v[1]) if v[0] != "accept" else ("accept", None)


def clean_verdict(row):
    """the verdict of the request validated alone: fresh validator cache"""
    import ocpp.messages as M
    M._validators.clear()
    return short(V.impl_verdict(row[0], row[1], row[2], row[4]))


def hostile_rows():
    """requests whose verdict could depend on process state: decimal-mode messages with huge numbers,
    the other version's action names, action names that are file names of other messages"""
    s16 = G.load_schemas("v16")
    rng = random.Random(1)
    rows = []
    for (mt, action, name) in (("Call", "SetChargingProfile", "SetChargingProfile"), ("Call", "RemoteStartTransaction", "RemoteStartTransaction"),
                               ("CallResult", "GetCompositeSchedule", "GetCompositeScheduleResponse")):
        base = G.valid_value(s16[name], s16[name], "plain", rng, "all")
        for x in (21.4, 4.11, 10 ** 26, 10 ** 27, 10 ** 30, 1e30, 1e58, 123456789012345678901234567890.5, 7):
            p = copy.deepcopy(base)
            sched = p["csChargingProfiles"]["chargingSchedule"] if "csChargingProfiles" in p else (
                p["chargingProfile"]["chargingSchedule"] if "chargingProfile" in p else p["chargingSchedule"])
            sched["chargingSchedulePeriod"][0]["limit"] = x
            rows.append(("1.6", mt, action, "decimal-hostile", p, None))
    for (ver, mt, action) in (("1.6", "CallResult", "NotifyReport"), ("2.0.1", "CallResult", "StartTransaction"),
                              ("1.6", "Call", "HeartbeatRequest"), ("1.6", "Call", "NotifyReport"), ("2.0.1", "Call", "StartTransaction"),
                              ("1.6", "Call", "BootNotificationResponse"), ("2.0.1", "Call", "Nope"), ("1.6", "CallResult", "Nope")):
        rows.append((ver, mt, action, "foreign-action", {}, None))
    # the version string "2.0" (accepted by the library's interface, no schemas shipped for it): its validations end in
    # NotImplemented and leave nothing behind that a 2.0.1 or 1.6 validation could trip over
    for (mt, action, payload) in (("Call", "Heartbeat", {}), ("CallResult", "Heartbeat", {"currentTime": "t"}), ("Call", "BootNotification", {}),
                                  ("Call", "Authorize", {"idToken": {"idToken": "x", "type": "Central"}})):
        rows.append(("2.0", mt, action, "foreign-action", payload, None))
    # decimal-mode messages carrying junk nested 60 / 130 / 400 levels deep (refused, or accepted where free-form): whatever
    # bookkeeping the walk over them does is unwound when they are refused
    for (mt, action, name) in (("Call", "SetChargingProfile", "SetChargingProfile"), ("Call", "RemoteStartTransaction", "RemoteStartTransaction"),
                               ("CallResult", "GetCompositeSchedule", "GetCompositeScheduleResponse")):
        base = G.valid_value(s16[name], s16[name], "plain", rng, "all")
        for depth in (60, 130, 400):
            p = copy.deepcopy(base)
            deep = cur = {}
            for _ in range(depth):
                cur["a"] = {}
                cur = cur["a"]
            p["junk"] = deep
            rows.append(("1.6", mt, action, "decimal-hostile", p, None))
            p2 = copy.deepcopy(base)
            lst = cur2 = []
            for _ in range(depth):
                cur2.append([])
                cur2 = cur2[0]
            key = "csChargingProfiles" if "csChargingProfiles" in p2 else ("chargingProfile" if "chargingProfile" in p2 else "chargingSchedule")
            p2[key] = lst
            rows.append(("1.6", mt, action, "decimal-hostile", p2, None))
    return rows


COLD_CONCURRENT = r"""
import json, sys, threading
sys.path.insert(0, sys.argv[1])
sys.setswitchinterval(1e-6)
from ocpp.messages import Call, CallResult, _validate_payload
from ocpp.exceptions import OCPPError
rows = json.loads(sys.stdin.read())
out = [None] * len(rows)
barrier = threading.Barrier(8)


def work(k):
    barrier.wait()
    for i in range(k, len(rows), 8):
        ver, mt, action, payload = rows[i]
        msg = Call("i", action, payload) if mt == "Call" else CallResult("i", payload, action)
        try:
            _validate_payload(msg, ver)
            out[i] = ["accept", None]
        except OCPPError as e:
            out[i] = ["reject", e.code]
        except Exception as e:
            out[i] = ["crash", type(e).__name__]
ths = [threading.Thread(target=work, args=(k,)) for k in range(8)]
for t in ths:
    t.start()
for t in ths:
    t.join()
print(json.dumps(out))
"""


def cold_concurrent(rep, rows, ref, n_runs):
    import os
    import subprocess
    idx = [i for i, r in enumerate(rows) if r[3] in ("valid-all", "valid-required", "valid-alt", "viol:type", "viol:required") and ref[i][0] != "crash"]
    # one version per run: all eight threads meet the version's lazily built state at once
    per = {"1.6": [i for i in idx if rows[i][0] == "1.6"][:24], "2.0.1": [i for i in idx if rows[i][0] == "2.0.1"][:24]}
    procs = []
    for k in range(n_runs):
        ver = "1.6" if k % 2 else "2.0.1"
        sel = per[ver]
        if not sel:
            continue
        arg = json.dumps([[rows[i][0], rows[i][1], rows[i][2], rows[i][4]] for i in sel], default=repr)
        p = subprocess.Popen([C.PY, "-c", COLD_CONCURRENT, C.REPO], stdin=subprocess.PIPE, stdout=subprocess.PIPE, stderr=subprocess.PIPE,
                             text=True, env=dict(os.environ, PYTHONHASHSEED="0", PYTHONPATH=C.REPO))
        p.stdin.write(arg)
        p.stdin.close()
        procs.append((p, sel, ver))
    for (p, sel, ver) in procs:
        try:
            out_txt = p.stdout.read()
            p.wait(timeout=180)
            got = json.loads(out_txt.strip().splitlines()[-1])
        except Exception:  # noqa: BLE001
            got = [["crash", "no output: " + (p.stderr.read() or "")[-200:]]] * len(sel)
        for i, v in zip(sel, got):
            rep.count("cold:%d" % i, nontrivial=False)
            v = (v[0], v[1])
            if v != ref[i]:
                r = rows[i]
                rep.violation("C13:cold-concurrent:%s:%s:%s" % (r[0], r[1], r[2]),
                              "%s %s %s: %r when it is among the first validations of a fresh interpreter, made in eight threads at once; "
                              "%r alone" % (r[0], r[1], r[2], v, ref[i]),
                              {"kind": "cold-concurrent", "request": [r[0], r[1], r[2], r[4]], "verdict": v, "verdict_alone": ref[i],
                               "batch": [[rows[j][0], rows[j][1], rows[j][2], rows[j][4]] for j in sel]})
    rep.coverage["cold_concurrent_runs"] = len(procs)


def body_factory(tier, seed):
    def body(rep, support_ok):
        import ocpp.messages as M
        rng = random.Random(seed * 97 + 3)
        rows = V.generate("quick", seed)
        rows = [r for r in rows if r[3] in ("valid-all", "valid-required", "valid-alt", "viol:type", "viol:required", "viol:enum", "viol:multipleOf", "cross")
                or r[2] in ("SetChargingProfile", "RemoteStartTransaction", "GetCompositeSchedule")]
        rng.shuffle(rows)
        rows = rows[: (900 if tier == "quick" else 6000)] + hostile_rows()
        rng.shuffle(rows)
        # 1. the reference: every request validated alone
        ref = [clean_verdict(r) for r in rows]
        # 2. histories: the same requests in several orders, cache never cleared / cleared at random points
        n_hist = 3 if tier == "quick" else 10
        for h in range(n_hist):
            order = list(range(len(rows)))
            rng.shuffle(order)
            M._validators.clear()
            for pos, i in enumerate(order):
                if rng.random() < 0.002:
                    M._validators.clear()
                r = rows[i]
                v = short(V.impl_verdict(r[0], r[1], r[2], r[4]))
                rep.count("h:%d:%s" % (i, json.dumps([r[0], r[1], r[2], r[4]], default=repr, sort_keys=True)[:3000]))
                if v != ref[i]:
                    prev = [rows[j][:3] for j in order[max(0, pos - 6):pos]]
                    rep.violation("C13:history:%s:%s:%s" % (r[0], r[1], r[2]),
                                  "%s %s %s: verdict %r after a history, %r when validated alone" % (r[0], r[1], r[2], v, ref[i]),
                                  {"kind": "history", "request": [r[0], r[1], r[2], r[4]], "verdict_after_history": v,
                                   "verdict_alone": ref[i], "preceding_requests": prev,
                                   "history": [[rows[j][0], rows[j][1], rows[j][2], rows[j][4]] for j in order[:pos]][-40:]})
        # 2b. the same message OBJECT validated again (an application that validates before queueing and the library
        #     validating on send; a relay): validation may rewrite the payload it was given, the verdict stays
        from ocpp.exceptions import OCPPError as _OE
        from ocpp.messages import Call as _Call, CallResult as _CR, _validate_payload as _vp

        def _again(msg, version):
            try:
                _vp(msg, version)
                return ("accept", None)
            except _OE as e:
                return ("reject", e.code)
            except Exception as e:  # noqa: BLE001
                return ("crash", "%s: %s" % (type(e).__name__, str(e)[:120]))
        M._validators.clear()
        again = [i for i, r in enumerate(rows) if r[2] in ("SetChargingProfile", "RemoteStartTransaction", "GetCompositeSchedule")][:400]
        again += rng.sample(range(len(rows)), min(150, len(rows)))
        for i in again:
            r = rows[i]
            if r[3] == "foreign-action":
                continue
            msg = _Call("i", r[2], copy.deepcopy(r[4])) if r[1] == "Call" else _CR("i", copy.deepcopy(r[4]), r[2])
            v1 = _again(msg, r[0])
            v2 = _again(msg, r[0])
            v3 = _again(copy.deepcopy(msg), r[0])
            rep.count("again:%d" % i, nontrivial=False)
            if not (short(v1) == short(v2) == short(v3) == ref[i]):
                rep.violation("C13:revalidated:%s:%s:%s" % (r[0], r[1], r[2]),
                              "%s %s %s: first validation of the message object %r, the same object again %r, a deep copy of it %r, alone %r" % (
                                  r[0], r[1], r[2], short(v1), short(v2), short(v3), ref[i]),
                              {"kind": "revalidated", "request": [r[0], r[1], r[2], r[4]], "verdicts": [list(map(str, x)) for x in (v1, v2, v3)], "alone": ref[i]})
        # 3. threads: the requests split over 8 worker threads started together, cache cold
        for rounds in range(4 if tier == "quick" else 8):
            M._validators.clear()
            order = list(range(len(rows)))
            rng.shuffle(order)
            got = {}
            barrier = threading.Barrier(8)

            def work(chunk):
                barrier.wait()
                for i in chunk:
                    r = rows[i]
                    got[i] = short(V.impl_verdict(r[0], r[1], r[2], r[4]))
            ths = [threading.Thread(target=work, args=(order[k::8],)) for k in range(8)]
            import sys as _sys
            old_si = _sys.getswitchinterval()
            _sys.setswitchinterval(1e-6 if rounds % 2 else old_si)     # every other round: threads preempted constantly
            try:
                for t in ths:
                    t.start()
                for t in ths:
                    t.join()
            finally:
                _sys.setswitchinterval(old_si)
            for i, v in got.items():
                rep.count("t:%d" % i, nontrivial=False)
                if v != ref[i]:
                    r = rows[i]
                    rep.violation("C13:threads:%s:%s:%s" % (r[0], r[1], r[2]),
                                  "%s %s %s: verdict %r in a worker thread next to other validations, %r when validated alone" % (
                                      r[0], r[1], r[2], v, ref[i]),
                                  {"kind": "threads", "request": [r[0], r[1], r[2], r[4]], "verdict_threaded": v, "verdict_alone": ref[i]})
        # 4. validate_payload with ASYNC_VALIDATION on (executor threads) and off
        from ocpp.exceptions import OCPPError
        from ocpp.messages import Call, CallResult, validate_payload

        async def both(sample):
            out = []
            for i in sample:
                r = rows[i]
                res = []
                for flag in (False, True):
                    M.ASYNC_VALIDATION = flag
                    msg = Call("i", r[2], copy.deepcopy(r[4])) if r[1] == "Call" else CallResult("i", copy.deepcopy(r[4]), r[2])
                    try:
                        await validate_payload(msg, r[0])
                        res.append(("accept", None))
                    except OCPPError as e:
                        res.append(("reject", e.code))
                    except Exception as e:  # noqa: BLE001
                        res.append(("crash", "%s: %s" % (type(e).__name__, str(e)[:200])))
                out.append((i, res))
            return out
        old = M.ASYNC_VALIDATION
        try:
            sample = rng.sample(range(len(rows)), min(len(rows), 250 if tier == "quick" else 2000))
            sample += [i for i, r in enumerate(rows) if r[3] == "decimal-hostile"]
            # a request and a reply with the SAME action and the SAME payload in flight together (Heartbeat {} is a valid
            # request and an invalid reply; Reset's request is no valid Reset reply): each keeps its own verdict
            for (ver, action, payload) in (("1.6", "Heartbeat", {}), ("2.0.1", "Heartbeat", {}), ("1.6", "ClearCache", {}),
                                           ("1.6", "Reset", {"type": "Hard"}), ("2.0.1", "Reset", {"type": "Immediate"}),
                                           ("1.6", "Heartbeat", {"currentTime": "2024-01-01T00:00:00Z"})):
                for mt in ("Call", "CallResult", "Call", "CallResult"):
                    rows.append((ver, mt, action, "pair", payload, None))
                    ref.append(clean_verdict(rows[-1]))
                    sample.append(len(rows) - 1)
            M._validators.clear()
            for i, res in asyncio.run(both(sample)):
                rep.count("a:%d" % i, nontrivial=False)
                r = rows[i]
                if res[0] != ref[i] or res[1] != ref[i]:
                    rep.violation("C13:async:%s:%s:%s" % (r[0], r[1], r[2]),
                                  "%s %s %s: inline %r, in the executor %r, alone %r" % (r[0], r[1], r[2], res[0], res[1], ref[i]),
                                  {"kind": "async", "request": [r[0], r[1], r[2], r[4]], "inline": res[0], "executor": res[1], "alone": ref[i]})
            # 4b. many validations in flight at once through the executor (one event loop serving many connections)
            async def concurrent(sample):
                M.ASYNC_VALIDATION = True

                async def one(i):
                    r = rows[i]
                    msg = Call("i", r[2], copy.deepcopy(r[4])) if r[1] == "Call" else CallResult("i", copy.deepcopy(r[4]), r[2])
                    try:
                        await validate_payload(msg, r[0])
                        return i, ("accept", None)
                    except OCPPError as e:
                        return i, ("reject", e.code)
                    except Exception as e:  # noqa: BLE001
                        return i, ("crash", "%s: %s" % (type(e).__name__, str(e)[:200]))
                return await asyncio.gather(*[one(i) for i in sample])
            import sys as _sys
            old_si = _sys.getswitchinterval()
            for rnd in range(2 if tier == "quick" else 6):
                M._validators.clear()
                _sys.setswitchinterval(1e-6 if rnd % 2 else old_si)
                try:
                    res_c = asyncio.run(concurrent(sample))
                finally:
                    _sys.setswitchinterval(old_si)
                for i, v in res_c:
                    rep.count("g:%d" % i, nontrivial=False)
                    if v != ref[i]:
                        r = rows[i]
                        rep.violation("C13:concurrent:%s:%s:%s" % (r[0], r[1], r[2]),
                                      "%s %s %s: %r with %d validations in flight in the executor, %r alone" % (r[0], r[1], r[2], v, len(sample), ref[i]),
                                      {"kind": "async", "request": [r[0], r[1], r[2], r[4]], "concurrent": v, "alone": ref[i]})
            # 4d. a burst of HEAVY validations in flight at once (a central system whose charge points reconnect together
            #     and flush buffered meter values): several seconds of validation work queued in the executor; how long a
            #     job waits there or is slowed down by its neighbours must not turn into a verdict
            import time as _time

            def meter_values(n, bad=False):
                return {"connectorId": 1, "transactionId": 1, "meterValue": [
                    {"timestamp": "2024-01-01T00:00:00Z", "sampledValue": [{"value": str(i), "measurand": "Voltage" if not (bad and i == n - 1) else "Volts",
                                                                            "unit": "V", "phase": "L1", "context": "Sample.Periodic"}]} for i in range(n)]}
            probe = Call("p", "MeterValues", meter_values(300))
            M._validate_payload(probe, "1.6")
            t0 = _time.perf_counter()
            M._validate_payload(probe, "1.6")
            per_value = max((_time.perf_counter() - t0) / 300, 1e-6)
            n_values = max(300, min(6000, int(0.1 / per_value)))
            n_big = 40 if tier == "quick" else 120

            async def burst():
                M.ASYNC_VALIDATION = True

                async def one(k):
                    bad = k % 10 == 9
                    msg = Call("b%d" % k, "MeterValues", meter_values(n_values, bad)) if k < n_big else \
                        CallResult("h%d" % k, {"currentTime": "2024-01-01T00:00:00Z"}, "Heartbeat")
                    try:
                        await validate_payload(msg, "1.6" if k % 2 or k < n_big else "2.0.1")
                        return k, "accept", bad
                    except OCPPError as e:
                        return k, "reject:" + e.code, bad
                    except Exception as e:  # noqa: BLE001
                        return k, "crash:" + type(e).__name__, bad
                return await asyncio.gather(*[one(k) for k in range(n_big + 6)])
            t0 = _time.perf_counter()
            res_b = asyncio.run(burst())
            rep.coverage["heavy_burst"] = {"validations": n_big + 6, "values_each": n_values, "seconds": round(_time.perf_counter() - t0, 1)}
            for k, v, bad in res_b:
                rep.count("burst:%d" % k, nontrivial=False)
                want = "reject:FormatViolation" if bad and k < n_big else "accept"
                if v != want:
                    rep.violation("C13:heavy-burst:%s" % ("MeterValues" if k < n_big else "Heartbeat"),
                                  "%d MeterValues requests of %d meter values each validated at once in the executor: number %d got %r, "
                                  "alone it gets %r" % (n_big, n_values, k, v, want),
                                  {"kind": "heavy-burst", "n_big": n_big, "n_values": n_values, "index": k, "verdict": v, "alone": want})
        finally:
            M.ASYNC_VALIDATION = old
        # 4c. cold start under concurrency: fresh interpreters in which the very first validations of a version happen
        #     at the same moment in eight threads (whatever is initialised lazily on first use is initialised under a race)
        cold_concurrent(rep, rows, ref, 16 if tier == "quick" else 48)
        # 4e. cold start, sequentially: the decimal-validated messages with whole-number and fractional values in either order
        from harness.props import c04
        c04.cold_orders(rep, PROP)
        V.cold_cross_versions(rep, PROP)
        # 5. the model: pure verdict of the same requests (the theorem says history cannot matter)
        if support_ok:
            M._validators.clear()
            mrows = [r for r in rows if r[3] != "foreign-action"]
            V.run_correspondence(rep, mrows[:1500], "C13", PROP)
        rep.sample({"request": [rows[0][0], rows[0][1], rows[0][2]], "alone": ref[0]})
        rep.coverage["histories"] = n_hist
        rep.coverage["requests"] = len(rows)
    return body


def run(rep, tier, seed):
    return C.standard_run(rep, PROP, ["Model/CaseVerdict.vo"], [body_factory(tier, seed + 1000 * i) for i in range(3 if tier == "thorough" else 1)], rule=(
        "requests = (version, direction, action, payload) drawn from the per-schema instance generator over all 206 schemas "
        "(valid and violating), both versions mixed, the three decimal-mode messages with ordinary and huge numbers, and action "
        "names of the other version; each verdict is compared with that of the same request validated alone (cold cache): in "
        "shuffled histories with the cache kept and cleared at random points, on 8 threads started together on a cold cache, "
        "through validate_payload inline and in the executor; distinct by request"))


def replay(d):
    if d.get("kind") == "cold-order":
        from harness.props import c04
        return c04.replay_cold(d)
    import ocpp.messages as M
    req = d["request"]
    M._validators.clear()
    alone = short(V.impl_verdict(*req))
    print("alone:", alone)
    if d.get("kind") == "history":
        M._validators.clear()
        for h in d.get("history", []):
            V.impl_verdict(*h)
        after = short(V.impl_verdict(*req))
        print("after the recorded history:", after)
        print("HOLDS" if after == alone else "FAILS")
        return 0 if after == alone else 1
    print("re-run: python3 check.py C13 quick")
    return 0
