"""C09 -- OCPP errors survive the wire: class, description and details round-trip."""
import json
import random

from harness import common as C
from harness import gen_dispatch as GD
from harness import gen_history as GH
from harness import impl_net as N
from harness import oracles as O

PROP = "C09"


class AttrError(Exception):
    """a non-OCPP exception that happens to carry OCPP-looking attributes"""

    def __init__(self, text):
        super().__init__(text)
        self.code = "SecurityError"
        self.description = text
        self.details = {"leak": text}


class HttpLike(Exception):
    code = 404
    description = "not found: TOP-SECRET-7"


import asyncio as _asyncio
import builtins as _builtins

NotImplementedError_builtin = _builtins.NotImplementedError
asyncio_TimeoutError = _asyncio.TimeoutError


_APP_CLASSES = []


class ChainedCause(RuntimeError):
    """raised `from` an OCPP error the handler had caught"""


class ChainedContext(RuntimeError):
    """raised while an OCPP error was being handled (implicit chaining)"""


class WrapsOCPP(RuntimeError):
    """carries an OCPP error as its argument"""


def chained(cls):
    import ocpp.exceptions as ex
    inner = ex.SecurityError(description="TOP-SECRET-17", details={"leak": "TOP-SECRET-17"})
    if cls is WrapsOCPP:
        return cls(inner)
    e = cls("TOP-SECRET-18")
    if cls is ChainedCause:
        e.__cause__ = inner
    else:
        e.__context__ = inner
    return e


def body_factory(tier, seed):
    def body(rep, support_ok):
        import ocpp.exceptions as ex
        from ocpp.v16 import call, call_result
        rng = random.Random(seed * 5 + 2)
        import inspect
        # every OCPP error class of the module, found without OCPPError.__subclasses__()
        classes = [c for _, c in inspect.getmembers(ex, inspect.isclass)
                   if c is not ex.OCPPError and issubclass(c, ex.OCPPError) and c.__module__ == ex.__name__]
        codes = [c.code for c in classes]
        if len(set(codes)) != len(codes):
            dup = sorted({c for c in codes if codes.count(c) > 1})
            rep.violation("C09:duplicate-code:%s" % dup, "OCPP error classes share the wire code(s) %r" % dup,
                          {"kind": "table-item", "codes": dup, "theorem": "C09_codes_distinct"})
        # what applications do around the library's errors: their own subclasses (inheriting the wire code), and handlers
        # that annotate an error they caught before re-raising it -- neither may change what later errors look like
        global _APP_CLASSES
        if not _APP_CLASSES:
            _APP_CLASSES = [type("ConnectorBusy", (ex.GenericError,), {}), type("TokenRevoked", (ex.SecurityError,), {}),
                            type("Quota", (ex.OccurrenceConstraintViolationError if hasattr(ex, "OccurrenceConstraintViolationError") else ex.InternalError,), {})]
        for cls0 in classes[:4]:
            def annotate(kwargs, _c=cls0):
                try:
                    raise _c()
                except ex.OCPPError as e:
                    e.details["connectorId"] = "STALE-DETAIL"
                    raise
            N.run_loopback("1.6", "Heartbeat", call.Heartbeat(), annotate, suppress=False)
        descrs = [None, "", "plain", "dëscr ✓", "x" * 300]
        details = [None, {}, {"cause": "c"}, {"a": [1, 2.5, None, {"b": "ü"}], "n": None}, {"k": {"deep": {"er": []}}},
                   "text", "", [1, "a"], [], 0, 7.5, False]      # 'JSON details': any JSON value the application gives
        terms, meta = [], []
        req = call.Heartbeat()
        combos = [(c, d, x) for c in classes for d in descrs for x in details]
        if tier == "quick":
            combos = [cb for i, cb in enumerate(combos) if i % 3 == seed % 3] + [(c, "d", {"a": 1}) for c in classes]
        for (cls, d, x) in combos:
            for suppress in (False, True):
                def behave(kwargs, _c=cls, _d=d, _x=x):
                    raise _c(description=_d, details=json.loads(json.dumps(_x)) if _x is not None else None)
                res = N.run_loopback("1.6", "Heartbeat", req, behave, suppress=suppress, handler_async=rng.choice([True, False, "future"]))
                rep.count(json.dumps([cls.__name__, d, x, suppress], default=repr))
                replay = {"kind": "error-transport", "class": cls.__name__, "description": d, "details": x, "suppress": suppress,
                          "observation": {k: (v if k != "outcome" else v[:3]) for k, v in res.items() if k != "frames"}}
                want_d = d if d is not None else cls.default_description
                want_x = x if x is not None else {}
                oc = res["outcome"]
                if suppress:
                    if oc[0] != "none":
                        rep.violation("C09:suppress:%s" % cls.__name__, "with suppression on, call() ended with %r instead of None" % (oc[:2],), replay)
                else:
                    ok = oc[0] == "ocpp" and oc[1][0] == cls.__name__ and oc[1][1] == want_d and O.same_value(oc[1][2], want_x)
                    if not ok:
                        rep.violation("C09:transport:%s:%s" % (cls.__name__, ",".join(O.diff_desc(oc[1][2], want_x)) if oc[0] == "ocpp" else oc[0]),
                                      "%s(description=%r, details=%r) reached the caller as %r" % (cls.__name__, d, x, oc[:2]), replay)
                if res["reply"] is not None and support_ok:
                    out = "(HRaiseOCPP %s %s %s)" % (C.cs(cls.code), C.cs(want_d), C.cjson(want_x))
                    terms.append("mkN V16 (Some %s) (JStr \"a-id\") \"Heartbeat\" (JObj []) false %s %s" % (out, C.cbool(suppress), N.cnobs(res)))
                    meta.append(replay)
        # non-OCPP exceptions: InternalError, nothing of the exception on the wire
        others = [RuntimeError("TOP-SECRET-1"), ValueError("TOP-SECRET-2"), KeyError("TOP-SECRET-3"), ZeroDivisionError("TOP-SECRET-4"),
                  AttrError("TOP-SECRET-5"), OSError(5, "TOP-SECRET-6"), HttpLike(), AssertionError("TOP-SECRET-8"), LookupError(),
                  type("Custom", (Exception,), {"__str__": lambda self: "TOP-SECRET-9"})(),
                  TypeError("TOP-SECRET-10"), NotImplementedError_builtin("TOP-SECRET-11"), RecursionError("TOP-SECRET-12"),
                  UnicodeDecodeError("utf-8", b"TOP-SECRET-13", 0, 1, "TOP-SECRET-13"), StopIteration("TOP-SECRET-14"),
                  IndexError("TOP-SECRET-15"), asyncio_TimeoutError("TOP-SECRET-16"),
                  chained(ChainedCause), chained(ChainedContext), chained(WrapsOCPP)]
        # every exception type from a coroutine handler and from a plain function handler (the two are awaited /
        # called at different places of _handle_call)
        for e, h_async in [(e, a) for e in others for a in (True, False, "future")]:
            def behave(kwargs, _e=e):
                raise _e
            res = N.run_loopback("1.6", "Heartbeat", req, behave, suppress=False, handler_async=h_async)
            rep.count("other:%s:%s" % (type(e).__name__, "async" if h_async else "sync"))
            replay = {"kind": "other-exception", "exception": type(e).__name__, "handler_async": h_async,
                      "observation": {k: (v if k != "outcome" else v[:3]) for k, v in res.items() if k != "frames"}}
            oc = res["outcome"]
            if not (oc[0] == "ocpp" and oc[1][0] == "InternalError"):
                rep.violation("C09:internal:%s" % type(e).__name__, "%s in a handler reached the caller as %r, not as InternalError" % (
                    type(e).__name__, oc[:2]), replay)
            leaked = [m for (_, _, m) in res["frames"] if "TOP-SECRET" in m]
            if leaked:
                rep.violation("C09:leak:%s" % type(e).__name__, "the text of %s is on the wire: %s" % (type(e).__name__, leaked[0][:160]), replay)
            if res["reply"] is not None and support_ok:
                # the wording of the InternalError description is not an observable of the property (the leak
                # search above is): canonicalise it before the comparison with the model
                canon = dict(res)
                if oc[0] == "ocpp" and oc[1][0] == "InternalError":
                    canon["outcome"] = ("ocpp", ("InternalError", "An unexpected error occurred.", {}), 0)
                terms.append("mkN V16 (Some HRaiseOther) (JStr \"a-id\") \"Heartbeat\" (JObj []) false false %s" % N.cnobs(canon))
                meta.append(replay)
        # codes: every defined code maps to its class; undefined ones are unknown
        g = GH.HGen(tier, seed)
        undefined = ["", "genericerror", "GENERICERROR", "Generic", "GenericErrorX", " GenericError", "GenericError ", "NotImplementedError",
                     "Error", "OCPPError", "InternalErr", "internalError", "FormatViolationError", "NoSuchCode", "ünknown", "None", "null"]
        undefined += ["%s%s" % (c, s) for c in codes[:6] for s in ("x", "_", "2")] + [c[:-1] for c in codes] + [c.lower() for c in codes]
        undefined = [u for u in undefined if u not in codes]
        weird = [5, None, True, ["GenericError"], {"code": "GenericError"}, 0.5]
        hs = []
        for code in codes + undefined + weird:
            for suppress in (False, True):
                ops = [("start", 0, "u", "Heartbeat", {}, False, suppress, True),
                       ("inbound", json.dumps([4, "u", code, "dd", {"x": 1}]))]
                hs.append(("1.6", [], ops, 30))
        from harness import impl_history as H

        def oracle(version, routes, ops, timeout, res):
            bad = []
            code = json.loads(ops[1][1])[2]
            oc = res["outcomes"].get(0)
            if ops[0][6]:
                # suppression on (the default): None for every CALLERROR, whatever its code
                if not (oc and oc[0] == "none"):
                    bad.append(("suppressed:%r" % (code,), "with suppression on, a CALLERROR with code %r reached the caller as %r, expected None" % (code, oc)))
                return bad
            if isinstance(code, str) and code in codes:
                want = classes[codes.index(code)].__name__
                if not (oc and oc[0] == "ocpp" and oc[1][0] == want and oc[1][1] == "dd" and oc[1][2] == {"x": 1}):
                    bad.append(("code:%s" % code, "CALLERROR with code %r reached the caller as %r, expected %s" % (code, oc, want)))
            else:
                if not (oc and oc[0] == "exc" and oc[1] == "UnknownCallErrorCodeError"):
                    bad.append(("unknown-code:%r" % (code,), "CALLERROR with the undefined code %r reached the caller as %r" % (code, oc)))
            return bad
        if support_ok:
            GH.run_histories(rep, hs, "C09h", PROP, oracle, "VH02", shard_size=40)
            shard = 60
            shards = [N.HEADER + "Definition cases : list ncase := %s.\nEval vm_compute in ndisagreements cases.\n" % C.clist(
                ["\n" + t for t in terms[i:i + shard]]) for i in range(0, len(terms), shard)]
            outs = C.coq_eval_shards("C09", shards)
            broken = []
            for si, (idx, out) in enumerate(outs):
                if idx is None:
                    rep.violation("C09:correspondence:errors:shard-failed", "the errors correspondence could not be evaluated in Coq",
                                  {"kind": "correspondence", "correspondence": "errors", "coq_output": out[-3000:],
                                   "theorem": "errors correspondence (Model/Net.v vs two real endpoints)"}, found_input=False)
                    continue
                broken += [si * shard + i for i in idx]
            if broken and not any(v[2] for v in rep.violations):
                rep.violation("C09:corr:errors", "model and implementation disagree on %d error exchange(s)" % len(broken),
                              {"kind": "correspondence", "correspondence": "errors", "cases": [meta[i] for i in broken[:3]],
                               "theorem": "errors correspondence (Model/Net.v vs two real endpoints)"}, found_input=False)
        else:
            for (version, routes, ops, timeout) in hs:
                res = H.run_history(version, routes, ops, timeout)
                for key, what in oracle(version, routes, ops, timeout, res):
                    rep.violation("C09:" + key, what, {"kind": "history", "version": version, "routes": routes, "ops": ops,
                                                      "timeout": timeout, "observation": res})
        rep.sample({"class": "SecurityError", "description": "dëscr ✓", "details": {"a": [1, 2.5, None, {"b": "ü"}]}})
        rep.coverage["error_classes"] = len(classes)
        rep.coverage["undefined_codes"] = len(undefined) + len(weird)
    return body


def run(rep, tier, seed):
    return C.standard_run(rep, PROP, ["Model/CaseNet.vo", "Model/CaseHistory.vo"], [body_factory(tier, seed + 1000 * i) for i in range(3 if tier == "thorough" else 1)], rule=(
        "every OCPP error class x descriptions (None, empty, ASCII, non-ASCII, long) x details (None, {}, nested JSON with "
        "nulls) x suppression on/off raised by a handler on a real endpoint and received by a real caller; ten non-OCPP "
        "exception types (some carrying code/description/details attributes, all carrying a secret marker searched for in every "
        "frame); every defined code and ~80 undefined code strings / non-string codes injected as CALLERROR; distinct by case"))


def replay(d):
    import ocpp.exceptions as ex
    from ocpp.v16 import call
    if d.get("kind") == "error-transport":
        cls = getattr(ex, d["class"])

        def behave(kwargs):
            raise cls(description=d["description"], details=d["details"])
        res = N.run_loopback("1.6", "Heartbeat", call.Heartbeat(), behave, suppress=d["suppress"])
        oc = res["outcome"]
        print("caller outcome:", oc[:2], "reply:", res["reply"])
        want_d = d["description"] if d["description"] is not None else cls.default_description
        want_x = d["details"] if d["details"] is not None else {}
        ok = (oc[0] == "none") if d["suppress"] else (oc[0] == "ocpp" and oc[1][0] == d["class"] and oc[1][1] == want_d and O.same_value(oc[1][2], want_x))
        print("HOLDS" if ok else "FAILS")
        return 0 if ok else 1
    if d.get("kind") == "other-exception":
        import builtins
        excs = {"TimeoutError": asyncio_TimeoutError}
        cls = excs.get(d["exception"]) or getattr(builtins, d["exception"], RuntimeError)

        def behave(kwargs):
            if d["exception"] in ("ChainedCause", "ChainedContext", "WrapsOCPP"):
                raise chained(globals()[d["exception"]])
            try:
                e = cls("TOP-SECRET-R")
            except TypeError:
                e = RuntimeError("TOP-SECRET-R")
            raise e
        res = N.run_loopback("1.6", "Heartbeat", call.Heartbeat(), behave, suppress=False, handler_async=d.get("handler_async", True))
        oc = res["outcome"]
        leaked = [m for (_, _, m) in res["frames"] if "TOP-SECRET" in m]
        print("caller outcome:", oc[:2], "reply:", res["reply"], "leaked:", bool(leaked))
        ok = oc[0] == "ocpp" and oc[1][0] == "InternalError" and not leaked
        print("HOLDS" if ok else "FAILS")
        return 0 if ok else 1
    if d.get("kind") == "history":
        from harness import impl_history as H
        res = H.run_history(d["version"], d["routes"], [tuple(o) for o in d["ops"]], d["timeout"])
        print("outcomes:", res["outcomes"])
        return 0
    print("re-run: python3 check.py C09 quick")
    return 0
