"""C11 -- table theorems in coq/Props/C11.v re-checked against the tables regenerated from the tree,
and the same statements evaluated directly on the real classes / schema files by introspection."""
import dataclasses
import json

from harness import common as C
from harness import tables as T

PROP = "C11"

DIAG = """From Coq Require Import List String. Import ListNotations.
From OV.Model Require Import Json Names Schema Classes Vocab ClassCheck.
From OV.Gen Require Import Schemas16 Schemas201 Classes16 Classes201 Enums16 Enums201.
Local Open Scope string_scope. Local Open Scope list_scope.
Definition pairs16 := table_enum_pairs datatypes16 "" schemas16 calls16 ++ table_enum_pairs datatypes16 "Response" schemas16 results16.
Definition pairs201 := table_enum_pairs datatypes201 "Request" schemas201 calls201 ++ table_enum_pairs datatypes201 "Response" schemas201 results201.
Eval vm_compute in ("C11", table_problems datatypes16 "" schemas16 calls16, table_problems datatypes16 "Response" schemas16 results16,
  table_problems datatypes201 "Request" schemas201 calls201, table_problems datatypes201 "Response" schemas201 results201,
  unplaced datatypes16 (object_nodes schemas16), unplaced datatypes201 (object_nodes schemas201)).
Eval vm_compute in ("C12", missing_members enums16 pairs16, missing_members enums201 pairs201,
  dead_members enums16 pairs16, dead_members enums201 pairs201, List.length pairs16, List.length pairs201).
"""


def items(rep):
    out = []
    n_pairs = 0
    for pkg, ver in (("v16", "1.6"), ("v201", "2.0.1")):
        probs, pairs = T.walk(pkg)
        n_pairs += len(pairs)
        if PROP == "C11":
            for p in probs:
                out.append((ver, p))
        else:
            for p in T.enum_problems(pkg, pairs) + T.action_problems(pkg):
                out.append((ver, p))
    return out, n_pairs


def structure_never_fails(rep):
    """the corollary, exercised: an object built from a request / response class out of a schema-valid instance
    (all properties, only the required ones, falsy values: 0, "", false, []) and serialised the way call() and
    route_message() do it passes validation -- it can fail on values, never on structure"""
    import random
    from ocpp.charge_point import remove_nones, serialize_as_dict, snake_to_camel_case
    from harness import gen_dispatch as GD
    from harness import gen_instances as G
    from harness import impl_net as N
    from harness import verdict as V
    g = GD.Gen("quick", 0)
    for (version, pkg, mtype, action, name) in G.message_index():
        insts = [i for i in g.instances(version, action, "req" if mtype == "Call" else "resp") if not i[2] and isinstance(i[1], dict)]
        for (kind, inst, _) in insts[:5]:
            snake = GD.snake(inst)
            # nested values as plain dicts, as the data types the annotations name, and as the data types whose shape they
            # have (the OCPP 1.6 classes annotate Dict / List; applications put the v16 data types there)
            for mode in (False, True, "fit"):
                try:
                    obj = (N.make_request if mtype == "Call" else N.make_result)(version, action, snake, mode)
                except Exception as e:  # noqa: BLE001
                    rep.violation("C11:unconstructible:%s:%s:%s" % (version, mtype, action),
                                  "a schema-valid %s %s (%s) cannot be built as its class: %s" % (action, mtype, kind, e),
                                  {"kind": "structure", "version": version, "mtype": mtype, "action": action, "instance": inst, "nested": mode})
                    break
                if mode and not N.contains_dataclass([getattr(obj, f.name) for f in dataclasses.fields(obj)]):
                    continue
                try:
                    wire = remove_nones(snake_to_camel_case(serialize_as_dict(obj)))
                    json.dumps(wire)
                    v = V.impl_verdict(version, mtype, action, wire)
                except Exception as e:  # noqa: BLE001
                    wire, v = None, ("crash", "%s: %s" % (type(e).__name__, str(e)[:160]))
                rep.count("struct:%s:%s:%s:%s:%s" % (version, mtype, action, kind, mode))
                if v[0] != "accept":
                    rep.violation("C11:structure:%s:%s:%s:%s" % (version, mtype, action, v[1]),
                                  "the %s object built from a schema-valid instance (%s; nested values as %s) is written as %r and fails "
                                  "validation with %s" % (action, kind, {False: "dicts", True: "annotated data types", "fit": "data types by shape"}[mode],
                                                          wire, v[1]),
                                  {"kind": "structure", "version": version, "mtype": mtype, "action": action, "instance": inst,
                                   "nested": mode, "wire": wire, "verdict": v[:2]})


def materialise_through_call(rep):
    """'any schema-valid reply can be materialised as its result class': every action of both versions through the
    real call() in ONE process, the two versions interleaved (for an action both versions have, alternately 1.6
    first and 2.0.1 first), the reply being the schema instance with every property; the object call() returns
    must be an instance of that version's own call_result class carrying the reply's values"""
    import importlib
    from harness import gen_dispatch as GD
    from harness import gen_instances as G
    from harness import impl_net as N
    from harness import oracles as O
    g = GD.Gen("quick", 0)
    by_action = {}
    for (version, pkg, mtype, action, name) in G.message_index():
        if mtype == "Call":
            by_action.setdefault(action, []).append(version)
    order = []
    for i, (action, versions) in enumerate(sorted(by_action.items())):
        vs = sorted(versions)
        order += [(v, action) for v in (vs if i % 2 == 0 else vs[::-1])]
    n = 0
    for (version, action) in order:
        reqs = [i for i in g.instances(version, action, "req") if not i[2] and isinstance(i[1], dict)]
        resps = [i for i in g.instances(version, action, "resp") if not i[2] and isinstance(i[1], dict)]
        if not reqs or not resps:
            continue
        req, resp = reqs[1][1] if len(reqs) > 1 else reqs[0][1], resps[0][1]
        try:
            obj = N.make_request(version, action, GD.snake(req), False)
        except Exception:  # noqa: BLE001
            continue            # reported by structure_never_fails
        sresp = GD.snake(resp)
        res = N.run_loopback(version, action, obj, lambda kw, _v=version, _a=action, _s=sresp: N.make_result(_v, _a, _s, False))
        n += 1
        rep.count("call-materialise:%s:%s" % (version, action))
        out = res["outcome"]
        want_cls = getattr(importlib.import_module("ocpp.%s.call_result" % N.modname(version)), action)
        replay = {"kind": "materialise", "version": version, "action": action, "request": req, "response": resp,
                  "order": [list(x) for x in order[:order.index((version, action)) + 1][-4:]]}
        if out[0] != "result":
            rep.violation("C11:materialise:%s:%s" % (version, action),
                          "a schema-valid %s reply (OCPP %s) is not returned by call() as a result object: %r" % (action, version, out[:3]), replay)
        elif type(out[3]) is not want_cls:
            rep.violation("C11:materialise-class:%s:%s" % (version, action),
                          "call() returned a %s.%s for an OCPP %s %s reply" % (type(out[3]).__module__, type(out[3]).__name__, version, action), replay)
        elif not O.same_value(out[1], sresp):
            rep.violation("C11:materialise-values:%s:%s" % (version, action),
                          "the result object %r does not carry the reply %r" % (out[1], sresp), replay)
    rep.coverage["materialised_through_call"] = n


def body(rep, support_ok):
    found, n_pairs = items(rep)
    import dataclasses
    n_cls = 0
    for pkg in ("v16", "v201"):
        m = T.mods(pkg)
        for mn in ("call", "call_result", "datatypes"):
            for cls in T.classes_of(m[mn]):
                n_cls += 1
                rep.count("%s.%s.%s" % (pkg, mn, cls.__name__))
                for f in dataclasses.fields(cls):
                    rep.count("%s.%s.%s.%s" % (pkg, mn, cls.__name__, f.name))
    rep.coverage["classes"] = n_cls
    rep.coverage["enum_annotated_positions"] = n_pairs
    for (ver, p) in found:
        if p[0] == "dead-member":
            key = "C12:dead:%s:%s:%s" % (ver, p[1], p[2])
        else:
            key = "%s:%s:%s" % (PROP, ver, ":".join(map(str, p)))
        rep.violation(key, "%s (OCPP %s)" % (" ".join(map(str, p)), ver),
                      {"kind": "table-item", "version": ver, "item": list(p), "theorem": "Props/%s.v" % PROP})
    if PROP == "C11":
        structure_never_fails(rep)
        materialise_through_call(rep)
    rep.sample({"item": "v201 call_result.UpdateFirmware.status : UpdateFirmwareStatusEnumType vs schema enum"})
    rep.sample({"item": "v16 call.LogStatusNotification.request_id default None vs schema required ['status']"})
    # translator tie: the problem lists the Coq walk computes from the translated tables
    if support_ok:
        rc, out = C.coq_query(PROP + "-diag", DIAG)
        rep.coverage["coq_walk"] = out[-1500:]
        import re
        txt = " ".join(out.split())
        m11 = re.search(r'\("C11",(.*?)\)\s*:', txt)
        clean11 = m11 is not None and re.sub(r"[\s\[\],]", "", m11.group(1)) == ""
        if PROP == "C11" and not clean11 and not rep.violations:
            rep.violation("C11:coq-walk", "the walk over the translated tables reports problems the introspection does not",
                          {"kind": "correspondence", "correspondence": "tables (translate.py)", "coq_walk": out[-3000:],
                           "theorem": "Props/C11.v C11_walk_clean"}, found_input=False)


def run(rep, tier, seed):
    return C.standard_run(rep, PROP, ["Model/ClassCheck.vo"], body, rule=(
        "exhaustive over the finite domain enumerated from the tree: every request/response class of both versions against "
        "its schema, every data type reachable by annotation (2.0.1) or by structural fit (1.6), every enum-annotated "
        "position, every enum member, every action name; a case is one class / field / position item"), exhaustive=True)


def replay(d):
    if d.get("kind") == "materialise":
        import importlib
        from harness import gen_dispatch as GD
        from harness import impl_net as N
        from harness import oracles as O
        ok = True
        for (version, action) in d.get("order") or [[d["version"], d["action"]]]:
            last = (version, action) == (d["version"], d["action"])
            if not last:
                # the history that precedes it (the other version's call of the same or a neighbouring action)
                try:
                    from harness import gen_instances as G
                    g = GD.Gen("quick", 0)
                    rq = [i for i in g.instances(version, action, "req") if not i[2]][1][1]
                    rs = [i for i in g.instances(version, action, "resp") if not i[2]][0][1]
                    N.run_loopback(version, action, N.make_request(version, action, GD.snake(rq), False),
                                   lambda kw, _v=version, _a=action, _s=GD.snake(rs): N.make_result(_v, _a, _s, False))
                except Exception:  # noqa: BLE001
                    pass
                continue
            sresp = GD.snake(d["response"])
            res = N.run_loopback(version, action, N.make_request(version, action, GD.snake(d["request"]), False),
                                 lambda kw: N.make_result(version, action, sresp, False))
            out = res["outcome"]
            want = getattr(importlib.import_module("ocpp.%s.call_result" % N.modname(version)), action)
            ok = out[0] == "result" and type(out[3]) is want and O.same_value(out[1], sresp)
            print("call() ->", out[:3], "class", type(out[3]).__module__ + "." + type(out[3]).__name__ if out[0] == "result" else None)
        print("HOLDS" if ok else "FAILS")
        return 0 if ok else 1
    if d.get("kind") == "structure":
        from ocpp.charge_point import remove_nones, serialize_as_dict, snake_to_camel_case
        from harness import gen_dispatch as GD
        from harness import impl_net as N
        from harness import verdict as V
        try:
            obj = (N.make_request if d["mtype"] == "Call" else N.make_result)(d["version"], d["action"], GD.snake(d["instance"]), d.get("nested", False))
            wire = remove_nones(snake_to_camel_case(serialize_as_dict(obj)))
            json.dumps(wire)
            v = V.impl_verdict(d["version"], d["mtype"], d["action"], wire)
        except Exception as e:  # noqa: BLE001
            v = ("crash", repr(e))
        print("verdict on the object's wire form:", v[:2])
        print("HOLDS" if v[0] == "accept" else "FAILS")
        return 0 if v[0] == "accept" else 1
    found, _ = items(None)
    it = tuple(d.get("item", []))
    hit = [p for (ver, p) in found if tuple(map(str, p)) == tuple(map(str, it)) and ver == d.get("version")]
    print("item %r on the current tree: %s" % (it, "FAILS" if hit else "HOLDS"))
    return 1 if hit else 0
