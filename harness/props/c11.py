"""C11 -- table theorems in coq/Props/C11.v re-checked against the tables regenerated from the tree,
and the same statements evaluated directly on the real classes / schema files by introspection."""
import json

from harness import common as C
from harness import tables as T

PROP = "C11"

DIAG = """From Coq Require Import List String. Import ListNotations.
From OV.Model Require Import Json Names Schema Classes Vocab ClassCheck.
From OV.Gen Require Import Schemas16 Schemas201 Classes16 Classes201 Enums16 Enums201.
Local Open Scope string_scope. Local Open Scope list_scope.
Definition pairs16 := table_enum_pairs datatypes16 "" schemas16 calls16 ++ table_enum_pairs datatypes16 "Response" schemas16 results16.
Definition pairs201 := table_enum_pairs datatypes201 "Request" schemas201 calls201 ++ table_enum_pairs datatypes201 "Response" schemas201 results201.
Eval vm_compute in ("C11", table_problems datatypes16 "" schemas16 calls16, table_problems datatypes16 "Response" schemas16 results16,
  table_problems datatypes201 "Request" schemas201 calls201, table_problems datatypes201 "Response" schemas201 results201,
  unplaced datatypes16 (object_nodes schemas16), unplaced datatypes201 (object_nodes schemas201)).
Eval vm_compute in ("C12", missing_members enums16 pairs16, missing_members enums201 pairs201,
  dead_members enums16 pairs16, dead_members enums201 pairs201, List.length pairs16, List.length pairs201).
"""


def items(rep):
    out = []
    n_pairs = 0
    for pkg, ver in (("v16", "1.6"), ("v201", "2.0.1")):
        probs, pairs = T.walk(pkg)
        n_pairs += len(pairs)
        if PROP == "C11":
            for p in probs:
                out.append((ver, p))
        else:
            for p in T.enum_problems(pkg, pairs) + T.action_problems(pkg):
                out.append((ver, p))
    return out, n_pairs


def structure_never_fails(rep):
    """the corollary, exercised: an object built from a request / response class out of a schema-valid instance
    (all properties, only the required ones, falsy values: 0, "", false, []) and serialised the way call() and
    route_message() do it passes validation -- it can fail on values, never on structure"""
    import random
    from ocpp.charge_point import remove_nones, serialize_as_dict, snake_to_camel_case
    from harness import gen_dispatch as GD
    from harness import gen_instances as G
    from harness import impl_net as N
    from harness import verdict as V
    g = GD.Gen("quick", 0)
    for (version, pkg, mtype, action, name) in G.message_index():
        insts = [i for i in g.instances(version, action, "req" if mtype == "Call" else "resp") if not i[2] and isinstance(i[1], dict)]
        for (kind, inst, _) in insts[:5]:
            snake = GD.snake(inst)
            try:
                obj = (N.make_request if mtype == "Call" else N.make_result)(version, action, snake, False)
            except TypeError as e:
                rep.violation("C11:unconstructible:%s:%s:%s" % (version, mtype, action),
                              "a schema-valid %s %s (%s) cannot be built as its class: %s" % (action, mtype, kind, e),
                              {"kind": "structure", "version": version, "mtype": mtype, "action": action, "instance": inst})
                continue
            wire = remove_nones(snake_to_camel_case(serialize_as_dict(obj)))
            v = V.impl_verdict(version, mtype, action, wire)
            rep.count("struct:%s:%s:%s:%s" % (version, mtype, action, kind))
            if v[0] != "accept":
                rep.violation("C11:structure:%s:%s:%s:%s" % (version, mtype, action, v[1]),
                              "the %s object built from a schema-valid instance (%s) is written as %r and fails validation with %s" % (
                                  action, kind, wire, v[1]),
                              {"kind": "structure", "version": version, "mtype": mtype, "action": action, "instance": inst,
                               "wire": wire, "verdict": v[:2]})


def body(rep, support_ok):
    found, n_pairs = items(rep)
    import dataclasses
    n_cls = 0
    for pkg in ("v16", "v201"):
        m = T.mods(pkg)
        for mn in ("call", "call_result", "datatypes"):
            for cls in T.classes_of(m[mn]):
                n_cls += 1
                rep.count("%s.%s.%s" % (pkg, mn, cls.__name__))
                for f in dataclasses.fields(cls):
                    rep.count("%s.%s.%s.%s" % (pkg, mn, cls.__name__, f.name))
    rep.coverage["classes"] = n_cls
    rep.coverage["enum_annotated_positions"] = n_pairs
    for (ver, p) in found:
        if p[0] == "dead-member":
            key = "C12:dead:%s:%s:%s" % (ver, p[1], p[2])
        else:
            key = "%s:%s:%s" % (PROP, ver, ":".join(map(str, p)))
        rep.violation(key, "%s (OCPP %s)" % (" ".join(map(str, p)), ver),
                      {"kind": "table-item", "version": ver, "item": list(p), "theorem": "Props/%s.v" % PROP})
    if PROP == "C11":
        structure_never_fails(rep)
    rep.sample({"item": "v201 call_result.UpdateFirmware.status : UpdateFirmwareStatusEnumType vs schema enum"})
    rep.sample({"item": "v16 call.LogStatusNotification.request_id default None vs schema required ['status']"})
    # translator tie: the problem lists the Coq walk computes from the translated tables
    if support_ok:
        rc, out = C.coq_query(PROP + "-diag", DIAG)
        rep.coverage["coq_walk"] = out[-1500:]
        import re
        txt = " ".join(out.split())
        m11 = re.search(r'\("C11",(.*?)\)\s*:', txt)
        clean11 = m11 is not None and re.sub(r"[\s\[\],]", "", m11.group(1)) == ""
        if PROP == "C11" and not clean11 and not rep.violations:
            rep.violation("C11:coq-walk", "the walk over the translated tables reports problems the introspection does not",
                          {"kind": "correspondence", "correspondence": "tables (translate.py)", "coq_walk": out[-3000:],
                           "theorem": "Props/C11.v C11_walk_clean"}, found_input=False)


def run(rep, tier, seed):
    return C.standard_run(rep, PROP, ["Model/ClassCheck.vo"], body, rule=(
        "exhaustive over the finite domain enumerated from the tree: every request/response class of both versions against "
        "its schema, every data type reachable by annotation (2.0.1) or by structural fit (1.6), every enum-annotated "
        "position, every enum member, every action name; a case is one class / field / position item"), exhaustive=True)


def replay(d):
    found, _ = items(None)
    it = tuple(d.get("item", []))
    hit = [p for (ver, p) in found if tuple(map(str, p)) == tuple(map(str, it)) and ver == d.get("version")]
    print("item %r on the current tree: %s" % (it, "FAILS" if hit else "HOLDS"))
    return 1 if hit else 0
