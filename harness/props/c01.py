"""C01 -- every inbound CALL gets exactly one reply with its id; the receive path never raises."""
import json
import os

from harness import common as C
from harness import gen_dispatch as GD
from harness import oracles as O


def corpus():
    """Minimised past failures (the defects fixed in /repo): always run first."""
    hb = {"action": "Heartbeat", "skip": False,
          "on": {"name": "on_heartbeat", "sig": GD.KW, "async": False, "out": ("ret", {"current_time": "t"})}}
    scp = {"action": "SetChargingProfile", "skip": False,
           "on": {"name": "on_set_charging_profile", "sig": GD.KW, "async": False, "out": ("ret", {"status": "Accepted"})}}
    prof = '[2,"i","SetChargingProfile",{"connectorId":1,"csChargingProfiles":{"chargingProfileId":1,"stackLevel":0,' \
           '"chargingProfilePurpose":"TxProfile","chargingProfileKind":"Relative","chargingSchedule":{"chargingRateUnit":"A",' \
           '"chargingSchedulePeriod":[{"startPeriod":0,"limit":%s}]}}}]'
    cases = [("corpus-D1", "1.6", [hb], '[2,"i","a",' + "1" * 5000 + "]"),
             ("corpus-D1", "1.6", [hb], "[" * 100000 + "]" * 100000),
             ("corpus-D2", "1.6", [hb], '[2,"i",[],{}]'), ("corpus-D2", "2.0.1", [hb], '[2,"i",{},{}]')]
    for out in (("other", "RuntimeError", "x"), ("ocpp", "GenericError", None, None), ("other", "KeyError", "k")):
        r = dict(hb, after={"name": "after_heartbeat", "sig": GD.KW, "async": False, "out": out})
        cases.append(("corpus-D3", "1.6", [r], '[2,"i","Heartbeat",{}]'))
    for lit in ("1e999", "-1e999", "NaN", str(10 ** 27), "1e30", "-1e30", "21.4", "1e27", "12345678901234567890123456789.1"):
        cases.append(("corpus-D4", "1.6", [scp], prof % lit))
    return cases


def body_factory(tier, seed):
    def body(rep, support_ok):
        g = GD.Gen(tier, seed)
        # C01 assumes that the connection accepts writes
        cases = [c for c in corpus() + g.all_cases() if c[0] != "send-fails"]
        modes = (False, True) if tier == "thorough" else (False,)
        if not support_ok:
            # the model side is unavailable: the direct oracle alone searches for a failing input
            for (kind, version, routes, raw, info) in map(GD.norm, cases):
                from harness import impl_dispatch as D
                obs = D.observe_frame(version, routes, raw)
                rep.count(repr((version, routes, raw)))
                for key, what in O.c01(kind, version, routes, raw, obs):
                    rep.violation("C01:" + key, what, {"kind": "dispatch", "version": version, "routes": routes,
                                                       "frame": raw if isinstance(raw, str) else {"hex": bytes(raw).hex()},
                                                       "observation": obs})
            return
        n = GD.run_cases(rep, cases, "C01", "C01", O.c01, async_modes=modes, view="VC01")
        # the same CALL again and again on one endpoint (what a retrying peer does): answered the same way every time
        GD.run_repeats(rep, cases, "C01", ("vendor", "skip-vendor", "unhandled", "after-only", "bad-req", "payload"), limit=60)
        if tier == "quick":
            # validation in worker threads for a slice of the cases
            GD.run_cases(rep, cases[::7], "C01t", "C01", O.c01, async_modes=(True,), view="VC01")
        # several frames on ONE endpoint through the real receive loop: the same id again, null / falsy ids,
        # replies in between -- every CALL of the sequence must get exactly one reply
        from harness import impl_dispatch as D
        from harness.props import c18
        hbp = g.route("Heartbeat", ("ret", {"current_time": "t"}))
        seqs = [['[2,"same","Heartbeat",{}]'] * 4,
                ['[2,null,"Heartbeat",{}]', '[2,null,"Heartbeat",{}]', '[2,0,"Heartbeat",{}]', '[2,false,"Heartbeat",{}]',
                 '[2,"","Heartbeat",{}]', '[2,"","Heartbeat",{}]', '[2,0,"Nope",{}]'],
                ['[2,"a","Heartbeat",{}]', '[2,"b","Nope",{}]', '[2,"a","Heartbeat",{}]', '[3,"a",{}]', '[2,"a","Heartbeat",{}]'],
                ['[3,"r%d",{}]' % i for i in range(14)] + ['[2,"after-replies","Heartbeat",{}]'],
                # more unsolicited replies than any small buffer holds, nobody waiting for them
                ['[3,"r%d",{}]' % i if i % 2 else '[4,"r%d","GenericError","",{}]' % i for i in range(1100)] + ['[2,"after-flood","Heartbeat",{}]']]
        for version in ("1.6", "2.0.1"):
            for frames in seqs:
                seq, how = D.observe_loop(version, [hbp], frames, "closed", False)
                rep.count(json.dumps([version, frames]))
                for key, what in c18.oracle(frames, seq, how, "closed"):
                    if key.startswith(("interleaved", "spurious", "end")):
                        rep.violation("C01:sequence:" + key, what, {"kind": "loop", "version": version, "routes": [hbp], "frames": frames,
                                                                  "recv_exception": "closed", "gate_held": False, "observation": seq, "ended": how})
        rep.sample({"version": cases[30][1], "frame": cases[30][3][:200] if isinstance(cases[30][3], str) else "bytes",
                    "stratum": cases[30][0]})
        rep.sample({"version": cases[-1][1], "frame": str(cases[-1][3])[:200], "stratum": cases[-1][0]})
    return body


def run(rep, tier, seed):
    return C.standard_run(
        rep, "C01", ["Model/CaseDispatch.vo"], [body_factory(tier, seed + 1000 * i) for i in range(3 if tier == "thorough" else 1)],
        rule="one case = (version, registered routes with scripted handler/hook outcomes, one inbound frame); "
             "structured stream (valid and single-constraint-violating CALLs of sampled actions x handler outcomes x hook "
             "outcomes x sync/async x signature shapes x skip flags; unhandled actions; after-only routes) plus a malformed "
             "stream (arity, type ids, truncated / hostile JSON, huge literals, deep nesting, non-UTF-8 bytes, odd ids); "
             "distinct by (version, routes, frame)")


def replay(d):
    from harness import impl_dispatch as D
    raw = d["frame"] if isinstance(d["frame"], str) else bytes.fromhex(d["frame"]["hex"])
    routes = d["routes"]
    for r in routes:
        for k in ("on", "after"):
            if r.get(k):
                r[k]["out"] = tuple(r[k]["out"])
    obs = D.observe_frame(d["version"], routes, raw, async_validation=d.get("async_validation", False))
    print("observation:", obs)
    bad = O.c01("replay", d["version"], routes, raw, obs)
    print("FAILS: %s" % bad if bad else "HOLDS")
    return 1 if bad else 0
