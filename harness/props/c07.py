"""C07 -- see properties.jsonl; theorems in coq/Props/C07.v, tie: the dispatch correspondence in the
observables of this property, plus the property's direct oracle on every observed frame."""
import json

from harness import common as C
from harness import gen_dispatch as GD
from harness import oracles as O
from harness.props import c01 as base

PROP = "C07"
VIEW = "VC07"
ORACLE = O.c07


def body_factory(tier, seed):
    def body(rep, support_ok):
        g = GD.Gen(tier, seed)
        cases = base.corpus() + g.all_cases()
        extra = EXTRA(g, tier) if EXTRA else []
        cases = cases + extra
        modes = (False, True) if tier == "thorough" else (False,)
        if not support_ok:
            from harness import impl_dispatch as D
            for (kind, version, routes, raw, info) in map(GD.norm, cases):
                if not any(kind.startswith(k) for k in KINDS):
                    continue
                obs = D.observe_frame(version, routes, raw, send_ok=info.get('send_ok', True))
                rep.count(repr((version, routes, raw)))
                for key, what in ORACLE(kind, version, routes, raw, obs, info):
                    rep.violation(PROP + ":" + key, what, {"kind": "dispatch", "version": version, "routes": routes,
                                                           "frame": raw if isinstance(raw, str) else {"hex": bytes(raw).hex()},
                                                           "observation": obs, "info": info})
            return
        GD.run_cases(rep, cases, PROP, PROP, ORACLE, async_modes=modes, view=VIEW, kinds=KINDS)
        GD.run_repeats(rep, cases, PROP, ("ok", "explicit", "raise-"))
        # a coroutine handler that takes longer than the endpoint's response timeout (which bounds the wait for
        # replies to OUR requests, nothing else): it is awaited to its end, the reply is built from what it
        # returns and the hook runs afterwards
        from harness import impl_dispatch as D
        for version in ("1.6", "2.0.1"):
            slow = g.route("Heartbeat", ("ret", {"current_time": "t"}), is_async=True, after=("ret",))
            slow.pop("after_first", None)
            slow["on"]["sleep"] = 0.05
            frames = ['[2,"slow-1","Heartbeat",{}]', '[2,"slow-2","Heartbeat",{}]']
            seq, how = D.observe_loop(version, [slow], frames, "closed", False, response_timeout=0.01)
            rep.count("slow-handler:" + version)
            hs = [e for e in seq if e[0] == "handler"]
            ws = [json.loads(e[1]) for e in seq if e[0] == "send"]
            afters = [e for e in seq if e[0] == "after"]
            if not (len(hs) == 2 and len(ws) == 2 and all(w[0] == 3 for w in ws) and len(afters) == 2):
                rep.violation("C07:slow-handler:%s" % version,
                              "a coroutine handler slower than response_timeout: %d handler run(s), replies %r, %d hook run(s)" % (
                                  len(hs), [w[:3] for w in ws], len(afters)),
                              {"kind": "slow-handler", "version": version, "routes": [slow], "frames": frames,
                               "response_timeout": 0.01, "observation": seq, "ended": how})
        # one reusable handler function (and hook) registered by TWO endpoint classes for different actions: each class handles
        # the action it registered the function for, with its own hook -- a later registration elsewhere changes nothing
        import asyncio as _asyncio
        import importlib as _importlib
        from ocpp.routing import after as _after, on as _on
        for version in ("1.6", "2.0.1"):
            pkg = "v16" if version == "1.6" else "v201"
            base_cls = _importlib.import_module("ocpp." + pkg).ChargePoint
            cr = _importlib.import_module("ocpp.%s.call_result" % pkg)
            ran = []

            def shared(self, **kw):
                ran.append(("handler", type(self).__name__))
                return cr.Heartbeat(current_time="t") if type(self).__name__ == "First" else cr.ClearCache(status="Accepted")

            def shared_hook(self, **kw):
                ran.append(("hook", type(self).__name__))
            # (attribute name = function name: the decorators list function names, the map looks them up as attributes)
            First = type("First", (base_cls,), {"shared": _on("Heartbeat")(shared), "shared_hook": _after("Heartbeat")(shared_hook)})
            Second = type("Second", (base_cls,), {"shared": _on("ClearCache")(shared), "shared_hook": _after("ClearCache")(shared_hook)})
            rec1, rec2 = D.Recorder(), D.Recorder()

            async def go_shared():
                import logging
                a, b = First("a", D.Conn(rec1)), Second("b", D.Conn(rec2))
                a.logger = b.logger = logging.getLogger("ov-silent")
                await a.route_message('[2,"s1","Heartbeat",{}]')
                await b.route_message('[2,"s2","ClearCache",{}]')
                await a.route_message('[2,"s3","ClearCache",{}]')
            _asyncio.run(go_shared())
            rep.count("shared-function:" + version)
            w1, w2 = O.sends(rec1.seq), O.sends(rec2.seq)
            want_ran = [("handler", "First"), ("hook", "First"), ("handler", "Second"), ("hook", "Second")]
            ok = ran == want_ran and [x[0] for x in w1] == [3, 4] and [x[0] for x in w2] == [3] and w1[1][2] == "NotImplemented"
            if not ok:
                rep.violation("C07:shared-function:%s" % version,
                              "one function registered by class First for Heartbeat and by class Second for ClearCache (hooks likewise): "
                              "invocations %r (expected %r), First wrote %r, Second wrote %r" % (ran, want_ran, [x[:3] for x in w1], [x[:3] for x in w2]),
                              {"kind": "shared-function", "version": version, "invocations": ran, "first_wrote": w1, "second_wrote": w2})
        # one endpoint, several CALLs: an asynchronous after-hook that fails (or is slow) must not keep the hooks of later
        # CALLs from running -- each hook runs exactly once for its own CALL
        for version in ("1.6", "2.0.1"):
            for out in (("other", "RuntimeError", "hook failed"), ("ocpp", "GenericError", None, None), ("ret",)):
                bad_hook = g.route("Heartbeat", ("ret", {"current_time": "t"}), after=out, after_async=True)
                bad_hook.pop("after_first", None)
                good = g.route("Reset", ("ret", {"status": "Accepted"}), after=("ret",), after_async=True)
                good.pop("after_first", None)
                reset = '{"type":"Hard"}' if version == "1.6" else '{"type":"Immediate"}'
                frames = ['[2,"h1","Heartbeat",{}]', '[2,"r1","Reset",%s]' % reset, '[2,"h2","Heartbeat",{}]', '[2,"r2","Reset",%s]' % reset,
                          '[2,"r3","Reset",%s]' % reset]
                for linger in (0.02, 0):
                    # linger 0: the connection breaks right after the last frame -- the hooks of the CALLs that were answered
                    # still run (the loop's end is not a reason to drop them)
                    seq, how = D.observe_loop(version, [bad_hook, good], frames, "closed", False, linger=linger)
                    rep.count("hook-sequence:%s:%s:%s" % (version, out[0], linger))
                    afters = [e[1] for e in seq if e[0] == "after"]
                    want = sorted([bad_hook["after"]["name"]] * 2 + [good["after"]["name"]] * 3)
                    if sorted(afters) != want:
                        rep.violation("C07:hook-sequence:%s:%s%s" % (version, out[0], "" if linger else ":closing"),
                                      "five CALLs on one endpoint, the first action's asynchronous after-hook ends with %r: hooks that ran: %r, "
                                      "expected each CALL's hook once (%r)" % (out[:2], afters, want),
                                      {"kind": "hook-sequence", "version": version, "routes": [bad_hook, good], "frames": frames,
                                       "linger": linger, "observation": seq, "ended": how})
        for c in (cases[25], cases[len(cases) // 2], cases[-1]):
            rep.sample({"stratum": c[0], "version": c[1], "frame": str(c[3])[:200]})
    return body


EXTRA = None
KINDS = ("ok","explicit","raise-","bad-res","skip","id","send-fails","bind-fail")


def run(rep, tier, seed):
    return C.standard_run(rep, PROP, ["Model/CaseDispatch.vo"], [body_factory(tier, seed + 1000 * i) for i in range(3 if tier == "thorough" else 1)], rule=RULE)


def replay(d):
    if d.get("kind") == "repeat":
        return GD.replay_repeat(d)
    if d.get("kind") == "hook-sequence":
        from harness import impl_dispatch as D
        routes = d["routes"]
        for r in routes:
            for k in ("on", "after"):
                if r.get(k):
                    r[k]["out"] = tuple(r[k]["out"])
        seq, how = D.observe_loop(d["version"], routes, d["frames"], "closed", False, linger=d.get("linger", 0.02))
        afters = [e[1] for e in seq if e[0] == "after"]
        print("hooks that ran:", afters)
        ok = len(afters) == len(d["frames"])
        print("HOLDS" if ok else "FAILS")
        return 0 if ok else 1
    if d.get("kind") == "slow-handler":
        from harness import impl_dispatch as D
        routes = d["routes"]
        for r in routes:
            for k in ("on", "after"):
                if r.get(k):
                    r[k]["out"] = tuple(r[k]["out"])
        seq, how = D.observe_loop(d["version"], routes, d["frames"], "closed", False, response_timeout=d["response_timeout"])
        ws = [json.loads(e[1]) for e in seq if e[0] == "send"]
        ok = len([e for e in seq if e[0] == "handler"]) == 2 and len(ws) == 2 and all(w[0] == 3 for w in ws) and \
            len([e for e in seq if e[0] == "after"]) == 2
        print("replies:", [w[:3] for w in ws])
        print("HOLDS" if ok else "FAILS")
        return 0 if ok else 1
    from harness import impl_dispatch as D
    raw = d["frame"] if isinstance(d["frame"], str) else bytes.fromhex(d["frame"]["hex"])
    routes = d["routes"]
    for r in routes:
        for k in ("on", "after"):
            if r.get(k):
                r[k]["out"] = tuple(r[k]["out"])
    obs = D.observe_frame(d["version"], routes, raw, async_validation=d.get("async_validation", False), send_ok=(d.get("info") or {}).get("send_ok", True), prelude=(d.get("info") or {}).get("prelude"), send_style=(d.get("info") or {}).get("send_style"))
    print("observation:", obs)
    bad = ORACLE(d.get("stratum", "replay"), d["version"], routes, raw, obs, d.get("info"))
    print("FAILS: %s" % bad if bad else "HOLDS (for the recorded stratum %r)" % d.get("stratum"))
    return 1 if bad else 0


RULE = ("one case = (version, registered routes with scripted handler/hook outcomes, one inbound frame); the dispatch "
        "streams of C01 (valid and single-constraint-violating CALLs x handler outcomes x hooks x shapes x skip flags, "
        "unhandled actions, malformed frames); compared in the observables of this property; distinct by (version, routes, frame)")
