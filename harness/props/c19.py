"""C19 -- relay transparency: what the library hands out, it also takes back."""
import json
import random

from harness import common as C
from harness import gen_dispatch as GD
from harness import gen_instances as G
from harness import impl_net as N
from harness import oracles as O
from harness.props import c06

PROP = "C19"
DECIMAL = {("1.6", "SetChargingProfile"), ("1.6", "RemoteStartTransaction"), ("1.6", "GetCompositeSchedule")}


def cases(tier, seed):
    rng = random.Random(seed * 17 + 4)
    g = GD.Gen(tier, seed)
    out = []
    for (version, pkg, mtype, action, name) in G.message_index():
        if mtype != "Call":
            continue
        reqs = [i for i in g.instances(version, action, "req") if not i[2] and isinstance(i[1], dict)]
        resps = [i for i in g.instances(version, action, "resp") if not i[2] and isinstance(i[1], dict)]
        heavy = (version, action) in DECIMAL
        k = (5 if heavy else 3) if tier == "quick" else (14 if heavy else 8)     # required-only, everything, boundary lengths
        picks = [(reqs[i % len(reqs)], resps[i % len(resps)]) for i in ([1, 0, 3, 2, 4][:k] if k <= 5 else [1, 0] + list(range(2, k)))]
        for (rq, rs) in picks:
            out.append((version, action, rq[1], rs[1]))
    # strings as a peer may legally send them in JSON: escapes of unpaired surrogates (text cut in the middle of an emoji),
    # NUL, characters beyond the BMP, a BOM -- the library hands them to the handler, so it must take them back
    # ... and strings that LOOK like something else: JSON text (not in compact form, duplicate members), numbers, URIs without
    # a scheme where the schema says format: uri (an annotation in draft 4, not a constraint)
    odd = ["a\ud83d", "\udc00x", "\x00", "\U0001F50C", "\ufeffx", "\u2028",
           '{"soc": 80, "limits": [16.0, 32.50]}', '[1, 2 ]', '{"a": 1, "a": 2}', "1e3", "null", " padded "]
    for loc in ("fw.example.com/fw.bin", "/srv/fw.bin", "", "not a uri", "ftp://u:p@h/x"):
        out.append(("1.6", "UpdateFirmware", {"location": loc, "retrieveDate": "2024-01-01T00:00:00Z"}, {}))
        out.append(("1.6", "GetDiagnostics", {"location": loc}, {"fileName": loc}))
    for i, sv in enumerate(odd):
        out.append(("1.6", "DataTransfer", {"vendorId": sv, "data": sv + "d"}, {"status": "Accepted", "data": sv}))
        out.append(("2.0.1", "DataTransfer", {"vendorId": "v", "data": {"k" + sv: [sv]}}, {"status": "Accepted", "data": {"d": sv}}))
        if len(sv) <= 20:         # idTag: maxLength 20
            out.append(("1.6", "Authorize", {"idTag": sv}, {"idTagInfo": {"status": "Accepted", "parentIdTag": sv}}))
    return out


def body_factory(tier, seed):
    def body(rep, support_ok):
        terms, meta = [], []
        import contextlib
        import decimal
        from harness.props import c14
        all_cases = list(cases(tier, seed))
        # the relay inside an application that has set the decimal context for its own arithmetic (low precision): what the
        # library handed out as exact decimals it also takes back and writes with the same digits
        for (mtype, action, path) in c14.POSITIONS:
            base = c14.base_payload(mtype, action)
            g0 = GD.Gen("quick", 0)
            other = [i for i in g0.instances("1.6", action, "resp" if mtype == "Call" else "req") if not i[2] and isinstance(i[1], dict)][0][1]
            for x in (100000.0, 250000.5, 21.4):
                p = c14.set_at(base, path, x)
                all_cases.append(("1.6", action, p, other, {"prec": 6}) if mtype == "Call" else ("1.6", action, other, p, {"prec": 6}))
        for case in all_cases:
            (version, action, req, resp), ctx = case[:4], (case[4] if len(case) > 4 else None)
            sreq, sresp = GD.snake(req), GD.snake(resp)
            try:
                obj = N.make_request(version, action, sreq, False)
            except Exception as e:  # noqa: BLE001
                rep.violation("C19:unbuildable:%s:%s" % (version, action),
                              "the keywords a handler receives for a schema-valid %s request cannot be put into call.%s: %s" % (action, action, e),
                              {"kind": "relay", "version": version, "action": action, "request": req, "response": resp})
                continue
            with (decimal.localcontext(decimal.Context(**ctx)) if ctx else contextlib.nullcontext()):
                res = N.run_relay(version, action, obj, lambda kw, _v=version, _a=action, _s=sresp: N.make_result(_v, _a, _s, False))
            rep.count(json.dumps([version, action, req, resp, ctx], default=repr, sort_keys=True))
            replay = {"kind": "relay", "version": version, "action": action, "request": req, "response": resp, "decimal_context": ctx,
                      "observation": {h: {k: (v if k != "outcome" else (v[:3] if v else v)) for k, v in res[h].items()} for h in ("hop1", "hop2")}}
            bad = []
            h1, h2 = res["hop1"], res["hop2"]
            if h1["kwargs"] is None:
                bad.append(("first-hop", "the relaying handler did not run: %r" % (h1["outcome"][:3],)))
            elif h2["call"] is None:
                bad.append(("second-hop-not-sent", "the relayed request was not written; the first caller got %r" % (h1["outcome"][:3],)))
            else:
                p1, p2 = json.loads(h1["call"])[3], json.loads(h2["call"])[3]
                if not O.same_value(p2, p1):
                    bad.append(("second-hop:" + ",".join(O.diff_desc(p2, p1))[:120], "the relayed request %r differs from the original %r" % (p2, p1)))
                if h2["kwargs"] is None or not O.same_value(h2["kwargs"], h1["kwargs"]):
                    bad.append(("third-endpoint", "the third endpoint's handler received %r, the relay had %r" % (h2["kwargs"], h1["kwargs"])))
            oc = h1["outcome"]
            if oc[0] != "result":
                bad.append(("relay-outcome:" + oc[0], "the first caller's call() ended with %r" % (oc[:3],)))
            elif not O.same_value(oc[1], sresp):
                bad.append(("relay-result:" + ",".join(O.diff_desc(oc[1], sresp))[:120], "the first caller got %r, the third endpoint returned %r" % (oc[1], sresp)))
            elif h1["reply"] is not None and h2["reply"] is not None and not O.same_value(json.loads(h1["reply"])[2], json.loads(h2["reply"])[2]):
                bad.append(("reply-changed", "the CALLRESULT to the first caller differs from the third endpoint's"))
            for key, what in bad:
                rep.violation("C19:%s:%s:%s%s" % (key, version, action, ":application-decimal-context" if ctx else ""), what, replay)
            if ctx:
                continue            # the model has no application context: these exchanges are judged by the oracles above
            try:
                import dataclasses
                terms.append("mkRL %s (HRet %s) %s %s %s %s" % (
                    "V16" if version == "1.6" else "V201", C.cjson(sresp), C.cs(action),
                    C.cjson(json.loads(json.dumps(dataclasses.asdict(obj)))), N.cnobs(h1), N.cnobs(h2)))
                meta.append(replay)
            except (TypeError, ValueError):
                rep.add("unrepresentable")
        if support_ok:
            shard = 30
            shards = [N.HEADER + "Definition cases : list rlcase := %s.\nEval vm_compute in rldisagreements cases.\n" % C.clist(
                ["\n" + t for t in terms[i:i + shard]]) for i in range(0, len(terms), shard)]
            outs = C.coq_eval_shards("C19", shards)
            broken = []
            for si, (idx, out) in enumerate(outs):
                if idx is None:
                    rep.violation("C19:correspondence:relay:shard-failed", "the relay correspondence could not be evaluated in Coq",
                                  {"kind": "correspondence", "correspondence": "relay", "coq_output": out[-3000:],
                                   "theorem": "relay correspondence (Model/Net.v vs three real endpoints)"}, found_input=False)
                    continue
                broken += [si * shard + i for i in idx]
            if broken and not any(v[2] for v in rep.violations):
                rep.violation("C19:corr:relay", "model and implementation disagree on %d relayed exchange(s)" % len(broken),
                              {"kind": "correspondence", "correspondence": "relay", "cases": [meta[i] for i in broken[:3]],
                               "theorem": "relay correspondence (Model/Net.v vs three real endpoints)"}, found_input=False)
        # 'validation accepts it' whatever the process validated before: fresh interpreters, either order
        from harness.props import c04
        c04.cold_orders(rep, PROP)
        if meta:
            rep.sample({k: meta[0][k] for k in ("version", "action", "request", "response")})
    return body


def run(rep, tier, seed):
    return C.standard_run(rep, PROP, ["Model/CaseNet.vo"], [body_factory(tier, seed + 1000 * i) for i in range(3 if tier == "thorough" else 1)], rule=(
        "for every one of the 103 (version, action) pairs: schema-valid requests and responses (more of them for the three "
        "decimal-validated 1.6 messages, in both directions) sent by A to B, whose handler builds call.<Action>(**kwargs) from "
        "exactly the keywords it received and call()s C, returning C's result object as its own; three real endpoints, four "
        "real receive loops; observed: both CALL frames, both handlers' keywords, both replies, A's result"))


def replay(d):
    if d.get("kind") == "cold-order":
        from harness.props import c04
        return c04.replay_cold(d)
    sreq, sresp = GD.snake(d["request"]), GD.snake(d["response"])
    obj = N.make_request(d["version"], d["action"], sreq, False)
    import contextlib
    import decimal
    with (decimal.localcontext(decimal.Context(**d["decimal_context"])) if d.get("decimal_context") else contextlib.nullcontext()):
        res = N.run_relay(d["version"], d["action"], obj, lambda kw: N.make_result(d["version"], d["action"], sresp, False))
    print({h: {k: (v if k != "outcome" else (v[:3] if v else v)) for k, v in res[h].items()} for h in ("hop1", "hop2")})
    ok = res["hop1"]["outcome"][0] == "result" and O.same_value(res["hop1"]["outcome"][1], sresp) and res["hop2"]["call"] is not None \
        and O.same_value(json.loads(res["hop2"]["call"])[3], json.loads(res["hop1"]["call"])[3])
    print("HOLDS" if ok else "FAILS")
    return 0 if ok else 1
