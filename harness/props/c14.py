"""C14 -- OCPP 1.6 one-decimal quantities judged by decimal digits, not binary form."""
import copy
import decimal
import json
import multiprocessing
import os
import random

from harness import common as C
from harness import gen_instances as G
from harness import verdict as V

PROP = "C14"

POSITIONS = [
    ("Call", "SetChargingProfile", ("csChargingProfiles", "chargingSchedule", "chargingSchedulePeriod", 0, "limit")),
    ("Call", "SetChargingProfile", ("csChargingProfiles", "chargingSchedule", "minChargingRate")),
    ("Call", "RemoteStartTransaction", ("chargingProfile", "chargingSchedule", "chargingSchedulePeriod", 0, "limit")),
    ("Call", "RemoteStartTransaction", ("chargingProfile", "chargingSchedule", "minChargingRate")),
    ("CallResult", "GetCompositeSchedule", ("chargingSchedule", "chargingSchedulePeriod", 0, "limit")),
    ("CallResult", "GetCompositeSchedule", ("chargingSchedule", "minChargingRate")),
]


def base_payload(mtype, action):
    s = G.load_schemas("v16")
    name = action + "Response" if mtype == "CallResult" else action
    return G.valid_value(s[name], s[name], "plain", random.Random(0), "all")


def set_at(payload, path, v):
    p = copy.deepcopy(payload)
    cur = p
    for k in path[:-1]:
        cur = cur[k]
    cur[path[-1]] = v
    return p


def frac_digits(x):
    """fractional digits of the shortest decimal form of a float / of an int / of a Decimal"""
    if isinstance(x, int):
        return 0
    d = x if isinstance(x, decimal.Decimal) else decimal.Decimal(repr(x))
    return max(0, -d.normalize().as_tuple().exponent)


def judge(mtype, action, path, base, x):
    """(verdict, wire_ok) for value x at the position, through the real validation and to_json."""
    from ocpp.exceptions import OCPPError
    from ocpp.messages import Call, CallResult, _validate_payload
    p = set_at(base, path, x)
    msg = Call("i", action, p) if mtype == "Call" else CallResult("i", p, action)
    try:
        _validate_payload(msg, "1.6")
    except OCPPError as e:
        return ("reject", e.code), True
    except Exception as e:  # noqa: BLE001
        return ("crash", type(e).__name__), True
    txt = msg.to_json()
    back = json.loads(txt, parse_float=decimal.Decimal)
    payload = back[3] if mtype == "Call" else back[2]
    cur = payload
    for k in path:
        cur = cur[k]
    want = decimal.Decimal(repr(x)) if isinstance(x, float) else x
    same = (cur == want) and (isinstance(cur, int) == isinstance(x, int))
    if isinstance(x, decimal.Decimal) and x == x.to_integral_value() and isinstance(cur, decimal.Decimal):
        same = cur == want
    return ("accept", None), same


def class_path_object(mtype, action, base, path, x):
    """the payload as an object built from the 1.6 request/response class with nested v16 data-type objects
    (ChargingProfile / ChargingSchedule / ChargingSchedulePeriod), value x at the position"""
    from ocpp.charge_point import camel_to_snake_case
    from ocpp.v16 import call, call_result, datatypes as dt
    p = camel_to_snake_case(set_at(base, path, x))

    def sched(d):
        d = dict(d)
        d["charging_schedule_period"] = [dt.ChargingSchedulePeriod(**pp) for pp in d["charging_schedule_period"]]
        return dt.ChargingSchedule(**d)

    def profile(d):
        d = dict(d)
        d["charging_schedule"] = sched(d["charging_schedule"])
        return dt.ChargingProfile(**d)
    p = dict(p)
    if action == "SetChargingProfile":
        p["cs_charging_profiles"] = profile(p["cs_charging_profiles"])
        return call.SetChargingProfile(**p)
    if action == "RemoteStartTransaction":
        p["charging_profile"] = profile(p["charging_profile"])
        return call.RemoteStartTransaction(**p)
    p["charging_schedule"] = sched(p["charging_schedule"])
    return call_result.GetCompositeSchedule(**p)


def judge_class_path(mtype, action, path, base, x):
    """as judge(), but the payload comes from data-type objects and goes through the library's own
    serialisation (serialize_as_dict, snake_to_camel_case, remove_nones)"""
    from ocpp.charge_point import remove_nones, serialize_as_dict, snake_to_camel_case
    from ocpp.exceptions import OCPPError
    from ocpp.messages import Call, CallResult, _validate_payload
    obj = class_path_object(mtype, action, base, path, x)
    wire = remove_nones(snake_to_camel_case(serialize_as_dict(obj)))
    msg = Call("i", action, wire) if mtype == "Call" else CallResult("i", wire, action)
    try:
        _validate_payload(msg, "1.6")
    except OCPPError as e:
        return ("reject", e.code), True
    except Exception as e:  # noqa: BLE001
        return ("crash", type(e).__name__), True
    back = json.loads(msg.to_json(), parse_float=decimal.Decimal)
    cur = back[3] if mtype == "Call" else back[2]
    try:
        for k in path:
            cur = cur[k]
    except (KeyError, IndexError, TypeError):
        return ("accept", None), False            # the value is not on the wire at all
    want = decimal.Decimal(repr(x)) if isinstance(x, float) else x
    return ("accept", None), (cur == want and isinstance(cur, int) == isinstance(x, int))


def sweep_worker(args):
    os.environ.setdefault("PYTHONHASHSEED", "0")
    pos_i, values = args
    mtype, action, path = POSITIONS[pos_i]
    base = base_payload(mtype, action)
    dev = []
    n = 0
    for x in values:
        v, wire_ok = judge(mtype, action, path, base, x)
        n += 1
        fd = frac_digits(x)
        want = "accept" if fd <= 1 else "reject"
        if v[0] != want or (want == "reject" and v[1] != "FormatViolation") or not wire_ok:
            dev.append((x, v, wire_ok))
            if len(dev) > 20:
                break
    return pos_i, n, dev


def value_sets(tier, seed, pos_i):
    rng = random.Random(seed * 1009 + pos_i)
    full = tier == "thorough" or pos_i == (seed % 6)
    K = 100000 if full else 3000
    vals = [k / 10 for k in range(-K, K + 1)]
    H = 20000 if full else 1500
    vals += [k / 100 for k in range(-H, H + 1) if k % 10]
    vals += [k / 1000 for k in range(-H, H + 1) if k % 100]
    vals += list(range(-50, 51)) + [10 ** j for j in range(9)] + [-(10 ** j) for j in range(9)] + [999999999, -999999999]
    for _ in range(2000 if full else 300):
        mag = 10 ** rng.randrange(0, 9)
        vals.append(rng.randrange(-mag * 10, mag * 10) / 10)
        q = rng.randrange(-mag * 100, mag * 100)
        if q % 10:
            vals.append(q / 100)
    # the binary neighbours of the one-decimal numbers, and what float arithmetic makes of one-decimal operands
    # (1.1 + 2.2 = 3.3000000000000003): many digits, so rejected -- "judged by decimal digits, not binary form"
    import math
    for k in list(range(-400, 401)) + [rng.randrange(-10 ** 7, 10 ** 7) for _ in range(600 if full else 150)]:
        for y in (math.nextafter(k / 10, math.inf), math.nextafter(k / 10, -math.inf)):
            if frac_digits(y) > 1:
                vals.append(y)
    for _ in range(800 if full else 200):
        a, b = rng.randrange(-5000, 5000) / 10, rng.randrange(-5000, 5000) / 10
        for y in (a + b, a - b, a * 3, a / 10 * 10, a * 0.1 * 10):
            if abs(y) < 1e9:
                vals.append(y)
    # values that are already exact decimals (what the library itself hands to handlers and callers)
    D = decimal.Decimal
    for _ in range(600 if full else 200):
        k = rng.randrange(-200000, 200000)
        vals.append(D(k) / 10)
        if k % 10:
            vals.append(D(k) / 100)
        if k % 100:
            vals.append(D(k) / 1000)
    vals += [D("21.4"), D("0.15"), D("2.675"), D("16.05"), D("0.1"), D("-0.05"), D("1E+2"), D("3")]
    return vals


ENDPOINT_FIRST = r"""
import json, sys
sys.path.insert(0, sys.argv[1])
from ocpp.routing import on
from ocpp.v16 import ChargePoint, call_result
from ocpp.messages import Call, CallResult, _validate_payload
from ocpp.exceptions import OCPPError


class Conn:
    async def send(self, m):
        pass

    async def recv(self):
        raise ConnectionError()


class CS(ChargePoint):
    @on("SetChargingProfile")
    def a(self, **kw):
        return call_result.SetChargingProfile(status="Accepted")

    @on("RemoteStartTransaction")
    def b(self, **kw):
        return call_result.RemoteStartTransaction(status="Accepted")

    @on("GetCompositeSchedule")
    def c(self, **kw):
        return call_result.GetCompositeSchedule(status="Accepted")


cp = CS("cs", Conn())          # an endpoint with handlers for the three messages exists BEFORE anything is validated


def v(mtype, action, payload):
    msg = Call("i", action, payload) if mtype == "Call" else CallResult("i", payload, action)
    try:
        _validate_payload(msg, "1.6")
        return "accept"
    except OCPPError as e:
        return "reject:" + type(e).__name__
    except Exception as e:
        return "crash:" + type(e).__name__
print(json.dumps([v(*x) for x in json.loads(sys.argv[2])]))
"""


def endpoint_first(rep):
    """the same judgement in a FRESH interpreter in which an endpoint with handlers for the three messages is
    constructed before the first validation (whatever an endpoint prepares at construction must not decide how
    numbers are judged later)"""
    import os
    import subprocess
    vals = [21.4, 0.5, 16, 0.1, 21.45, 4.11, 99999.9]
    reqs, want = [], []
    for (mtype, action, path) in POSITIONS:
        base = base_payload(mtype, action)
        for x in vals:
            reqs.append([mtype, action, set_at(base, path, x)])
            want.append("accept" if frac_digits(x) <= 1 else "reject:FormatViolationError")
    pr = subprocess.run([C.PY, "-c", ENDPOINT_FIRST, C.REPO, json.dumps(reqs)], capture_output=True, text=True, timeout=120,
                        env=dict(os.environ, PYTHONHASHSEED="0", PYTHONPATH=C.REPO))
    try:
        got = json.loads(pr.stdout.strip().splitlines()[-1])
    except (ValueError, IndexError):
        got = ["no output: " + pr.stderr[-300:]] * len(want)
    for (r, g, w) in zip(reqs, got, want):
        rep.count("endpoint-first:%s:%s:%s" % (r[0], r[1], json.dumps(r[2])[-60:]))
        if g != w:
            x = None
            rep.violation("C14:endpoint-first:%s:%s:%s" % (r[0], r[1], w),
                          "with an endpoint (handlers for the three messages) constructed before the first validation, 1.6 %s %s "
                          "is judged %s, expected %s" % (r[0], r[1], g, w),
                          {"kind": "endpoint-first", "mtype": r[0], "action": r[1], "payload": r[2], "verdict": g, "expected": w})
    rep.coverage["endpoint_first_evaluations"] = len(reqs)


AMBIENT = {"prec=6": dict(prec=6), "prec=3": dict(prec=3), "prec=6, nothing trapped": dict(prec=6, traps=[]),
           "rounding down, prec=9": dict(prec=9, rounding=decimal.ROUND_DOWN), "Emax=5": dict(Emax=5, Emin=-5),
           "prec=50": dict(prec=50)}


def judge_public(mtype, action, path, base, x, async_validation, ctx_kwargs):
    """the verdict of the public coroutine validate_payload() for value x at the position, called while the application's
    current decimal context is Context(**ctx_kwargs); inline or through the executor"""
    import asyncio
    import ocpp.messages as M
    from ocpp.exceptions import OCPPError
    from ocpp.messages import Call, CallResult, validate_payload
    p = set_at(base, path, x)
    msg = Call("i", action, p) if mtype == "Call" else CallResult("i", p, action)

    async def go():
        with decimal.localcontext(decimal.Context(**ctx_kwargs)):
            try:
                await validate_payload(msg, "1.6")
                # ... and the accepted value is WRITTEN with its digits under that context too
                try:
                    back = json.loads(msg.to_json(), parse_float=decimal.Decimal)
                    cur = back[3] if mtype == "Call" else back[2]
                    for k in path:
                        cur = cur[k]
                    want = decimal.Decimal(repr(x)) if isinstance(x, float) else x
                    if cur != want:
                        return ("accept", "written as %s" % cur)
                except Exception as e:  # noqa: BLE001
                    return ("accept", "to_json raised %s" % type(e).__name__)
                return ("accept", None)
            except OCPPError as e:
                return ("reject", e.code)
            except Exception as e:  # noqa: BLE001
                return ("crash", type(e).__name__)
    old = M.ASYNC_VALIDATION
    M.ASYNC_VALIDATION = async_validation
    try:
        return asyncio.run(go())
    finally:
        M.ASYNC_VALIDATION = old


def ambient_contexts(rep):
    """'judged by decimal digits': the judgement is the library's own exact arithmetic and not whatever precision,
    rounding or exponent range the APPLICATION has configured in the decimal module for its own sums -- inline and
    when the validation is handed to a worker thread"""
    vals = [21.4, 100000.0, 150000.5, 999999999.9, 1234567.8, 0.1, 16, 250000, 21.45, 100000.05, 0.15, 1234567.89]
    n = 0
    for name, kw in AMBIENT.items():
        for pos_i, (mtype, action, path) in enumerate(POSITIONS):
            base = base_payload(mtype, action)
            for x in vals[pos_i % 2::2] if pos_i else vals:
                for flag in (False, True):
                    v = judge_public(mtype, action, path, base, x, flag, kw)
                    n += 1
                    rep.count("ambient:%s:%d:%r:%s" % (name, pos_i, x, flag))
                    fd = frac_digits(x)
                    want = ("accept", None) if fd <= 1 else ("reject", "FormatViolation")
                    if v != want:
                        rep.violation("C14:ambient-context:%s:%s:%s" % (name, "executor" if flag else "inline", want[0]),
                                      "with the application's decimal context set to Context(%s), value %r (%d fractional digit(s)) in %s %s %s "
                                      "is judged %r %s, expected %r" % (", ".join("%s=%r" % kv for kv in kw.items()), x, fd, mtype, action,
                                                                       "/".join(map(str, path)), v, "in the executor" if flag else "inline", want),
                                      {"kind": "ambient-context", "context": name, "mtype": mtype, "action": action, "path": list(path),
                                       "value": x, "async_validation": flag, "verdict": list(v), "expected": list(want)})
    # the process-wide TEMPLATE context (decimal.DefaultContext), which applications are documented to adjust before they
    # start threads: the library's arithmetic does not take its precision from there either
    saved = decimal.DefaultContext.prec
    decimal.DefaultContext.prec = 6
    try:
        for pos_i, (mtype, action, path) in enumerate(POSITIONS):
            base = base_payload(mtype, action)
            for x in (100000.0, 1234567.8, 21.4, 100000.05):
                for flag in (False, True):
                    v = judge_public(mtype, action, path, base, x, flag, {})
                    n += 1
                    rep.count("default-context:%d:%r:%s" % (pos_i, x, flag))
                    want = ("accept", None) if frac_digits(x) <= 1 else ("reject", "FormatViolation")
                    if v != want:
                        rep.violation("C14:ambient-context:DefaultContext.prec=6:%s:%s" % ("executor" if flag else "inline", want[0]),
                                      "with decimal.DefaultContext.prec = 6 (and the current context derived from it), value %r in %s %s %s is "
                                      "judged %r %s, expected %r" % (x, mtype, action, "/".join(map(str, path)), v,
                                                                    "in the executor" if flag else "inline", want),
                                      {"kind": "ambient-context", "context": "DefaultContext.prec=6", "mtype": mtype, "action": action,
                                       "path": list(path), "value": x, "async_validation": flag, "verdict": list(v), "expected": list(want)})
    finally:
        decimal.DefaultContext.prec = saved
    rep.coverage["ambient_context_evaluations"] = n


def body_factory(tier, seed):
    def body(rep, support_ok):
        jobs = []
        for pos_i in range(6):
            vals = value_sets(tier, seed, pos_i)
            chunk = 20000
            for i in range(0, len(vals), chunk):
                jobs.append((pos_i, vals[i:i + chunk]))
        with multiprocessing.get_context("fork").Pool(min(16, os.cpu_count() or 4)) as pool:
            results = pool.map(sweep_worker, jobs)
        per = {}
        for pos_i, n, dev in results:
            per[pos_i] = per.get(pos_i, 0) + n
            mtype, action, path = POSITIONS[pos_i]
            for (x, v, wire_ok) in dev[:3]:
                what = ("value %r (shortest form has %d fractional digits) in %s %s %s: %s%s" % (
                    x, frac_digits(x), mtype, action, "/".join(map(str, path)), v,
                    "" if wire_ok else "; written with different digits"))
                rep.violation("C14:%s:%s:%s:%r" % (mtype, action, path[-1], x), what,
                              {"kind": "tenth", "mtype": mtype, "action": action, "path": list(path), "value": x,
                               "value_is_decimal": isinstance(x, decimal.Decimal), "implementation": v, "wire_same_digits": wire_ok})
        # the same judgement when the value travels inside the 1.6 data-type classes
        rng2 = random.Random(seed + 77)
        n_cls = 0
        for pos_i, (mtype, action, path) in enumerate(POSITIONS):
            base = base_payload(mtype, action)
            vals = [21.4, 21.45, 0.15, 4.11, 16.05, 7, 0.3, 100.01, 2.675, -0.1, 99999999.9, 0, 0.0, 0.1, 1]
            vals += [rng2.randrange(-99999, 99999) / 10 for _ in range(40)] + [rng2.randrange(-99999, 99999) / 100 for _ in range(40)]
            for x in vals:
                v, wire_ok = judge_class_path(mtype, action, path, base, x)
                n_cls += 1
                fd = frac_digits(x)
                want = "accept" if fd <= 1 else "reject"
                if v[0] != want or (want == "reject" and v[1] != "FormatViolation") or not wire_ok:
                    rep.violation("C14:class-path:%s:%s:%s:%r" % (mtype, action, path[-1], x),
                                  "value %r (%d fractional digits) given through the v16 data-type classes in %s %s %s: %s%s" % (
                                      x, fd, mtype, action, "/".join(map(str, path)), v, "" if wire_ok else "; written with different digits"),
                                  {"kind": "tenth-class-path", "mtype": mtype, "action": action, "path": list(path), "value": x,
                                   "implementation": v, "wire_same_digits": wire_ok})
        rep.coverage["class_path_evaluations"] = n_cls
        endpoint_first(rep)
        ambient_contexts(rep)
        from harness.props import c04
        c04.cold_orders(rep, PROP)
        total = sum(per.values()) + n_cls
        rep.coverage["evaluations"] += total
        rep.coverage["sweep_per_position"] = {"/".join([POSITIONS[i][1]] + [str(x) for x in POSITIONS[i][2]]): per[i] for i in per}
        rep.coverage["exhaustive_tenths"] = "k/10 for |k| <= 100000 in %s position(s), |k| <= 3000 in the others" % (
            "all six" if tier == "thorough" else "one (rotating with the seed)")
        if not support_ok:
            return
        # the model itself on a stratified sample of the sweep, in all six positions
        rng = random.Random(seed)
        rows = []
        for pos_i, (mtype, action, path) in enumerate(POSITIONS):
            base = base_payload(mtype, action)
            vals = value_sets("quick", seed + 1, pos_i)
            sample = rng.sample(vals, 150 if tier == "quick" else 1200) + [decimal.Decimal("0.15"), decimal.Decimal("21.4"), decimal.Decimal("2.675"), 21.4, 16.1, 0.1, 0.3, 4.11, 0.15, 100.01, 1e8 + 0.1,
                                                                           123456789.1, 500000000, 99999999.95, 0.30000000000000004]
            for x in sample:
                fd = frac_digits(x)
                rows.append(("1.6", mtype, action, "tenth", set_at(base, path, x),
                             [("/".join(map(str, path)), "multipleOf")] if fd > 1 else []))
        V.run_correspondence(rep, rows, "C14", PROP, check_codes=True)
        rep.sample({"position": "/".join([POSITIONS[0][1]] + [str(x) for x in POSITIONS[0][2]]), "values": [21.4, 4.11, -0.1, 7]})
    return body


def run(rep, tier, seed):
    return C.standard_run(rep, PROP, ["Model/CaseVerdict.vo"], [body_factory(tier, seed + 1000 * i) for i in range(3 if tier == "thorough" else 1)], rule=(
        "exhaustive sweep through the real validation and to_json: k/10 for |k| <= 100000, k/100 and k/1000 (not multiples "
        "of 0.1) for |k| <= 20000, integers, sampled magnitudes up to 1e9 -- in all six multipleOf positions (thorough) or "
        "one full + five reduced (quick); expectation from the proved closed form (accept iff <= 1 fractional digit); the "
        "model itself evaluated on a stratified sample in all positions; distinct by (position, value)"), exhaustive=True)


def replay(d):
    if d.get("kind") == "cold-order":
        from harness.props import c04
        return c04.replay_cold(d)
    mtype, action, path, x = d["mtype"], d["action"], tuple(d["path"]), d["value"]
    if d.get("kind") == "ambient-context" and d["context"].startswith("DefaultContext"):
        saved = decimal.DefaultContext.prec
        decimal.DefaultContext.prec = 6
        try:
            v = judge_public(mtype, action, path, base_payload(mtype, action), x, d["async_validation"], {})
        finally:
            decimal.DefaultContext.prec = saved
        print("with DefaultContext.prec = 6: %r, expected %r" % (v, tuple(d["expected"])))
        print("HOLDS" if list(v) == d["expected"] else "FAILS")
        return 0 if list(v) == d["expected"] else 1
    if d.get("kind") == "ambient-context":
        v = judge_public(mtype, action, path, base_payload(mtype, action), x, d["async_validation"], AMBIENT[d["context"]])
        print("under the application context %s: %r, expected %r" % (d["context"], v, tuple(d["expected"])))
        print("HOLDS" if list(v) == d["expected"] else "FAILS")
        return 0 if list(v) == d["expected"] else 1
    if d.get("kind") == "endpoint-first":
        import os
        import subprocess
        pr = subprocess.run([C.PY, "-c", ENDPOINT_FIRST, C.REPO, json.dumps([[d["mtype"], d["action"], d["payload"]]])],
                            capture_output=True, text=True, timeout=120, env=dict(os.environ, PYTHONHASHSEED="0", PYTHONPATH=C.REPO))
        got = json.loads(pr.stdout.strip().splitlines()[-1])[0] if pr.stdout.strip() else pr.stderr[-200:]
        print("verdict with an endpoint constructed first:", got, "expected:", d["expected"])
        print("HOLDS" if got == d["expected"] else "FAILS")
        return 0 if got == d["expected"] else 1
    if d.get("kind") == "tenth-class-path":
        v, wire_ok = judge_class_path(mtype, action, path, base_payload(mtype, action), x)
        fd = frac_digits(x)
        print("value %r via the data-type classes: %d fractional digits -> %s, wire digits same: %s" % (x, fd, v, wire_ok))
        ok = v[0] == ("accept" if fd <= 1 else "reject") and wire_ok
        print("HOLDS" if ok else "FAILS")
        return 0 if ok else 1
    if d.get("value_is_decimal"):
        x = decimal.Decimal(str(x).replace("Decimal('", "").replace("')", ""))
    v, wire_ok = judge(mtype, action, path, base_payload(mtype, action), x)
    fd = frac_digits(x)
    print("value %r: %d fractional digits -> %s, wire digits same: %s" % (x, fd, v, wire_ok))
    ok = v[0] == ("accept" if fd <= 1 else "reject") and wire_ok
    print("HOLDS" if ok else "FAILS")
    return 0 if ok else 1
