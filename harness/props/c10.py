"""C10 -- name mapping is a bijection on the whole OCPP vocabulary."""
import dataclasses
import glob
import inspect
import json
import keyword
import os

from harness import common as C


class _ListSub(list):
    pass


def schema_positions(version_dir):
    """[(file, path, [property names])] for every object position of every schema file,
    definitions included -- read straight from the JSON files, independent of the translator."""
    out = []
    for f in sorted(glob.glob(os.path.join(C.REPO, "ocpp", version_dir, "schemas", "*.json"))):
        s = json.load(open(f, encoding="utf-8-sig"))

        def walk(x, path):
            if isinstance(x, dict):
                if isinstance(x.get("properties"), dict):
                    out.append((os.path.basename(f), path, list(x["properties"].keys())))
                    for k, v in x["properties"].items():
                        walk(v, path + "/" + k)
                if isinstance(x.get("items"), dict):
                    walk(x["items"], path + "/[]")
                if isinstance(x.get("definitions"), dict):
                    for k, v in x["definitions"].items():
                        walk(v, path + "#" + k)
        walk(s, "")
    return out


def class_fields():
    import importlib
    rows = []
    for pkg in ("v16", "v201"):
        for modname in ("call", "call_result", "datatypes"):
            m = importlib.import_module("ocpp.%s.%s" % (pkg, modname))
            for name, cls in inspect.getmembers(m, inspect.isclass):
                if cls.__module__ == m.__name__ and dataclasses.is_dataclass(cls):
                    rows.append((pkg, modname, name, [f.name for f in dataclasses.fields(cls)]))
    return rows


def impl_c2s(n):
    from ocpp.charge_point import camel_to_snake_case
    return list(camel_to_snake_case({n: 0}).keys())[0]


def impl_s2c(n):
    from ocpp.charge_point import snake_to_camel_case
    return list(snake_to_camel_case({n: 0}).keys())[0]


def top_schema_props(pkg, modname, name):
    suffix = {"v16": {"call": "", "call_result": "Response"},
              "v201": {"call": "Request", "call_result": "Response"}}[pkg][modname]
    p = os.path.join(C.REPO, "ocpp", pkg, "schemas", name + suffix + ".json")
    if not os.path.exists(p):
        return None
    return list(json.load(open(p, encoding="utf-8-sig")).get("properties", {}).keys())


def oracle(rep):
    """The property, stated directly on the implementation, over the complete finite domain."""
    pos = {v: schema_positions(v) for v in ("v16", "v201")}
    vocab = sorted({n for v in pos for (_, _, names) in pos[v] for n in names})
    for n in vocab:
        s = impl_c2s(n)
        back = impl_s2c(s)
        rep.count("rt:" + n)
        if back != n:
            rep.violation("C10:roundtrip:" + n, "property name %r -> %r -> %r does not round-trip" % (n, s, back),
                          {"kind": "name", "name": n, "snake": s, "back": back, "theorem": "C10_roundtrip"})
        if not (s.isidentifier() and s == s.lower() and s.isascii() and not keyword.iskeyword(s)):
            rep.violation("C10:identifier:" + n, "snake_case form %r of %r is not a lower-case identifier" % (s, n),
                          {"kind": "name", "name": n, "snake": s, "theorem": "C10_roundtrip"})
    for v in pos:
        for (f, path, names) in pos[v]:
            snakes = [impl_c2s(n) for n in names]
            rep.count("inj:%s:%s:%s" % (v, f, path))
            if len(set(snakes)) != len(set(names)):
                dup = sorted(n for n in names if snakes.count(impl_c2s(n)) > 1)
                rep.violation("C10:collision:%s:%s:%s" % (v, f, path),
                              "properties %r of one object share a snake_case name" % (dup,),
                              {"kind": "position", "version": v, "file": f, "path": path, "names": dup,
                               "theorem": "C10_injective"})
    # whole documents: a skeleton with EVERY property at EVERY depth of every schema file, converted as a whole
    # (the functions recurse; a name may be treated differently inside a particular parent)
    from ocpp.charge_point import camel_to_snake_case, snake_to_camel_case
    n_docs = 0
    for v in pos:
        for f in sorted(glob.glob(os.path.join(C.REPO, "ocpp", v, "schemas", "*.json"))):
            root = json.load(open(f, encoding="utf-8-sig"))

            def skel(x, depth=0):
                while isinstance(x, dict) and "$ref" in x:
                    x = root.get("definitions", {})[x["$ref"].split("/")[-1]]
                if not isinstance(x, dict) or depth > 12:
                    return 0
                if isinstance(x.get("properties"), dict):
                    return {k: skel(sub, depth + 1) for k, sub in x["properties"].items()}
                if isinstance(x.get("items"), dict):
                    return [skel(x["items"], depth + 1)]
                return 0

            def keys_at(d, path=""):
                if isinstance(d, dict):
                    yield path, list(d.keys())
                    for k, sub in d.items():
                        yield from keys_at(sub, path + "/" + str(k))
                elif isinstance(d, list):
                    for i, sub in enumerate(d):
                        yield from keys_at(sub, path + "/[]")
            doc = skel(root)
            if not isinstance(doc, dict):
                continue
            fn = os.path.basename(f)

            def thin(x, keep):
                """the same document with only the leaves `keep` selects (containers always stay): objects all of whose
                own names are single words, or that hold one property only, above objects with multi-word names"""
                if isinstance(x, dict):
                    return {k: thin(sub, keep) for i, (k, sub) in enumerate(x.items()) if isinstance(sub, (dict, list)) or keep(i, k)}
                if isinstance(x, list):
                    return [thin(sub, keep) for sub in x]
                return x
            def upper(x, d):
                """only single-word names in the upper d levels, everything below them"""
                if isinstance(x, dict):
                    return {k: upper(sub, d - 1) for k, sub in x.items() if d <= 0 or k == k.lower()}
                if isinstance(x, list):
                    return [upper(sub, d) for sub in x]
                return x
            variants = [("full", doc), ("single-word-leaves", thin(doc, lambda i, k: k == k.lower())),
                        ("no-leaves", thin(doc, lambda i, k: False)), ("even-leaves", thin(doc, lambda i, k: i % 2 == 0)),
                        ("multi-word-leaves", thin(doc, lambda i, k: k != k.lower()))] + [
                            ("single-word-names-in-the-upper-%d-levels" % d, upper(doc, d)) for d in (1, 2, 3, 4)]

            def subclassed(x, top=True):
                """the same document held in mapping / sequence SUBCLASSES below the top level (OrderedDict from
                json.loads(object_pairs_hook=...), list subclasses of application frameworks)"""
                import collections
                if isinstance(x, dict):
                    items = [(k, subclassed(sub, False)) for k, sub in x.items()]
                    return dict(items) if top else collections.OrderedDict(items)
                if isinstance(x, list):
                    return _ListSub(subclassed(sub, False) for sub in x)
                return x

            def reversed_order(x):
                if isinstance(x, dict):
                    return {k: reversed_order(sub) for k, sub in reversed(list(x.items()))}
                if isinstance(x, list):
                    return [reversed_order(sub) for sub in x]
                return x
            variants += [("mapping-subclasses", doc), ("members-in-reverse-order", reversed_order(doc))]
            for (vname, doc) in variants:
                if vname not in ("full", "mapping-subclasses") and doc == variants[0][1]:
                  continue
                n_docs += 1
                rep.count("doc:%s:%s:%s" % (v, fn, vname))
                if vname == "mapping-subclasses":
                    sn = camel_to_snake_case(subclassed(doc))
                    back = snake_to_camel_case(subclassed(sn))
                else:
                    sn = camel_to_snake_case(doc)
                    back = snake_to_camel_case(sn)
                if vname != "full":
                  fn = fn.split(" ")[0] + " (%s)" % vname
                a, b = dict(keys_at(doc)), {}
                # positions are named by the ORIGINAL path: walk the converted documents in parallel
                def par(x, y, path=""):
                    if isinstance(x, dict) and isinstance(y, dict):
                        yield path, list(x.keys()), list(y.keys())
                        for (k, sub), (k2, sub2) in zip(x.items(), y.items()):
                            yield from par(sub, sub2, path + "/" + str(k))
                    elif isinstance(x, list) and isinstance(y, list):
                        for sub, sub2 in zip(x, y):
                            yield from par(sub, sub2, path + "/[]")
                for path, orig, conv in par(doc, back):
                    if orig != conv:
                        rep.violation("C10:doc-roundtrip:%s:%s:%s" % (v, fn, path),
                                      "schema %s, object at %s: names %r come back as %r when the whole document is converted" % (
                                          fn, path or "/", orig, conv),
                                      {"kind": "document", "version": v, "file": fn, "path": path, "names": orig, "back": conv,
                                       "theorem": "C10_roundtrip (whole documents: Names.rekey)"})
                for path, orig, conv in par(doc, sn):
                    badk = [k for k in conv if not (isinstance(k, str) and k.isidentifier() and k == k.lower() and k.isascii()
                                                    and not keyword.iskeyword(k))]
                    if badk or len(set(conv)) != len(set(orig)):
                        rep.violation("C10:doc-identifier:%s:%s:%s" % (v, fn, path),
                                      "schema %s, object at %s: converted as part of the whole document the names become %r" % (fn, path or "/", conv),
                                      {"kind": "document", "version": v, "file": fn, "path": path, "names": orig, "snake": conv,
                                       "theorem": "C10_roundtrip / C10_injective (whole documents)"})
    rep.coverage["whole_documents"] = n_docs
    # data types AT THE POSITIONS where the payload classes use them (walk from each request / response class through
    # its annotations into the schema node of that position)
    from harness import tables as T
    for pkg in ("v16", "v201"):
        probs, _ = T.walk(pkg)
        rep.count("position-walk:" + pkg)
        for pr in probs:
            if pr[0] == "nested-field":
                rep.violation("C10:nested-field:%s:%s" % (pkg, ":".join(map(str, pr[1:]))),
                              "%s %s.%s: the data type %s used at that position has the field %s, whose camelCase form the "
                              "schema does not define there" % (pkg, pr[1], pr[2], pr[3], pr[4]),
                              {"kind": "position", "package": pkg, "class": pr[1], "field": pr[2], "datatype": pr[3],
                               "datatype_field": pr[4], "theorem": "C10_fields_datatypes (per position: Props/C11.v C11_walk_clean)"})
    for (pkg, modname, name, fields) in class_fields():
        if modname == "datatypes":
            cam = [impl_s2c(f) for f in fields]
            ok = any(set(cam) <= set(names) for (_, _, names) in pos[pkg])
            rep.count("cls:%s:%s:%s" % (pkg, modname, name))
            if not ok:
                # name the fields that no position of the version has at all
                allnames = {n for (_, _, names) in pos[pkg] for n in names}
                missing = [f for f, c in zip(fields, cam) if c not in allnames]
                rep.violation("C10:datafield:%s:%s:%s" % (pkg, name, ",".join(missing)),
                              "data type %s.%s: no schema object offers all of its fields (unknown: %r)" % (pkg, name, missing),
                              {"kind": "class", "package": pkg, "module": modname, "class": name, "fields": fields,
                               "camel": cam, "theorem": "C10_fields_datatypes"})
        else:
            props = top_schema_props(pkg, modname, name)
            rep.count("cls:%s:%s:%s" % (pkg, modname, name))
            if props is None:
                rep.violation("C10:noschema:%s:%s:%s" % (pkg, modname, name), "class %s.%s.%s has no schema" % (pkg, modname, name),
                              {"kind": "class", "package": pkg, "module": modname, "class": name, "theorem": "C10_fields"})
                continue
            for f in fields:
                c = impl_s2c(f)
                if c not in props:
                    rep.violation("C10:field:%s:%s:%s:%s" % (pkg, modname, name, f),
                                  "field %s of %s.%s.%s maps to %r which the schema does not define" % (f, pkg, modname, name, c),
                                  {"kind": "class", "package": pkg, "module": modname, "class": name, "field": f,
                                   "camel": c, "schema_properties": props, "theorem": "C10_fields"})
    return vocab, pos


def correspondence(rep, vocab, tier):
    """Gallina c2s/s2c against the real functions, exhaustively on the property's domain."""
    fields = sorted({f for (_, _, _, fs) in class_fields() for f in fs})
    c2s_cases = [(n, impl_c2s(n)) for n in vocab]
    snakes = sorted(set(fields) | {s for (_, s) in c2s_cases})
    s2c_cases = [(s, impl_s2c(s)) for s in snakes]
    src = C.CASE_HEADER + "From OV.Model Require Import Names Schema Vocab.\nFrom OV.Gen Require Import Schemas16 Schemas201.\n"
    src += "Definition c2s_cases : list (string * string) := %s.\n" % C.clist(
        ["(%s, %s)" % (C.cs(a), C.cs(b)) for a, b in c2s_cases])
    src += "Definition s2c_cases : list (string * string) := %s.\n" % C.clist(
        ["(%s, %s)" % (C.cs(a), C.cs(b)) for a, b in s2c_cases])
    src += "Definition hv : list string := %s.\n" % C.clist([C.cs(n) for n in vocab])
    src += """Definition mv := dedup (vocab schemas16 ++ vocab schemas201).
Eval vm_compute in
  (bad (fun p => String.eqb (c2s (fst p)) (snd p)) c2s_cases 0%N
   ++ bad (fun p => String.eqb (s2c (fst p)) (snd p)) s2c_cases 10000%N
   ++ bad (fun n => mem n mv) hv 20000%N ++ bad (fun n => mem n hv) mv 30000%N)%list.
"""
    (idx, out), = C.coq_eval_shards("C10", [src])
    rep.coverage["names_c2s_cases"] = len(c2s_cases)
    rep.coverage["names_s2c_cases"] = len(s2c_cases)
    for a, b in c2s_cases[:2] + s2c_cases[:2]:
        rep.sample({"input": a, "implementation": b})
    for a, b in c2s_cases + s2c_cases:
        rep.count("corr:" + a + ">" + b)
    if idx is None:
        rep.violation("C10:correspondence:names:failed", "the names correspondence could not be evaluated",
                      {"kind": "correspondence", "correspondence": "names", "coq_output": out[-3000:]}, found_input=False)
        return
    for i in idx:
        if i < 10000:
            a, b = c2s_cases[i]
            what = "model c2s and camel_to_snake_case differ on %r (implementation: %r)" % (a, b)
            key = "C10:corr:c2s:" + a
        elif i < 20000:
            a, b = s2c_cases[i - 10000]
            what = "model s2c and snake_to_camel_case differ on %r (implementation: %r)" % (a, b)
            key = "C10:corr:s2c:" + a
        elif i < 30000:
            a = vocab[i - 20000]
            what = "schema property %r is missing from the translated vocabulary" % a
            key = "C10:corr:vocab:" + a
        else:
            a = "#%d" % (i - 30000)
            what = "the translated vocabulary has a name (index %d) the schema files do not have" % (i - 30000)
            key = "C10:corr:vocab-extra:%d" % (i - 30000)
        # the oracle has already run on the whole domain: if it found nothing for this item,
        # the correspondence is broken without a failing input
        hit = [v for v in rep.violations if a in v[0]] + [h for h in rep.known_hits if a in h[0]]
        if not hit:
            rep.violation(key, what, {"kind": "correspondence", "correspondence": "names", "input": a,
                                      "theorem": "names correspondence (Model/Names.v vs ocpp.charge_point)"},
                          found_input=False)


DIAG = """From Coq Require Import List String. Import ListNotations.
From OV.Model Require Import Json Names Schema Classes Vocab.
From OV.Gen Require Import Schemas16 Schemas201 Classes16 Classes201.
Eval vm_compute in ("bad-names", filter (fun n => negb (name_ok n)) (dedup (vocab schemas16 ++ vocab schemas201))).
Eval vm_compute in ("bad-positions", map prop_names (filter (fun s => negb (node_injective s)) (object_nodes schemas16 ++ object_nodes schemas201))).
Eval vm_compute in ("bad-classes",
  map c_name (filter (fun c => negb (msg_fields_ok "" schemas16 c)) calls16),
  map c_name (filter (fun c => negb (msg_fields_ok "Response" schemas16 c)) results16),
  map c_name (filter (fun c => negb (msg_fields_ok "Request" schemas201 c)) calls201),
  map c_name (filter (fun c => negb (msg_fields_ok "Response" schemas201 c)) results201),
  map c_name (filter (fun c => negb (data_fields_ok (object_nodes schemas16) c)) datatypes16),
  map c_name (filter (fun c => negb (data_fields_ok (object_nodes schemas201) c)) datatypes201)).
"""


def run(rep, tier, seed):
    build = C.ensure_build(["Props/C10.vo"])
    built, obl, assumptions = C.proof_status(rep, "C10", build)
    rep.coverage["rule"] = ("exhaustive: every property name at every depth of all 206 schema files, every object "
                            "position, every field of every dataclass; a case is one (name|position|class) item, "
                            "distinct by its text")
    rep.coverage["exhaustive"] = True
    vocab, pos = oracle(rep)
    rep.coverage["vocabulary"] = len(vocab)
    rep.coverage["object_positions"] = sum(len(pos[v]) for v in pos)
    if build.translator_ok and os.path.exists(os.path.join(C.COQ, "Model", "Vocab.vo")):
        correspondence(rep, vocab, tier)
    if "names" in build.rules_aborted:
        rep.coverage["rules_tie_names"] = ("extraction from the source failed (%s); pinned table used, tie by the "
                                           "exhaustive vocabulary correspondence only" % build.rules_aborted["names"][:200])
    if not build.translator_ok:
        rep.violation("C10:translator", "the translator rejected the working tree: " + build.translator_msg[-500:],
                      {"kind": "translator", "message": build.translator_msg, "theorem": "all of Props/C10.v"},
                      found_input=bool(rep.violations))
    elif not built:
        rc, diag = C.coq_query("C10-diag", DIAG)
        if not rep.violations and not rep.known_hits:
            rep.violation("C10:theorem", "Props/C10.v no longer checks and no failing item was found on the implementation",
                          {"kind": "theorem", "theorem": "Props/C10.v", "make_log": build.make_log[-3000:],
                           "diagnose": diag[-3000:]}, found_input=False)
        else:
            rep.coverage["diagnose"] = diag[-2000:]
    if tier == "thorough" and built:
        rc, axioms, summary, dt = C.coqchk("C10")
        rep.coverage["coqchk"] = {"exit": rc, "axioms": axioms, "summary": summary, "seconds": round(dt, 1)}
        if rc != 0 or axioms != "<none>":
            rep.violation("C10:coqchk", "coqchk does not accept Props/C10.vo without axioms: %s" % axioms,
                          {"kind": "axioms", "coqchk": summary, "theorem": "Props/C10.v"}, found_input=False)
    return rep.finish(build=build, obligations=obl, assumptions_out=assumptions)


def replay(d):
    if d.get("kind") == "name":
        n = d["name"]
        s = impl_c2s(n)
        b = impl_s2c(s)
        print("camel_to_snake_case(%r) = %r ; snake_to_camel_case(%r) = %r" % (n, s, s, b))
        ok = b == n and s.isidentifier() and s == s.lower() and not keyword.iskeyword(s)
        print("HOLDS" if ok else "FAILS")
        return 0 if ok else 1
    if d.get("kind") == "class" and "field" in d:
        c = impl_s2c(d["field"])
        props = top_schema_props(d["package"], d["module"], d["class"])
        print("snake_to_camel_case(%r) = %r ; schema properties: %r" % (d["field"], c, props))
        ok = props is not None and c in props
        print("HOLDS" if ok else "FAILS")
        return 0 if ok else 1
    if d.get("kind") == "document":
        from ocpp.charge_point import camel_to_snake_case, snake_to_camel_case
        # the object at the reported path, rebuilt from the names recorded in the finding, inside its parents
        doc = {n: 0 for n in d["names"]}
        for part in reversed([p for p in d["path"].split("/") if p]):
            doc = [doc] if part == "[]" else {part: doc}
        back = snake_to_camel_case(camel_to_snake_case(doc))
        cur, cur0 = back, doc
        for part in [p for p in d["path"].split("/") if p]:
            cur = cur[0] if part == "[]" else cur[list(cur.keys())[0]]
        print("names %r come back as %r" % (d["names"], list(cur.keys())))
        ok = list(cur.keys()) == d["names"]
        print("HOLDS" if ok else "FAILS")
        return 0 if ok else 1
    print("re-run: python3 check.py C10 quick")
    return 0
