"""C06 -- end-to-end payload transparency between two endpoints."""
import dataclasses
import json
import random

from harness import common as C
from harness import gen_dispatch as GD
from harness import gen_instances as G
from harness import impl_dispatch as D
from harness import impl_net as N
from harness import oracles as O

PROP = "C06"


def has_null(text):
    return text is not None and ("null" in json.dumps(json.loads(text)).split('"')[0::2].__str__())


def schema_keys_ok(payload, schema, root):
    """every key of the written payload is a property name the schema defines at that position"""
    s = G.resolve(schema, root)
    if isinstance(payload, dict):
        props = s.get("properties")
        if props is None:
            return True
        for k, v in payload.items():
            if k not in props:
                return False
            if not schema_keys_ok(v, props[k], root):
                return False
    elif isinstance(payload, list) and isinstance(s.get("items"), dict):
        return all(schema_keys_ok(x, s["items"], root) for x in payload)
    return True


def contains_null(v):
    if v is None:
        return True
    if isinstance(v, dict):
        return any(contains_null(x) for x in v.values())
    if isinstance(v, list):
        return any(contains_null(x) for x in v)
    return False


def cases(tier, seed):
    rng = random.Random(seed * 211 + 5)
    g = GD.Gen(tier, seed)
    out = []
    for (version, pkg, mtype, action, name) in G.message_index():
        if mtype != "Call":
            continue
        reqs = [i for i in g.instances(version, action, "req") if not i[2]]
        resps = [i for i in g.instances(version, action, "resp") if not i[2]]
        k = 5 if tier == "quick" else 14
        picks = [(reqs[i], resps[i]) for i in range(5)]      # all / only required / falsy / boundary / alternative values
        for _ in range(max(0, k - 5)):
            picks.append((rng.choice(reqs), rng.choice(resps)))
        for pi, (rq, rs) in enumerate(picks[:k]):
            if isinstance(rq[1], dict) and isinstance(rs[1], dict):
                out.append((version, action, rq[1], rs[1], rng.choice([False, True, "mixed"])))
                if pi in (0, 3) and version == "1.6":
                    # the OCPP 1.6 data types by shape (the 1.6 classes annotate Dict / List): every optional present, and the
                    # boundary instance (strings exactly as long as the schema allows, lists exactly as long)
                    try:
                        pq = N.make_request(version, action, GD.snake(rq[1]), "fit")
                        ps = N.make_result(version, action, GD.snake(rs[1]), "fit")
                        if N.contains_dataclass([getattr(pq, f.name) for f in dataclasses.fields(pq)]) or \
                                N.contains_dataclass([getattr(ps, f.name) for f in dataclasses.fields(ps)]):
                            out.append((version, action, rq[1], rs[1], "fit"))
                    except Exception:  # noqa: BLE001 - a data type that refuses a schema-valid value: the exchange below reports it
                        out.append((version, action, rq[1], rs[1], "fit"))
                if pi in (0, 4):
                    # enumerated values given as members of the library's enumerations (RegistrationStatus.accepted), nested
                    # values as data-type objects: the wire and the handler see the plain strings
                    out.append((version, action, rq[1], rs[1], "enums"))
                if pi == 0:
                    # the instance with every optional: also as plain dicts that hold data-type objects deeper inside
                    # (only where that differs from plain dicts, i.e. the classes nest at least two levels)
                    try:
                        probe_q = N.make_request(version, action, GD.snake(rq[1]), "inner")
                        probe_s = N.make_result(version, action, GD.snake(rs[1]), "inner")
                    except Exception:  # noqa: BLE001
                        continue
                    if N.contains_dataclass(dataclasses.asdict(probe_q) and [getattr(probe_q, f.name) for f in dataclasses.fields(probe_q)]) or \
                            N.contains_dataclass([getattr(probe_s, f.name) for f in dataclasses.fields(probe_s)]):
                        out.append((version, action, rq[1], rs[1], "inner"))
    return out


def cold_exchanges(rep):
    """The three 1.6 exchanges whose validation goes through Decimal, each sequence in a FRESH interpreter: whole-number
    limits first and fractional ones after, and the other way round -- what arrives must not depend on what the process
    validated before (the in-process exchanges see these actions only after their validators exist)."""
    from harness.props import c14
    seqs = {}
    for (mtype, action, path) in c14.POSITIONS:
        base = c14.base_payload(mtype, action)
        for x in (16, 21.4, 0.1, 32):
            p = base
            for (mt, a, pth) in c14.POSITIONS:
                if (mt, a) == (mtype, action):
                    p = c14.set_at(p, pth, x)
            seqs.setdefault((mtype, action), {})[x] = p
    g = GD.Gen("quick", 0)
    for order, xs in (("int-first", (16, 21.4, 32, 0.1)), ("float-first", (21.4, 16, 0.1, 32))):
        calls, metas = [], []
        for (mtype, action), byx in sorted(seqs.items()):
            other = [i for i in g.instances("1.6", action, "resp" if mtype == "Call" else "req") if not i[2] and isinstance(i[1], dict)][0][1]
            for x in xs:
                req, resp = (byx[x], other) if mtype == "Call" else (other, byx[x])
                calls.append(("loopback_plain", ("1.6", action, GD.snake(req), GD.snake(resp)), {}))
                metas.append((action, req, resp, x))
        outs = D.cold(calls, module="harness.impl_net")
        for (action, req, resp, x), out in zip(metas, outs):
            rep.count("cold:%s:%s:%s" % (order, action, x))
            replay = {"kind": "cold-exchange", "order": order, "action": action, "request": req, "response": resp}
            if out[0] != "ok":
                rep.violation("C06:cold:%s:%s:harness" % (order, action), "fresh interpreter, %s: %r" % (order, out[1:]), replay)
                continue
            call, kwargs, reply, kind, fields = out[1]
            bad = None
            if kind != "result":
                bad = "call() ended with %r %r" % (kind, fields)
            elif not O.same_value(json.loads(call)[3], req) or not O.same_value(kwargs, GD.snake(req)):
                bad = "the request arrived as %r" % (kwargs,)
            elif not O.same_value(json.loads(reply)[2], resp) or not O.same_value(fields, GD.snake(resp)):
                bad = "the response arrived as %r" % (fields,)
            if bad:
                rep.violation("C06:cold:%s:%s:%s" % (order, action, x),
                              "fresh interpreter, 1.6 %s exchanges in the order %s, value %r: %s" % (action, order, x, bad),
                              dict(replay, observation=repr(out[1])[:1500]))


def slow_handlers(rep):
    """The handling endpoint's response_timeout bounds the wait for replies to ITS OWN requests; a coroutine handler that
    takes longer than that still delivers its result to the caller (who waits with a timeout of its own)."""
    import importlib
    for version in ("1.6", "2.0.1"):
        pkg = N.modname(version)
        call = importlib.import_module("ocpp.%s.call" % pkg)
        cr = importlib.import_module("ocpp.%s.call_result" % pkg)
        for delay, b_timeout in ((0.12, 0.03), (0.05, 0.03), (0.0, 0.03)):
            res = N.run_loopback(version, "Heartbeat", call.Heartbeat(), lambda kw: cr.Heartbeat(current_time="2024-01-01T00:00:00Z"),
                                 handler_delay=delay, b_timeout=b_timeout)
            rep.count("slow-handler:%s:%s" % (version, delay))
            oc = res["outcome"]
            if oc[0] != "result" or oc[1] != {"current_time": "2024-01-01T00:00:00Z"}:
                rep.violation("C06:slow-handler:%s" % version,
                              "handler taking %.2f s on an endpoint whose response_timeout is %.2f s (the caller waits 3 s): call() ended with %r, "
                              "reply on the wire %r" % (delay, b_timeout, oc[:3], res["reply"]),
                              {"kind": "slow-handler", "version": version, "handler_delay": delay, "handling_endpoint_response_timeout": b_timeout,
                               "observation": {"reply": res["reply"], "outcome": list(map(str, oc[:3]))}})


def body_factory(tier, seed):
    def body(rep, support_ok):
        cold_exchanges(rep)
        slow_handlers(rep)
        schemas = {"1.6": G.load_schemas("v16"), "2.0.1": G.load_schemas("v201")}
        terms, meta = [], []
        n_lb = [0]
        for (version, action, req, resp, as_dc) in cases(tier, seed):
            sreq, sresp = GD.snake(req), GD.snake(resp)
            del N.UNBUILDABLE[:]
            try:
                obj = N.make_request(version, action, sreq, as_dc)
                if as_dc is True:
                    N.make_result(version, action, sresp, as_dc)
                # a data type named by the annotation refused the keys of a schema-valid value (it was left a plain dict): its
                # fields do not match the schema there.  Known and not a violation: IdTokenInfoType.language_1/2 (DESIGN 10.4)
                for (dt, keys, msg) in N.UNBUILDABLE:
                    if "language1" in keys or "language2" in keys or "custom_data" in msg:
                        # known and outside the property: the 2.0.1 data types have no custom_data field (a nested customData
                        # can only be given as a plain dict -- nothing is altered on the way), and language_1/2
                        continue
                    rep.violation("C06:datatype-refuses:%s:%s:%s" % (version, action, dt),
                                  "the data type %s cannot be built from the keys of a schema-valid %s value: %s" % (dt, action, msg),
                                  {"kind": "loopback", "version": version, "action": action, "request": req, "response": resp,
                                   "nested_as_dataclasses": as_dc, "datatype": dt, "keys": keys})
            except Exception as e:  # noqa: BLE001
                rep.violation("C06:construct-request:%s:%s" % (version, action),
                              "a schema-valid %s request cannot be built as call.%s: %s" % (action, action, e),
                              {"kind": "loopback", "version": version, "action": action, "request": req})
                continue
            holder = {}

            def behave(kwargs, _v=version, _a=action, _s=sresp, _d=as_dc):
                r = N.make_result(_v, _a, _s, _d)
                holder["returned"] = N.fields_of(r)
                return r
            # every eighth exchange with validation switched off on both sides (call and route): the payload travels
            # the same way -- unset optionals stay off the wire, names are converted
            n_lb[0] += 1
            both_skip = n_lb[0] % 8 == 5
            res = N.run_loopback(version, action, obj, behave, skip=both_skip, route_skip=both_skip)
            rep.count(json.dumps([version, action, req, resp, as_dc], default=repr, sort_keys=True))
            rep.add("nested-as-" + (as_dc if isinstance(as_dc, str) else "dataclasses" if as_dc else "dicts"))
            if both_skip:
                rep.add("validation-skipped-on-both-sides")
            replay = {"kind": "loopback", "version": version, "action": action, "request": req, "response": resp,
                      "nested_as_dataclasses": as_dc, "validation_skipped": both_skip, "observation": {k: (v if k != "outcome" else v[:3]) for k, v in res.items() if k != "frames"}}
            tag = "%s:%s" % (version, action)
            bad = []
            if res["call"] is None:
                bad.append(("no-call", "no CALL was written: %r" % (res["outcome"][:3],)))
            else:
                fr = json.loads(res["call"])
                if not O.same_value(fr[3], req):
                    bad.append(("wire-request:" + ",".join(O.diff_desc(fr[3], req))[:120], "the CALL payload on the wire %r differs from the request %r" % (fr[3], req)))
                if contains_null(fr[3]):
                    bad.append(("null-on-wire", "the CALL payload contains null"))
                nm = action if version == "1.6" else action + "Request"
                if not schema_keys_ok(fr[3], schemas[version][nm], schemas[version][nm]):
                    bad.append(("wire-keys", "the CALL payload uses keys the schema does not define: %r" % (fr[3],)))
            if res["kwargs"] is not None and res.get("handler_self") != "B":
                bad.append(("wrong-endpoint", "the CALL sent to endpoint B was handled by the handler bound to %r" % (res.get("handler_self"),)))
            if res["kwargs"] is None:
                bad.append(("no-handler", "the handler did not run"))
            elif not O.same_value(res["kwargs"], sreq):
                bad.append(("kwargs:" + ",".join(O.diff_desc(res["kwargs"], sreq))[:120], "the handler received %r, the caller sent %r" % (res["kwargs"], sreq)))
            if res["reply"] is not None:
                fr2 = json.loads(res["reply"])
                if fr2[0] != 3 or not O.same_value(fr2[2], resp):
                    bad.append(("wire-response:" + (",".join(O.diff_desc(fr2[2], resp))[:120] if fr2[0] == 3 else "error"), "the reply on the wire %r differs from the response %r" % (fr2, resp)))
                if contains_null(fr2):
                    bad.append(("null-on-wire", "the reply contains null"))
            oc = res["outcome"]
            if oc[0] != "result":
                bad.append(("outcome", "call() ended with %r" % (oc[:3],)))
            elif not O.same_value(oc[1], holder.get("returned")) or not O.same_value(oc[1], sresp):
                bad.append(("result:" + ",".join(O.diff_desc(oc[1], sresp))[:120], "call() returned %r, the handler returned %r" % (oc[1], holder.get("returned"))))
            for key, what in bad:
                rep.violation("C06:%s:%s" % (key, tag), what, replay)
            if both_skip:
                continue        # the model's loopback has validating routes only: these exchanges are judged by the oracles above
            try:
                terms.append("mkN %s (Some (HRet %s)) (JStr \"a-id\") %s %s false false %s" % (
                    "V16" if version == "1.6" else "V201", C.cjson(sresp), C.cs(action),
                    C.cjson(json.loads(json.dumps(__import__("dataclasses").asdict(obj)))), N.cnobs(res)))
                meta.append(replay)
            except (TypeError, ValueError):
                rep.add("unrepresentable")
        if support_ok:
            shard = 40
            shards = [N.HEADER + "Definition cases : list ncase := %s.\nEval vm_compute in ndisagreements cases.\n" % C.clist(
                ["\n" + t for t in terms[i:i + shard]]) for i in range(0, len(terms), shard)]
            outs = C.coq_eval_shards("C06", shards)
            broken = []
            for si, (idx, out) in enumerate(outs):
                if idx is None:
                    rep.violation("C06:correspondence:loopback:shard-failed", "the loopback correspondence could not be evaluated in Coq",
                                  {"kind": "correspondence", "correspondence": "loopback", "coq_output": out[-3000:],
                                   "theorem": "loopback correspondence (Model/Net.v vs two real endpoints)"}, found_input=False)
                    continue
                broken += [si * shard + i for i in idx]
            if broken and not any(v[2] for v in rep.violations):
                rep.violation("C06:corr:loopback", "model and implementation disagree on %d exchange(s)" % len(broken),
                              {"kind": "correspondence", "correspondence": "loopback", "cases": [meta[i] for i in broken[:3]],
                               "theorem": "loopback correspondence (Model/Net.v vs two real endpoints)"}, found_input=False)
        if meta:
            rep.sample({k: meta[0][k] for k in ("version", "action", "request", "response")})
    return body


def run(rep, tier, seed):
    return C.standard_run(rep, PROP, ["Model/CaseNet.vo"], [body_factory(tier, seed + 1000 * i) for i in range(3 if tier == "thorough" else 1)], rule=(
        "for every one of the 103 (version, action) pairs: schema-valid request and response instances from the generator "
        "(all properties / only required / falsy values / boundary / single optionals), nested values given as data-type "
        "objects or as dicts, through two real endpoints joined by in-memory connections (real start() loops, real call()); "
        "observed: both frames, the handler's keywords, the returned object; distinct by (action, request, response, nesting)"))


def replay(d):
    if d.get("kind") == "slow-handler":
        class R:
            hit = []

            def count(self, *_a):
                pass

            def violation(self, key, what, *_a, **_k):
                self.hit.append(key)
                print(what)
        r = R()
        slow_handlers(r)
        print("FAILS" if r.hit else "HOLDS")
        return 1 if r.hit else 0
    if d.get("kind") == "cold-exchange":
        class R:
            hit = []

            def count(self, *_a):
                pass

            def violation(self, key, what, *_a, **_k):
                self.hit.append(key)
                print(what)
        r = R()
        cold_exchanges(r)
        bad = [k for k in r.hit if (":%s:%s:" % (d["order"], d["action"])) in k]
        print("FAILS" if bad else "HOLDS")
        return 1 if bad else 0
    sreq, sresp = GD.snake(d["request"]), GD.snake(d["response"])
    obj = N.make_request(d["version"], d["action"], sreq, d.get("nested_as_dataclasses", False))
    res = N.run_loopback(d["version"], d["action"], obj, lambda kw: N.make_result(d["version"], d["action"], sresp, d.get("nested_as_dataclasses", False)),
                         skip=bool(d.get("validation_skipped")), route_skip=bool(d.get("validation_skipped")))
    print({k: (v if k != "outcome" else v[:3]) for k, v in res.items() if k != "frames"})
    ok = res["kwargs"] is not None and O.same_value(res["kwargs"], sreq) and res["outcome"][0] == "result" and O.same_value(res["outcome"][1], sresp) \
        and O.same_value(json.loads(res["call"])[3], d["request"])
    print("HOLDS" if ok else "FAILS")
    return 0 if ok else 1
