"""C05 -- see properties.jsonl; theorems in coq/Props/C05.v, tie: the dispatch correspondence in the
observables of this property, plus the property's direct oracle on every observed frame."""
from harness import common as C
from harness import gen_dispatch as GD
from harness import oracles as O
from harness.props import c01 as base

PROP = "C05"
VIEW = "VC05"
ORACLE = O.c05


def body_factory(tier, seed):
    def body(rep, support_ok):
        g = GD.Gen(tier, seed)
        cases = base.corpus() + g.stratum_cross_version() + g.all_cases() + g.stratum_kinds() + g.stratum_required_sequences()
        extra = EXTRA(g, tier) if EXTRA else []
        cases = cases + extra
        modes = (False, True) if tier == "thorough" else (False,)
        if not support_ok:
            from harness import impl_dispatch as D
            for (kind, version, routes, raw, info) in map(GD.norm, cases):
                if not any(kind.startswith(k) for k in KINDS):
                    continue
                obs = D.observe_frame(version, routes, raw, send_ok=info.get('send_ok', True))
                rep.count(repr((version, routes, raw)))
                for key, what in ORACLE(kind, version, routes, raw, obs, info):
                    rep.violation(PROP + ":" + key, what, {"kind": "dispatch", "version": version, "routes": routes,
                                                           "frame": raw if isinstance(raw, str) else {"hex": bytes(raw).hex()},
                                                           "observation": obs, "info": info})
            return
        GD.run_cases(rep, cases, PROP, PROP, ORACLE, async_modes=modes, view=VIEW, kinds=KINDS)
        GD.run_repeats(rep, cases, PROP, ("bad-req", "bad-res", "ok"))
        # verdicts in a fresh interpreter, whole-number and fractional payloads in either order (what is rejected and
        # what is accepted must not depend on what the process validated first)
        from harness.props import c04
        c04.cold_orders(rep, PROP)
        from harness import verdict as V
        V.cold_cross_versions(rep, PROP)
        # the outbound half (call()): histories on a real endpoint under the virtual clock
        from harness import gen_history as GH
        hs = GH.HGen(tier, seed).all()[: (40 if tier == "quick" else 300)]
        GH.run_histories(rep, hs, PROP + "h", PROP, O.c05_caller, "VH05")
        for c in (cases[25], cases[len(cases) // 2], cases[-1]):
            rep.sample({"stratum": c[0], "version": c[1], "frame": str(c[3])[:200]})
    return body


EXTRA = None
KINDS = ("cross", "ok", "explicit", "bad-req", "bad-res", "raise-", "corpus-D4", "malformed-5th")


def run(rep, tier, seed):
    return C.standard_run(rep, PROP, ["Model/CaseDispatch.vo", "Model/CaseHistory.vo"], [body_factory(tier, seed + 1000 * i) for i in range(3 if tier == "thorough" else 1)], rule=RULE)


def replay(d):
    if d.get("kind") == "repeat":
        return GD.replay_repeat(d)
    if d.get("kind") == "cold-order":
        from harness.props import c04
        return c04.replay_cold(d)
    from harness import impl_dispatch as D
    raw = d["frame"] if isinstance(d["frame"], str) else bytes.fromhex(d["frame"]["hex"])
    routes = d["routes"]
    for r in routes:
        for k in ("on", "after"):
            if r.get(k):
                r[k]["out"] = tuple(r[k]["out"])
    obs = D.observe_frame(d["version"], routes, raw, async_validation=d.get("async_validation", False), send_ok=(d.get("info") or {}).get("send_ok", True), prelude=(d.get("info") or {}).get("prelude"), send_style=(d.get("info") or {}).get("send_style"))
    print("observation:", obs)
    bad = ORACLE(d.get("stratum", "replay"), d["version"], routes, raw, obs, d.get("info"))
    print("FAILS: %s" % bad if bad else "HOLDS (for the recorded stratum %r)" % d.get("stratum"))
    return 1 if bad else 0


RULE = ("one case = (version, registered routes with scripted handler/hook outcomes, one inbound frame); the dispatch "
        "streams of C01 (valid and single-constraint-violating CALLs x handler outcomes x hooks x shapes x skip flags, "
        "unhandled actions, malformed frames); compared in the observables of this property; distinct by (version, routes, frame)")
