"""Drivers for the real code: endpoints with scripted, recording handlers on a scripted
connection; observation of one route_message() call as an ordered event list; and the
Gallina rendering of configurations / observations for the `dispatch` correspondence."""
import asyncio
import copy
import os
import dataclasses
import json

import logging

from harness import common as C

logging.disable(logging.CRITICAL)      # the library logs every rejected frame with a traceback


class Recorder:
    def __init__(self):
        self.seq = []

    def log(self, *ev):
        self.seq.append(ev)


class RecvAgain(BaseException):
    pass


class Conn:
    """Scripted connection: records writes; optionally fails them; feeds frames to recv()."""

    def __init__(self, rec, fail_sends=None, frames=None, recv_exc=None):
        self.rec = rec
        self.fail_sends = fail_sends or set()
        self.nsend = 0
        self.frames = list(frames or [])
        self.recv_exc = recv_exc
        self.nrecv = 0

    async def _send(self, m):
        i = self.nsend
        self.nsend += 1
        if i in self.fail_sends:
            self.rec.log("send-failed", m)
            raise ConnectionError("scripted send failure")
        if getattr(self, "send_style", None):
            await asyncio.sleep(0)                # the write completes a little later
        if isinstance(m, str):
            m.encode("utf-8")                     # text frames are UTF-8 on the wire
        self.rec.log("send", m)

    def send(self, m):
        """what `await connection.send(m)` gets: a coroutine (default), a Task, or a custom awaitable -- adapters
        around thread pools or other transports hand back futures"""
        style = getattr(self, "send_style", None)
        if style == "task":
            return asyncio.ensure_future(self._send(m))
        if style == "awaitable":
            outer = self

            class Aw:
                def __await__(self_inner):
                    return outer._send(m).__await__()
            return Aw()
        return self._send(m)

    def __aiter__(self):
        """like a websockets connection: iteration ends SILENTLY when the peer closes in an orderly way; the library
        is specified to use recv() (and so to see the exception), this is only here for code that iterates instead"""
        return self

    async def __anext__(self):
        i = self.nrecv
        self.nrecv += 1
        self.rec.log("recv", i)
        if i < len(self.frames):
            return self.frames[i]
        raise StopAsyncIteration

    async def recv(self):
        i = self.nrecv
        self.nrecv += 1
        self.rec.log("recv", i)
        if i < len(self.frames):
            return self.frames[i]
        if i > len(self.frames) + 2:
            raise RecvAgain("recv() was called again and again after it had failed")   # no endless loop in the harness
        if getattr(self, "linger", 0):
            await asyncio.sleep(self.linger)      # the connection stays open for a while before it breaks
        raise self.recv_exc


def _result_object(version, action, snake):
    """A dataclass instance whose asdict() is `snake`: the real result class when the keys fit,
    otherwise an ad-hoc dataclass (asdict treats both alike)."""
    import importlib

    mod = importlib.import_module("ocpp.%s.call_result" % ("v16" if version == "1.6" else "v201"))
    cls = getattr(mod, action, None)
    if cls is not None and dataclasses.is_dataclass(cls) and isinstance(snake, dict):
        names = {f.name for f in dataclasses.fields(cls)}
        if set(snake) <= names:
            try:
                return cls(**copy.deepcopy(snake))
            except TypeError:
                pass
    fields = [(k, object, dataclasses.field(default=None)) for k in snake]
    dc = dataclasses.make_dataclass("AdHocResult", fields)
    return dc(**copy.deepcopy(snake))


class SecretError(Exception):
    pass


def _raise_for(out):
    import ocpp.exceptions as ex

    kind = out[0]
    if kind == "ocpp":
        cls = getattr(ex, out[1])
        raise cls(description=out[2], details=copy.deepcopy(out[3]))
    if kind == "other":
        exc = {"RuntimeError": RuntimeError, "ValueError": ValueError, "KeyError": KeyError,
               "ZeroDivisionError": ZeroDivisionError, "SecretError": SecretError, "TypeError": TypeError,
               "AttributeError": AttributeError, "OSError": OSError}[out[1]]
        raise exc(out[2])
    raise AssertionError(out)


def _make_fn(name, sig, is_async, body_name):
    params = ["self"] + list(sig["required"]) + ["%s=None" % p for p in sig["optional"]]
    if sig["uid"]:
        params.append("*, call_unique_id=None" if sig.get("uid_kwonly") else "call_unique_id=None")
    if sig["varkw"]:
        params.append("**kwargs")
    collect = "dict(%s)" % ", ".join("%s=%s" % (p, p) for p in list(sig["required"]) + list(sig["optional"]))
    if is_async in ("future", "awaitable") and body_name == "_on_body":
        # a plain function that hands back an awaitable which is not a coroutine: a Task, or an object with __await__
        src = "def %s(%s):\n" % (name, ", ".join(params))
        src += "    __kw = %s\n" % collect
        if sig["varkw"]:
            src += "    __kw.update(kwargs)\n"
        src += "    __uid = (True, call_unique_id) if %s else (False, None)\n" % ("True" if sig["uid"] else "False")
        src += "    async def later_():\n        await _ov_sleep(self, %r)\n        return %s(self, %r, __kw, __uid)\n" % (name, body_name, name)
        if is_async == "future":
            src += "    import asyncio\n    return asyncio.ensure_future(later_())\n"
        else:
            src += "    class Aw_:\n        def __await__(s):\n            return later_().__await__()\n    return Aw_()\n"
        return src
    is_async = bool(is_async)
    src = "%sdef %s(%s):\n" % ("async " if is_async else "", name, ", ".join(params))
    if is_async:
        src += "    await _ov_sleep(self, %r)\n" % name
        src += "    await _ov_hookcall(self, %r)\n" % name
    src += "    __kw = %s\n" % collect
    if sig["varkw"]:
        src += "    __kw.update(kwargs)\n"
    src += "    __uid = (True, call_unique_id) if %s else (False, None)\n" % ("True" if sig["uid"] else "False")
    src += "    return %s(self, %r, __kw, __uid)\n" % (body_name, name)
    return src


def enum_member(version, action):
    """the member of the version's Action enumeration that is NAMED after the action (snake_case of the action name,
    compared without the underscores) -- what an application writes as @on(Action.boot_notification); the action
    string itself if there is no such member"""
    import importlib
    A = importlib.import_module("ocpp.%s.enums" % ("v16" if version == "1.6" else "v201")).Action
    for name in A.__members__:
        if name == name.lower() and name.replace("_", "") == action.lower():
            return A.__members__[name]
    return action


def make_cp_class(version, routes):
    """routes: [{'action', 'skip', 'on': {...}|None, 'after': {...}|None}]
    on/after: {'name','sig':{'required','optional','varkw','uid'},'async':bool,'out': tuple}"""
    from ocpp.routing import after, on
    from ocpp.v16 import ChargePoint as CP16
    from ocpp.v201 import ChargePoint as CP201

    base = CP16 if version == "1.6" else CP201
    ns = {}

    def _on_body(self, name, kw, uid):
        # optional parameters left at their None default were not passed by the library
        spec = self._ov_specs[name]
        passed = {k: v for k, v in kw.items() if not (k in spec["sig"]["optional"] and v is None)}
        self._ov_rec.log("handler", name, copy.deepcopy(passed), uid)
        out = spec["out"]
        if out[0] == "ret":
            return _result_object(self._ocpp_version, spec["action"], out[1])
        if out[0] == "bad":
            return None
        if out[0] == "echo":
            return out[1](self, passed, uid)
        _raise_for(out)

    def _after_body(self, name, kw, uid):
        spec = self._ov_specs[name]
        if spec.get("sleep"):
            self._ov_rec.log("after-done", name)
        passed = {k: v for k, v in kw.items() if not (k in spec["sig"]["optional"] and v is None)}
        self._ov_rec.log("after", name, copy.deepcopy(passed), uid)
        out = spec["out"]
        if out[0] == "ret":
            return None
        _raise_for(out)

    async def _ov_sleep(self, name):
        d = self._ov_specs[name].get("sleep")
        if d:
            await asyncio.sleep(d)

    async def _ov_hookcall(self, name):
        """an after-hook that issues its own request (what the library schedules hooks as tasks for)"""
        if self._ov_specs[name].get("calls"):
            from ocpp.v16 import call as c16
            from ocpp.v201 import call as c201
            mod = c16 if self._ocpp_version == "1.6" else c201
            self._ov_rec.log("hook-call-start", name)
            try:
                if self._ov_specs[name]["calls"] == "invalid":
                    await self.call(mod.Reset(type="NotAType"))       # violates the request schema of either version
                else:
                    await self.call(mod.Heartbeat())
            except BaseException as e:  # noqa: BLE001
                self._ov_rec.log("hook-call-done", name, type(e).__name__)
                if not isinstance(e, Exception):
                    raise
            else:
                self._ov_rec.log("hook-call-done", name, "ok")

    specs = {}
    env = {"_on_body": _on_body, "_after_body": _after_body, "_ov_sleep": _ov_sleep, "_ov_hookcall": _ov_hookcall}
    for r in routes:
        order = (("after", after), ("on", on)) if r.get("after_first") else (("on", on), ("after", after))
        for kind, deco in order:
            h = r.get(kind)
            if not h:
                continue
            src = _make_fn(h["name"], h["sig"], h.get("async", False), "_on_body" if kind == "on" else "_after_body")
            loc = {}
            exec(src, env, loc)  # noqa: S102 - builds a function with a real signature
            fn = loc[h["name"]]
            act = enum_member(version, r["action"]) if r.get("by_enum") else r["action"]
            if kind == "on":
                fn = on(act, skip_schema_validation=bool(r.get("skip"))) (fn)
            else:
                fn = after(act)(fn)
            ns[h["name"]] = fn
            specs[h["name"]] = dict(h, action=r["action"])
    cls = type("ScriptedCP", (base,), ns)
    cls._ov_specs = specs
    # every other endpoint class gets its routes by INHERITANCE (application base class with the handlers, the class
    # that is instantiated adds nothing, two levels below the library's ChargePoint): the route map is the same
    _LEVELS["n"] += 1
    if _LEVELS["n"] % 2:
        cls = type("ScriptedMid", (cls,), {})
        cls = type("ScriptedLeaf", (cls,), {})
    return cls


_LEVELS = {"n": 0}


def observe_frame(version, routes, raw, async_validation=False, settle=3, send_ok=True, cls=None, prelude=None, send_style=None):
    """Run one route_message(raw) on a fresh endpoint; return the ordered observation."""
    import ocpp.messages as M

    rec = Recorder()
    conn = Conn(rec, fail_sends=None if send_ok else {0})
    conn.send_style = send_style
    if prelude:
        make_cp_class(version, prelude)       # another endpoint class, defined earlier in the process, never used
    if cls is None:
        cls = make_cp_class(version, routes)
    if prelude and prelude[0].get("defined_after"):
        make_cp_class(version, prelude)       # ... or defined later
    old = M.ASYNC_VALIDATION
    M.ASYNC_VALIDATION = async_validation

    async def go():
        # an older endpoint of the same class on another connection: nothing of the frame may reach it
        decoy_rec = Recorder()
        decoy = cls("decoy", Conn(decoy_rec))
        decoy._ov_rec = decoy_rec
        cp = cls("cp", conn)
        cp._ov_rec = rec
        import logging
        cp.logger = logging.getLogger("ov-silent")
        decoy.logger = cp.logger
        try:
            await cp.route_message(raw)
        except BaseException as e:  # noqa: BLE001 - the escape is the observation
            rec.log("escape", type(e).__name__, str(e)[:200])
        for _ in range(settle):
            await asyncio.sleep(0)
        q = []
        while not cp._response_queue.empty():
            q.append(cp._response_queue.get_nowait())
        for m in q:
            rec.log("enqueue", m)
        if decoy_rec.seq:
            rec.foreign = list(decoy_rec.seq)
        return cp

    try:
        asyncio.run(go())
    finally:
        M.ASYNC_VALIDATION = old
    return rec.seq


class ScriptedClose(Exception):
    """stands for websockets' ConnectionClosed"""


def observe_loop(version, routes, frames, exc_kind="closed", gate_held=False, async_validation=False, response_timeout=30,
                 linger=0):
    """Run the real start() on a scripted connection until recv raises; return the ordered
    recv/send/handler log and how start() ended."""
    import ocpp.messages as M

    rec = Recorder()
    exc = {"closed": ScriptedClose("gone"), "oserror": OSError("reset"),
           "cancelled": asyncio.CancelledError(), "eof": EOFError(), "timeout": asyncio.TimeoutError(),
           "builtin-timeout": TimeoutError("keepalive ping timeout"), "runtime": RuntimeError("connection lost"),
           "lookup": LookupError("no such stream"), "value": ValueError("bad frame")}[exc_kind]
    conn = Conn(rec, frames=frames, recv_exc=exc)
    conn.linger = linger
    cls = make_cp_class(version, routes)
    old = M.ASYNC_VALIDATION
    M.ASYNC_VALIDATION = async_validation
    end = {}

    async def go():
        cp = cls("cp", conn, response_timeout=response_timeout)
        cp._ov_rec = rec
        if gate_held:
            await cp._call_lock.acquire()        # as if an own request were outstanding
        try:
            await cp.start()
            end["how"] = ("returned", None)
        except BaseException as e:  # noqa: BLE001
            end["how"] = ("same" if e is exc else "other", type(e).__name__)
        for _ in range(5):
            await asyncio.sleep(0.002)

    try:
        asyncio.run(go())
    finally:
        M.ASYNC_VALIDATION = old
    return rec.seq, end.get("how")


# ------------------------------------------------------------------------------- rendering
def loads_outcome(raw):
    """(python value or None, Gallina loads_outcome term)."""
    try:
        v = json.loads(raw)
    except (ValueError, RecursionError):
        return None, "LoadsRaised"
    try:
        return v, "(Loaded %s)" % C.cjson(v)
    except (TypeError, RecursionError):
        return v, None


def csig(sig):
    return "(mkSig %s %s %s %s)" % (C.clist([C.cs(x) for x in sig["required"]]),
                                    C.clist([C.cs(x) for x in sig["optional"]]),
                                    C.cbool(sig["varkw"]), C.cbool(sig["uid"]))


def cout(out):
    if out[0] == "ret":
        return "(HRet %s)" % C.cjson(out[1])
    if out[0] == "ocpp":
        import ocpp.exceptions as ex
        return "(HRaiseOCPP %s %s %s)" % (C.cs(getattr(ex, out[1]).code),
                                          C.cs(out[2] if out[2] is not None else getattr(ex, out[1]).default_description),
                                          C.cjson(out[3] if out[3] is not None else {}))
    if out[0] == "other":
        return "HRaiseOther"
    if out[0] == "bad":
        return "HRetBad"
    raise AssertionError(out)


def ccfg(version, routes):
    rs = []
    for r in routes:
        on = "None"
        if r.get("on"):
            h = r["on"]
            on = "(Some (const_handler %s %s %s))" % (C.cs(h["name"]), csig(h["sig"]), cout(h["out"]))
        af = "None"
        if r.get("after"):
            k = r["after"]
            af = "(Some (mkHook %s %s))" % (C.cs(k["name"]), csig(k["sig"]))
        rs.append("(%s, mkRoute %s %s %s)" % (C.cs(r["action"]), on, af, C.cbool(bool(r.get("skip")))))
    return "(mkCfg %s %s)" % ("V16" if version == "1.6" else "V201", C.clist(rs))


def cmsg(m):
    from ocpp.messages import Call, CallError, CallResult

    if isinstance(m, Call):
        return "(Call %s %s %s)" % (C.cjson(m.unique_id), C.cjson(m.action), C.cjson(m.payload))
    if isinstance(m, CallResult):
        return "(CallResult %s %s %s)" % (C.cjson(m.unique_id), C.cjson(m.payload),
                                           C.copt(None if m.action is None else C.cjson(m.action)))
    if isinstance(m, CallError):
        return "(CallError %s %s %s %s)" % (C.cjson(m.unique_id), C.cjson(m.error_code), C.cjson(m.error_description),
                                             C.copt(None if m.error_details is None else C.cjson(m.error_details)))
    raise AssertionError(m)


def cobs(seq):
    """Observation -> Gallina list oevent (None if something is not representable)."""
    out = []
    for ev in seq:
        k = ev[0]
        if k == "handler" or k == "after":
            uid = "None" if not ev[3][0] else "(Some %s)" % C.cjson(ev[3][1])
            out.append("(%s %s %s %s)" % ("OHandler" if k == "handler" else "OAfter", C.cs(ev[1]), C.cjson(ev[2]), uid))
        elif k == "send":
            try:
                fr = json.loads(ev[1])
            except ValueError:
                return None
            if isinstance(fr, list) and len(fr) == 3 and fr[0] == 3:
                out.append("(OResult %s %s)" % (C.cjson(fr[1]), C.cjson(fr[2])))
            elif isinstance(fr, list) and len(fr) == 5 and fr[0] == 4 and isinstance(fr[2], str) and isinstance(fr[3], str):
                det = fr[4]
                # error details may embed the whole message text: only its JSON-ness matters here
                out.append("(OError %s %s %s %s)" % (C.cjson(fr[1]), C.cs(fr[2]), C.cs(fr[3]), C.cjson(det)))
            else:
                return None
        elif k == "enqueue":
            out.append("(OEnqueue %s)" % cmsg(ev[1]))
        elif k == "escape":
            out.append("OEscape")
        elif k == "send-failed":
            out.append("OWriteFailed")
        elif k == "recv":
            continue
        else:
            raise AssertionError(ev)
    return C.clist(out)


HEADER = C.CASE_HEADER + "From OV.Model Require Import Names Schema Validate Frame Dispatch Shipped CaseDispatch.\n"


def shard_source(cases, view="VFull"):
    return HEADER + "Definition cases : list dcase := %s.\nEval vm_compute in ddisagreements %s cases.\n" % (
        C.clist(["\n" + c for c in cases]), view)


# ------------------------------------------------------------------------------- fresh interpreter
_COLD = r"""
import base64, pickle, sys
sys.path[:0] = [sys.argv[1], sys.argv[2]]
import importlib
mod = importlib.import_module(sys.argv[3])
calls = pickle.loads(base64.b64decode(sys.stdin.read()))
out = []
for (fn, args, kwargs) in calls:
    try:
        out.append(("ok", getattr(mod, fn)(*args, **kwargs)))
    except BaseException as e:  # noqa: BLE001
        out.append(("raised", type(e).__name__, str(e)[:300]))
sys.stdout.write("\n@@OV@@" + base64.b64encode(pickle.dumps(out)).decode())
"""


def cold(calls, module="harness.impl_dispatch"):
    """Run [(function name, args, kwargs), ...] of a harness module one after the other in ONE fresh interpreter (no
    validator, schema or class cache filled by anything that ran before) and return [("ok", result) | ("raised", ..)].
    What an endpoint does must not depend on what the process did earlier; in-process strata cannot see that."""
    import base64
    import pickle
    import subprocess
    from harness import common as C
    pr = subprocess.run([C.PY, "-c", _COLD, C.REPO, C.VERIF, module], input=base64.b64encode(pickle.dumps(calls)).decode(),
                        capture_output=True, text=True, timeout=300,
                        env=dict(os.environ, PYTHONHASHSEED="0", PYTHONPATH=C.REPO, OCPP_REPO=C.REPO))
    if "@@OV@@" not in pr.stdout:
        return [("raised", "no-output", pr.stderr[-300:])] * len(calls)
    return pickle.loads(base64.b64decode(pr.stdout.split("@@OV@@")[-1]))
