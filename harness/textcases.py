"""The `text` correspondence: Model/JsonParse.v (json.loads, character by character) and
Model/FrameText.v (unpack on the text) against CPython's json.loads and the real ocpp.messages.unpack.

Texts: serialisations of random values in several layouts; a number-literal zoo (leading zeros, missing
digits, exponents, 17+ digits, ties, overflow, underflow, the 4300-digit limit); a string zoo (every escape,
invalid escapes, raw control characters, surrogate pairs / lone surrogates, raw non-ASCII); structural
errors; single-character mutations of valid texts; nesting exactly at and just beyond the interpreter's
recursion budget (measured through the real unpack)."""
import json
import random
import re

from harness import common as C

CLASS = {"Call": 0, "CallResult": 1, "CallError": 2, "ProtocolError": 3, "PropertyConstraintViolationError": 4,
         "FormatViolationError": 5}


def impl_class(raw):
    from ocpp.exceptions import OCPPError
    from ocpp.messages import unpack
    try:
        m = unpack(raw)
    except OCPPError as e:
        return CLASS.get(type(e).__name__, 6), None
    except BaseException as e:  # noqa: BLE001
        return 7, "%s: %s" % (type(e).__name__, str(e)[:100])
    return CLASS.get(type(m).__name__, 6), None


def measured_limit():
    """the deepest nesting of empty arrays json.loads accepts when called from unpack (binary search)."""
    def ok(d):
        return impl_class("[" * d + "]" * d)[0] != 5
    lo, hi = 1, 1 << 17
    if ok(hi):
        return None
    while lo < hi:
        mid = (lo + hi + 1) // 2
        if ok(mid):
            lo = mid
        else:
            hi = mid - 1
    return lo


def ctext(segs):
    """segs: str or list of (unit, count)."""
    if isinstance(segs, str):
        return C.cs(segs)
    parts = []
    for unit, n in segs:
        parts.append(C._cs_plain(unit) if n == 1 else "(srepeat %s %d)" % (C._cs_plain(unit), n))
    return "(" + " ++ ".join(parts) + ")"


def flat(segs):
    return segs if isinstance(segs, str) else "".join(u * n for u, n in segs)


SCALARS = [None, True, False, 0, -7, 10 ** 20, -(10 ** 25), 1.5, -0.25, 1e300, 1e16, 1e15, 1e-05, 0.0001, 123456789.123, 5e-324,
           1.7976931348623157e308, 0.1, 100.0, 1e22, 1e23, -2.5e-07, 12345678901234567.0, 1125899906842624.25, 0.30000000000000004,
           2.2250738585072014e-308, 4.35, 21.4, 9007199254740993, float("inf"), float("-inf"), float("nan"),
           "\x7f", "\u0080߿ࠀ￿\U00010000\U0010ffff", "a\tb\nc\rd\be\ff/", "", "s", "ünï \"\\", "\U0001F600",
           "\x00\x1f", "\ud800", "\udc00x", "\ud83dx\ude00", "퟿"]


def random_value(rng, depth=0):
    r = rng.random()
    if depth > 3 or r < 0.45:
        if rng.random() < 0.3:
            k = rng.random()
            if k < 0.4:
                return rng.randrange(-10 ** 6, 10 ** 6) / rng.choice([1, 10, 100, 1000, 7, 3])
            if k < 0.6:
                return rng.uniform(-1, 1) * 10 ** (rng.randrange(-320, 308) if rng.random() < 0.15 else rng.randrange(-20, 21))
            if k < 0.8:
                return rng.randrange(-10 ** 30, 10 ** 30)
            return "".join(chr(rng.choice([rng.randrange(32, 127), rng.randrange(0, 32), rng.randrange(128, 0x3000),
                                           rng.randrange(0xd800, 0xe000), rng.randrange(0x10000, 0x110000)]))
                           for _ in range(rng.randrange(6)))
        return rng.choice(SCALARS)
    if r < 0.72:
        return [random_value(rng, depth + 1) for _ in range(rng.randrange(4))]
    return {rng.choice(["a", "b", "ü", "", "a b", "\ud800", "k\"", "\\"]) + rng.choice(["", "1", "2"]): random_value(rng, depth + 1)
            for _ in range(rng.randrange(4))}


NUMBERS = ["0", "-0", "00", "01", "-01", "1", "-", "+1", "1.", ".5", "-.5", "1.5", "1.50", "0.0", "-0.0", "1e5", "1E5", "1e+5", "1e-5",
           "1e", "1e+", "1E-", "1.e5", "1.5e", "0e0", "0E-0", "0.000e+999", "1e400", "-1e400", "1e-400", "1e-323", "2.5e-324", "2.4e-324",
           "2.4703282292062327e-324", "2.4703282292062328e-324", "4.9406564584124654e-324", "1.7976931348623157e308",
           "1.7976931348623158e308", "1.7976931348623159e308", "179769313486231580793728971405303415079934132710037826936173778980444968292764750946649017977587207096330286416692887910946555547851940402630657488671505820681908902000708383676273854845817711531764475730270069855571366959622842914819860834936475292719074168444365510704342711559699508093042880177904174497791.999e0",
           "9007199254740993", "9007199254740993.0", "9007199254740992.5", "9007199254740993.5", "0.1", "0.10000000000000000555", "0.1000000000000000055511151231257827021181583404541015625",
           "0.15", "4.35", "21.45", "1125899906842624.25", "1125899906842624.75", "1e22", "1e23", "8.5e22", "123456789012345678901234567890", "1e99999999999999999999", "1e-99999999999999999999",
           "0.000000000000000000000000000000000001e36", "100000000000000000000000000000000000000e-38", "1_000", "0x10", "1e5.5", "--1", "1-2", "1e5e5", "1..2", "Infinity", "-Infinity", "NaN",
           "-NaN", "+Infinity", "Inf", "infinity", "nan", "-I", "-Infinit", "Infinityx", "nul", "nulll", "tru", "True", "fals", "None", "n", "t", "f", "N", "I",
           "5e-324", "3e-324", "2e-324", "7e-324", "7.5e-324", "2.2250738585072011e-308", "2.2250738585072014e-308", "4.450147717014403e-308", "6e-310"]

STRINGS = ['""', '"a"', '"\\""', '"\\\\"', '"\\/"', '"\\b\\f\\n\\r\\t"', '"\\u0041"', '"\\u00e9"', '"\\u4e2d"', '"\\uD83D\\uDE00"', '"\\ud83d\\ude00"',
           '"\\ud83d"', '"\\ude00"', '"\\ud83dx"', '"\\ud83d\\u0041"', '"\\ud83d\\ud83d\\ude00"', '"\\ude00\\ud83d"', '"\\ud83d\\n"', '"\\ud83d\\', '"\\ud83d\\u"',
           '"\\ud83d\\ude0"', '"\\ud83d\\ude0g"', '"\\ud83d\\ude00', '"\\udbff\\udfff"', '"\\ud800\\udc00"', '"\\ud7ff\\udc00"', '"\\ue000"', '"\\uffff"', '"\\u0000"',
           '"\\x41"', '"\\a"', '"\\U0001F600"', '"\\u12"', '"\\u12G4"', '"\\u+123"', '"\\u 123"', '"\\uABCD"', '"\\uabcd"', '"\\uAbCd"', '"\\"', '"abc', '"', "'a'",
           '"\t"', '"\n"', '"\x00"', '"\x1f"', '"\x7f"', '"\x80"', '"é"', '"中"', '"\U0001F600"', '"\ud800"', '"\udfff"', '"😀"', '"a\\u0062c"', '"/"',
           '"\\ud83d\\\\ude00"', '"\\\\ud83d"', '"\\\\\\""', '"﻿"', '"\\ufeff"']

STRUCT = ["", " ", "\t\n\r ", "[]", "{}", "[ ]", "{ }", " [ ] ", "[1]", "[1,2]", "[1, 2]", "[1 ,2]", "[1,]", "[,1]", "[,]", "[1,,2]", "[1 2]", "[", "]", "[]]", "[[]",
          "{\"a\":1}", "{\"a\" : 1}", "{ \"a\":1 }", "{\"a\":1,}", "{,\"a\":1}", "{\"a\"}", "{\"a\":}", "{\"a\" 1}", "{a:1}", "{'a':1}", "{1:1}", "{null:1}", "{\"a\":1 \"b\":2}",
          "{\"a\":1,\"b\":2}", "{\"a\":1,\"a\":2}", "{\"a\":1,\"b\":2,\"a\":3,\"c\":4,\"b\":5}", "{\"a\":{\"a\":1,\"a\":[]}}", "{\"\":0}", "{", "}", "{\"a\":1}}", "{\"a\":[}",
          "[2,\"i\",\"a\",{}]", " [2,\"i\",\"a\",{}]\n", "[2,\"i\",\"a\",{}] x", "[2,\"i\",\"a\",{}],", "[2,\"i\",\"a\",{}][]", "﻿[2,\"i\",\"a\",{}]", "[﻿2]", "[2]﻿",
          "\x0b[]", "\x0c[]", "\xa0[]", " []", "[]\x00", "\x00", "[1]\v", "nullnull", "null null", "truefalse", "1 2", "1,2", "[1]2", "\"a\"\"b\"",
          "[3,\"i\",{}]", "[4,\"i\",\"c\",\"d\",{}]", "[4,\"i\",\"c\",\"d\"]", "[2.0,\"i\",\"a\",{}]", "[true,\"i\",{}]", "[2e0,\"i\",\"a\",{}]", "[20e-1,\"i\",\"a\",{}]",
          "[0.2e1,\"i\",\"a\",{}]", "[2.0000000000000001,\"i\",\"a\",{}]", "[2.000000000000001,\"i\",\"a\",{}]", "[1.9999999999999999,\"i\",\"a\",{}]", "[NaN]", "[Infinity,1]",
          "[-0,\"i\",{}]", "[3e0,1,2]", "[4E0,1,2,3]", "[[2],\"i\",\"a\",{}]", "[\"2\",\"i\",\"a\",{}]", "[null]", "[{}]", "2", "\"[2]\"", "{\"0\":2}", "null", "true"]

MUT_ALPHABET = list("[]{}:,\"\\ 0123456789.eE+-ntfNIulrsa\t\n") + ["\x00", "é", "\ud800"]


def generate(tier, seed, limit):
    """[(label, segs)]"""
    rng = random.Random(seed * 31 + 5)
    out = []
    for t in NUMBERS:
        out.append(("number", t))
        out.append(("number", "[" + t + "]"))
        out.append(("number", "[2,\"i\",\"a\",{\"v\": " + t + " }]"))
    for t in STRINGS:
        out.append(("string", t))
        out.append(("string", "[3,\"i\",{\"k\":" + t + "}]"))
        out.append(("string", "{" + t + ":1}"))
    for t in STRUCT:
        out.append(("structure", t))
    # serialisations of random values in several layouts
    n_vals = 250 if tier == "quick" else 2500
    valid_texts = []
    for _ in range(n_vals):
        v = random_value(rng)
        if rng.random() < 0.5:
            v = [rng.choice([2, 3, 4, 2.0, True, 5, "2"])] + [random_value(rng, 1) for _ in range(rng.randrange(6))]
        layout = rng.choice(["compact", "default", "indent", "raw", "tabs"])
        try:
            if layout == "compact":
                t = json.dumps(v, separators=(",", ":"))
            elif layout == "default":
                t = json.dumps(v)
            elif layout == "indent":
                t = json.dumps(v, indent=rng.choice([0, 1, 3]))
            elif layout == "raw":
                t = json.dumps(v, ensure_ascii=False)
            else:
                t = json.dumps(v, separators=(" ,\t", "\r\n: ")) + rng.choice(["", " ", "\n\n"])
                t = rng.choice(["", " ", "\t\r\n"]) + t
        except (TypeError, ValueError):
            continue
        out.append(("dumps-" + layout, t))
        valid_texts.append(t)
    # single-character mutations
    n_mut = 500 if tier == "quick" else 6000
    for _ in range(n_mut):
        t = rng.choice(valid_texts)
        if not t:
            continue
        k = rng.random()
        i = rng.randrange(len(t))
        if k < 0.35:
            t2 = t[:i] + t[i + 1:]
        elif k < 0.7:
            t2 = t[:i] + rng.choice(MUT_ALPHABET) + t[i:]
        elif k < 0.9:
            t2 = t[:i] + rng.choice(MUT_ALPHABET) + t[i + 1:]
        else:
            t2 = t[:i]
        out.append(("mutation", t2))
    # random literal soup for the number scanner
    for _ in range(150 if tier == "quick" else 2000):
        parts = [rng.choice(["", "", "-", "+"]), rng.choice(["0", "", str(rng.randrange(10 ** rng.randrange(1, 25)))]),
                 rng.choice(["", "", ".", "." + "".join(rng.choice("0123456789") for _ in range(rng.randrange(1, 22)))]),
                 rng.choice(["", "", "e", "E"]) ]
        if parts[3]:
            parts.append(rng.choice(["", "-", "+"]) + rng.choice(["", str(rng.randrange(0, 400)), "0" + str(rng.randrange(0, 40))]))
        out.append(("number-soup", "".join(parts)))
    # nesting at the measured budget
    if limit is not None:
        for d in (limit - 1, limit, limit + 1, limit + 2, 3 * limit):
            out.append(("depth", [("[", d), ("]", d)]))
            out.append(("depth", [("{\"a\":", d), ("1", 1), ("}", d)]))
            out.append(("depth", [("[", d), ("7", 1), ("]", d)]))
            out.append(("depth", [("[{\"k\":", d // 2), ("[]", 1), ("}]", d // 2)]))
            out.append(("depth", [("[2,\"i\",\"a\",", 1), ("[", d - 1), ("]", d - 1), ("]", 1)]))
        out.append(("depth", [("[", 50000)]))
        out.append(("depth", [("{\"a\":", 50000)]))
        out.append(("depth", [("[", limit + 5), ("]", 3)]))
    # the int digit limit
    for n in ((4300, 4301) if tier == "quick" else (4299, 4300, 4301, 5000)):
        out.append(("digits", [("9", n)]))
        out.append(("digits", [("-", 1), ("1", n)]))
        out.append(("digits", [("[2,\"i\",\"a\",{\"k\":", 1), ("9", n), ("}]", 1)]))
        out.append(("digits", [("0.", 1), ("0", n), ("1", 1)]))
        out.append(("digits", [("1e", 1), ("9", n)]))
        if tier != "quick" or n == 4301:
            out.append(("digits", [("1", n), (".0", 1)]))
            out.append(("digits", [("1", n), ("e-", 1), (str(n), 1)]))
    return out


def expected(text):
    try:
        v = json.loads(text)
    except RecursionError:
        return None, "TRecursion"
    except ValueError:
        return None, "TError"
    return v, None


def run_text(rep, prop_id, tier, seed, support_ok, view_class_only=False):
    """Runs the text correspondence; reports through rep. Returns coverage dict."""
    limit = measured_limit()
    cases = generate(tier, seed, limit)
    lim = limit if limit is not None else 1000
    terms, meta = [], []
    mterms, mmeta = [], []
    dist = {}
    outcome_dist = {"value": 0, "error": 0, "recursion": 0}
    for label, segs in cases:
        text = flat(segs)
        v, exp = expected(text)
        k, esc = impl_class(text)
        dist[label] = dist.get(label, 0) + 1
        rep.count("text:" + (text if len(text) < 300 else C.hashlib.sha1(text.encode("utf-8", "surrogatepass")).hexdigest()))
        replay = {"kind": "text", "text": text if len(text) < 5000 else None, "segments": None if isinstance(segs, str) else segs,
                  "label": label, "implementation_class": k, "recursion_budget": lim}
        if esc is not None:
            rep.violation("%s:text-escape:%s" % (prop_id, C.hashlib.sha1(repr(text[:500]).encode()).hexdigest()[:10]),
                          "unpack raised %s instead of an OCPP error" % esc, replay)
            continue
        if exp is None:
            try:
                exp = "(TValue %s)" % C.cjson(v)
            except (TypeError, RecursionError):
                continue
            outcome_dist["value"] += 1
        else:
            outcome_dist["error" if exp == "TError" else "recursion"] += 1
        terms.append("mkT %d %s %s %d" % (lim, ctext(segs), exp, min(k, 6)))
        meta.append(replay)
        # the same text in Decimal mode (the mode _validate_payload uses for the 1.6 charging-profile messages)
        if label in ("number", "number-soup", "dumps-compact") or (label != "depth" and len(terms) % 3 == 0):
            import decimal
            try:
                vd = json.loads(text, parse_float=decimal.Decimal, parse_constant=decimal.Decimal)
                expd = "(TValue %s)" % C.cjson(vd)
            except RecursionError:
                expd = "TRecursion"
            except decimal.InvalidOperation:
                expd = None          # exponent beyond decimal's limits: not modelled (DESIGN.md 10.7)
            except ValueError:
                expd = "TError"
            except TypeError:
                expd = None
            if expd is not None:
                mterms.append("mkM %d %s %s" % (lim, ctext(segs), expd))
                mmeta.append(dict(replay, mode="decimal"))
    # printing: compact dumps of random values against print_compact (and back)
    rng = random.Random(seed * 17 + 3)
    dterms, dmeta = [], []
    for _ in range(150 if tier == "quick" else 2000):
        v = random_value(rng)
        try:
            t = json.dumps(v, separators=(",", ":"))
            if re.search(r"(?<![\d.])-0\.0(?![\d])", t):
                continue        # the model's numbers have no negative zero (DESIGN.md section 7)
            back = json.loads(t)
            dterms.append("mkD %s %s" % (C.cjson(back), C.cs(t)))
            dmeta.append({"kind": "dumps", "text": t})
        except (TypeError, ValueError, RecursionError):
            continue
    cov = {"texts": len(terms), "text_strata": dist, "text_outcomes": outcome_dist, "recursion_budget_measured": limit,
           "dumps_cases": len(dterms), "decimal_mode_texts": len(mterms)}
    if not support_ok:
        return cov
    hdr = C.CASE_HEADER + "From OV.Model Require Import JsonText JsonParse Schema Frame FrameText CaseFrame CaseText.\n"
    shards, owners = [], []
    # heavy cases (extreme exponents, long literals) sit next to each other in the list: deal them round-robin
    for kind, tms, ctor, fn in (("t", terms, "tcase", "tdisagreements"), ("d", dterms, "dcase", "ddisagreements"),
                                ("m", mterms, "mcase", "mdisagreements")):
        nsh = max(1, min(C.NCPU * 2, (len(tms) + 39) // 40))
        for j in range(nsh):
            part = tms[j::nsh]
            if not part:
                continue
            shards.append(hdr + "Definition cases : list %s := %s.\nEval vm_compute in %s cases.\n" % (
                ctor, C.clist(["\n" + t for t in part]), fn))
            owners.append((kind, j, nsh))
    outs = C.coq_eval_shards(prop_id + "-text", shards, timeout=1500)
    broken = []
    for (kind, j, nsh), (idx, out) in zip(owners, outs):
        if idx is None:
            rep.violation("%s:correspondence:text:shard-failed" % prop_id, "the text correspondence could not be evaluated in Coq",
                          {"kind": "correspondence", "correspondence": "text", "coq_output": out[-3000:],
                           "theorem": "text correspondence (Model/JsonParse.v, Model/FrameText.v vs json.loads / ocpp.messages.unpack)"},
                          found_input=False)
            continue
        for i in idx:
            broken.append({"t": meta, "d": dmeta, "m": mmeta}[kind][j + i * nsh])
    cov["text_disagreements"] = len(broken)
    if broken:
        rep.violation("%s:corr:text" % prop_id, "model and implementation disagree on %d text(s): json.loads / unpack vs JsonParse.loads / unpack_text" % len(broken),
                      {"kind": "correspondence", "correspondence": "text", "cases": broken[:8],
                       "theorem": "text correspondence (Model/JsonParse.v, Model/FrameText.v vs json.loads / ocpp.messages.unpack)"},
                      found_input=False)
    return cov
