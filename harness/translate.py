#!/usr/bin/env python3
"""Fail-closed translator: /repo working tree -> /verif/coq/Gen/*.v (tables only).

Run with the interpreter that has the repository's dependencies:
    PYTHONPATH=/repo PYTHONHASHSEED=0 /venv/bin/python harness/translate.py <outdir>

Emits *data*: the 206 JSON schemas (as terms of OV.Model.Schema.schema, local $refs turned
into references to one Gallina Definition per schema definition), the dataclasses of the
payload/data-type modules (fields, annotation shapes, default kinds), the enum classes
(values in definition order, aliases included) and the OCPP error classes.
Anything it does not understand aborts the translation (exit status 3, message on stderr).
"""
import dataclasses
import enum
import glob
import inspect
import json
import os
import re
import sys
import typing

REPO = os.environ.get("OCPP_REPO", "/repo")


class Abort(Exception):
    pass


# ----------------------------------------------------------------------------- emit helpers
def cs(s):
    """A Gallina string term for the Python str s (UTF-8 bytes, surrogatepass)."""
    b = s.encode("utf-8", "surrogatepass")
    if all(32 <= c < 127 for c in b):
        return '"' + s.replace('"', '""') + '"'
    return '(unhex "' + b.hex() + '")'


def cz(z):
    return str(z) if z >= 0 else "(%d)" % z


def clist(items):
    return "[" + "; ".join(items) + "]"


def copt(x):
    return "None" if x is None else "(Some %s)" % x


def dec_of_float(x):
    """(m, e) with x == m * 10**e from the shortest repr; m carries no trailing zeros."""
    from decimal import Decimal

    d = Decimal(repr(x))
    sign, digits, exp = d.as_tuple()
    m = int("".join(map(str, digits)))
    while m != 0 and m % 10 == 0:
        m //= 10
        exp += 1
    if m == 0:
        exp = 0
    return (-m if sign else m), exp


def cnum(x, kind="FFloat"):
    if isinstance(x, bool):
        raise Abort("boolean where a number is expected: %r" % (x,))
    if isinstance(x, int):
        return "(NInt %s)" % cz(x)
    if isinstance(x, float):
        if x != x:
            return "NNaN"
        if x in (float("inf"), float("-inf")):
            return "(NInf %s)" % ("true" if x < 0 else "false")
        m, e = dec_of_float(x)
        return "(NDec %s %s %s)" % (cz(m), cz(e), kind)
    raise Abort("not a number: %r" % (x,))


# ----------------------------------------------------------------------------- schemas
IGNORED = {"$schema", "title", "description", "comment", "javaType", "format", "default",
           "additionalItems", "$id", "id", "definitions"}
KNOWN = {"type", "properties", "required", "additionalProperties", "enum", "maxLength",
         "items", "minItems", "maxItems", "minimum", "maximum", "multipleOf", "$ref"}
TYPES = {"string": "TyString", "integer": "TyInteger", "number": "TyNumber",
         "boolean": "TyBoolean", "object": "TyObject", "array": "TyArray", "null": "TyNull"}


def ident(s):
    out = re.sub(r"[^A-Za-z0-9_]", "_", s)
    return out


def schema_term(s, where, refmap):
    """refmap: local definition name -> Gallina identifier (already emitted)."""
    if not isinstance(s, dict):
        raise Abort("%s: schema is not an object" % where)
    for k in s:
        if k not in KNOWN and k not in IGNORED:
            raise Abort("%s: unknown schema keyword %r" % (where, k))
    if "$ref" in s:
        others = [k for k in s if k != "$ref" and k not in IGNORED]
        if others:
            raise Abort("%s: $ref with sibling keywords %r" % (where, others))
        ref = s["$ref"]
        m = re.fullmatch(r"#/definitions/([A-Za-z0-9_]+)", ref) if isinstance(ref, str) else None
        if not m:
            raise Abort("%s: non-local $ref %r" % (where, ref))
        if m.group(1) not in refmap:
            raise Abort("%s: $ref to unknown definition %r" % (where, ref))
        return refmap[m.group(1)]
    ty = None
    if "type" in s:
        if not isinstance(s["type"], str) or s["type"] not in TYPES:
            raise Abort("%s: unsupported type %r" % (where, s["type"]))
        ty = TYPES[s["type"]]
    en = None
    if "enum" in s:
        if not isinstance(s["enum"], list) or not all(isinstance(x, str) for x in s["enum"]):
            raise Abort("%s: enum with non-string values" % where)
        en = clist([cs(x) for x in s["enum"]])
    mxl = None
    if "maxLength" in s:
        if type(s["maxLength"]) is not int:
            raise Abort("%s: maxLength not an int" % where)
        mxl = cz(s["maxLength"])
    props = []
    if "properties" in s:
        if not isinstance(s["properties"], dict):
            raise Abort("%s: properties not an object" % where)
        for k, v in s["properties"].items():
            props.append("(%s, %s)" % (cs(k), schema_term(v, where + "/" + k, refmap)))
    req = []
    if "required" in s:
        if not isinstance(s["required"], list) or not all(isinstance(x, str) for x in s["required"]):
            raise Abort("%s: required malformed" % where)
        req = [cs(x) for x in s["required"]]
    closed = "false"
    if "additionalProperties" in s:
        ap = s["additionalProperties"]
        if ap is False:
            closed = "true"
        elif ap is True:
            closed = "false"
        else:
            raise Abort("%s: additionalProperties is a schema" % where)
    items = None
    if "items" in s:
        if not isinstance(s["items"], dict):
            raise Abort("%s: items is not a single schema" % where)
        items = schema_term(s["items"], where + "/[]", refmap)

    def intkw(k):
        if k not in s:
            return None
        if type(s[k]) is not int:
            raise Abort("%s: %s not an int" % (where, k))
        return cz(s[k])

    def numkw(k):
        if k not in s:
            return None
        return cnum(s[k])

    return "(Sch %s %s %s %s %s %s %s %s %s %s %s %s)" % (
        copt(ty), copt(en), copt(mxl), clist(props), clist(req), closed, copt(items),
        copt(intkw("minItems")), copt(intkw("maxItems")),
        copt(numkw("minimum")), copt(numkw("maximum")), copt(numkw("multipleOf")))


def def_deps(s, acc):
    if isinstance(s, dict):
        if "$ref" in s and isinstance(s["$ref"], str):
            acc.add(s["$ref"].split("/")[-1])
        for k, v in s.items():
            if k == "properties" and isinstance(v, dict):
                for vv in v.values():
                    def_deps(vv, acc)
            elif k == "items":
                def_deps(v, acc)
    return acc


def translate_schemas(version_dir, tag, out):
    files = sorted(glob.glob(os.path.join(REPO, "ocpp", version_dir, "schemas", "*.json")))
    if not files:
        raise Abort("no schemas under %s" % version_dir)
    prefix = "d%s_" % tag
    by_term = {}           # translated term -> Gallina identifier (content addressed)
    used = {}              # base name -> number of distinct terms so far
    lines = ["(* GENERATED by harness/translate.py from %s -- do not edit *)" % version_dir,
             "From Coq Require Import List ZArith String.",
             "From OV.Model Require Import Json Schema.",
             "Import ListNotations.", "Local Open Scope string_scope.", "Local Open Scope Z_scope.", ""]
    tops = []
    for f in files:
        with open(f, "r", encoding="utf-8-sig") as fh:
            try:
                s = json.loads(fh.read())
            except ValueError as e:
                raise Abort("%s: not JSON: %s" % (f, e))
        stem = os.path.basename(f)[:-5]
        defs = s.get("definitions") or {}
        if not isinstance(defs, dict):
            raise Abort("%s: definitions malformed" % f)
        refmap, state = {}, {}

        def visit(n, stack):
            if state.get(n) == 2:
                return
            if state.get(n) == 1:
                raise Abort("%s: cyclic $ref through %s" % (stem, " -> ".join(stack + [n])))
            if n not in defs:
                raise Abort("%s: reference to unknown definition %s" % (stem, n))
            state[n] = 1
            for d in sorted(def_deps(defs[n], set())):
                visit(d, stack + [n])
            term = schema_term(defs[n], stem + "/definitions/" + n, refmap)
            if term not in by_term:
                k = used.get(n, 0)
                used[n] = k + 1
                name = prefix + ident(n) + ("" if k == 0 else "_v%d" % k)
                by_term[term] = name
                lines.append("Definition %s : schema := %s." % (name, term))
            refmap[n] = by_term[term]
            state[n] = 2

        for n in sorted(defs):
            visit(n, [])
        term = schema_term(s, stem, refmap)
        lines.append("Definition s%s_%s : schema := %s." % (tag, ident(stem), term))
        tops.append(stem)
    lines.append("")
    lines.append("Definition schemas%s : list (string * schema) := %s." % (
        tag, clist(["(%s, s%s_%s)" % (cs(n), tag, ident(n)) for n in tops])))
    with open(os.path.join(out, "Schemas%s.v" % tag), "w") as fh:
        fh.write("\n".join(lines) + "\n")
    return len(tops), len(by_term)


# ----------------------------------------------------------------------------- classes
def shape_term(t, where, enum_mod, data_mod):
    origin = typing.get_origin(t)
    if origin is None:
        if t is str:
            return "TStr"
        if t is int:
            return "TInt"
        if t is float:
            return "TFloat"
        if t is bool:
            return "TBool"
        if t is typing.Any:
            return "TAny"
        if t in (dict, typing.Dict):
            return "TDict"
        if t in (list, typing.List):
            return "TListAny"
        if isinstance(t, type) and issubclass(t, enum.Enum):
            if t.__module__ != enum_mod.__name__:
                raise Abort("%s: enum %r from a foreign module" % (where, t))
            return "(TEnum %s)" % cs(t.__name__)
        if isinstance(t, type) and dataclasses.is_dataclass(t):
            if t.__module__ != data_mod.__name__:
                raise Abort("%s: data type %r from a foreign module" % (where, t))
            return "(TData %s)" % cs(t.__name__)
        raise Abort("%s: unknown annotation %r" % (where, t))
    args = typing.get_args(t)
    if origin in (list, typing.List):
        if not args:
            return "TListAny"
        if len(args) != 1:
            raise Abort("%s: list with %d parameters" % (where, len(args)))
        return "(TList %s)" % shape_term(args[0], where, enum_mod, data_mod)
    if origin in (dict, typing.Dict):
        return "TDict"
    if origin is typing.Union:
        rest = [a for a in args if a is not type(None)]
        if len(rest) == 1:
            return shape_term(rest[0], where, enum_mod, data_mod)
        return "(TUnion %s)" % clist([shape_term(a, where, enum_mod, data_mod) for a in rest])
    raise Abort("%s: unknown annotation %r" % (where, t))


def class_table(mod, enum_mod, data_mod):
    rows = []
    for name, cls in inspect.getmembers(mod, inspect.isclass):
        if cls.__module__ != mod.__name__:
            continue
        if not dataclasses.is_dataclass(cls):
            raise Abort("%s.%s is not a dataclass" % (mod.__name__, name))
        hints = typing.get_type_hints(cls)
        fields = []
        for f in dataclasses.fields(cls):
            where = "%s.%s.%s" % (mod.__name__, name, f.name)
            t = hints[f.name]
            optional = typing.get_origin(t) is typing.Union and type(None) in typing.get_args(t)
            if f.default is dataclasses.MISSING and f.default_factory is dataclasses.MISSING:
                d = "NoDefault"
            elif f.default is None:
                d = "DefaultNone"
            else:
                d = "DefaultOther"
            if not f.init:
                raise Abort("%s: init=False field" % where)
            fields.append("mkField %s %s %s %s" % (
                cs(f.name), shape_term(t, where, enum_mod, data_mod),
                "true" if optional else "false", d))
        rows.append("mkClass %s %s" % (cs(name), clist(fields)))
    if not rows:
        raise Abort("no dataclasses in %s" % mod.__name__)
    return rows


def enum_table(mod):
    rows = []
    for name, cls in inspect.getmembers(mod, inspect.isclass):
        if cls.__module__ != mod.__name__ or not issubclass(cls, enum.Enum):
            continue
        vals = []
        for mname, member in cls.__members__.items():   # aliases included
            if not isinstance(member.value, str):
                raise Abort("%s.%s.%s: non-string enum value" % (mod.__name__, name, mname))
            vals.append(member.value)
        # canonical values in definition order, duplicates (aliases) removed
        canon = []
        for v in vals:
            if v not in canon:
                canon.append(v)
        rows.append((name, canon))
    return rows


def translate_classes(tag, pkg, out):
    import importlib

    call = importlib.import_module("ocpp.%s.call" % pkg)
    call_result = importlib.import_module("ocpp.%s.call_result" % pkg)
    datatypes = importlib.import_module("ocpp.%s.datatypes" % pkg)
    enums = importlib.import_module("ocpp.%s.enums" % pkg)
    for m in (call, call_result, datatypes, enums):
        if not os.path.realpath(m.__file__).startswith(os.path.realpath(REPO) + os.sep):
            raise Abort("module %s loaded from %s, not from %s" % (m.__name__, m.__file__, REPO))
    lines = ["(* GENERATED by harness/translate.py from ocpp/%s -- do not edit *)" % pkg,
             "From Coq Require Import List ZArith String.",
             "From OV.Model Require Import Json Classes.",
             "Import ListNotations.", "Local Open Scope string_scope.", ""]
    for nm, mod in (("calls", call), ("results", call_result), ("datatypes", datatypes)):
        rows = class_table(mod, enums, datatypes)
        lines.append("Definition %s%s : list classdef :=\n  %s." % (
            nm, tag, clist(["\n   " + r for r in rows])))
    with open(os.path.join(out, "Classes%s.v" % tag), "w") as fh:
        fh.write("\n".join(lines) + "\n")
    erows = enum_table(enums)
    lines = ["(* GENERATED by harness/translate.py from ocpp/%s/enums.py -- do not edit *)" % pkg,
             "From Coq Require Import List String.", "From OV.Model Require Import Json.",
             "Import ListNotations.", "Local Open Scope string_scope.", ""]
    lines.append("Definition enums%s : list (string * list string) :=\n  %s." % (
        tag, clist(["\n   (%s, %s)" % (cs(n), clist([cs(v) for v in vs])) for n, vs in erows])))
    acts = [vs for n, vs in erows if n == "Action"]
    if len(acts) != 1:
        raise Abort("no Action enum in %s" % enums.__name__)
    lines.append("Definition actions%s : list string := %s." % (tag, clist([cs(v) for v in acts[0]])))
    with open(os.path.join(out, "Enums%s.v" % tag), "w") as fh:
        fh.write("\n".join(lines) + "\n")
    return len(erows)


def translate_errors(out):
    import ocpp.exceptions as ex

    if not os.path.realpath(ex.__file__).startswith(os.path.realpath(REPO) + os.sep):
        raise Abort("ocpp.exceptions loaded from %s" % ex.__file__)
    rows = []
    for cls in ex.OCPPError.__subclasses__():
        if cls.__module__ != ex.__name__:
            continue
        code = getattr(cls, "code", None)
        if not isinstance(code, str):
            raise Abort("%s has no string code" % cls.__name__)
        rows.append("(%s, %s, %s)" % (cs(cls.__name__), cs(code), cs(cls.default_description)))
    # every OCPP error class of the module, found without OCPPError.__subclasses__()
    allrows = []
    for name, cls in inspect.getmembers(ex, inspect.isclass):
        if cls is not ex.OCPPError and issubclass(cls, ex.OCPPError) and cls.__module__ == ex.__name__:
            if not isinstance(getattr(cls, "code", None), str):
                raise Abort("%s has no string code" % name)
            allrows.append("(%s, %s, %s)" % (cs(cls.__name__), cs(cls.code), cs(cls.default_description)))
    lines = ["(* GENERATED by harness/translate.py from ocpp/exceptions.py -- do not edit *)",
             "From Coq Require Import List String.", "From OV.Model Require Import Json.",
             "Import ListNotations.", "Local Open Scope string_scope.", "",
             "(* what CallError.to_exception iterates: OCPPError.__subclasses__() in that order *)",
             "Definition errors : list (string * string * string) :=\n  %s." % clist(
                 ["\n   " + r for r in rows]),
             "(* every class of ocpp.exceptions that is (transitively) an OCPPError *)",
             "Definition all_error_classes : list (string * string * string) :=\n  %s." % clist(
                 ["\n   " + r for r in allrows])]
    with open(os.path.join(out, "Errors.v"), "w") as fh:
        fh.write("\n".join(lines) + "\n")
    return len(rows)


# ----------------------------------------------------------------------------- rules from the code (AST)
def _const(node, where):
    import ast
    if isinstance(node, ast.Constant) and isinstance(node.value, str):
        return node.value
    raise Abort("%s: expected a string literal, found %s" % (where, type(node).__name__))


def _replace_chain(node, var, where):
    """key.replace(a, b).replace(c, d) ... on the variable `var` -> [(a, b), (c, d)] in application order"""
    import ast
    pairs = []
    while isinstance(node, ast.Call) and isinstance(node.func, ast.Attribute) and node.func.attr == "replace":
        if len(node.args) != 2 or node.keywords:
            raise Abort("%s: replace() with unexpected arguments" % where)
        pairs.append((_const(node.args[0], where), _const(node.args[1], where)))
        node = node.func.value
    if not (isinstance(node, ast.Name) and node.id == var):
        raise Abort("%s: replace chain does not start at %r" % (where, var))
    return list(reversed(pairs))


def translate_name_rules(out):
    """The literal replace chains and the two regular expressions of camel_to_snake_case /
    snake_to_camel_case, read from the source; any other statement shape aborts."""
    import ast
    src = open(os.path.join(REPO, "ocpp", "charge_point.py")).read()
    tree = ast.parse(src)
    funcs = {n.name: n for n in tree.body if isinstance(n, ast.FunctionDef)}
    rules = {}
    for fname in ("camel_to_snake_case", "snake_to_camel_case"):
        if fname not in funcs:
            raise Abort("ocpp/charge_point.py: %s not found" % fname)
        fn = funcs[fname]
        first_if = [n for n in fn.body if isinstance(n, ast.If)]
        if not first_if:
            raise Abort("%s: unexpected shape" % fname)
        loops = [n for n in first_if[0].body if isinstance(n, ast.For)]
        if len(loops) != 1:
            raise Abort("%s: expected one loop over the dict items" % fname)
        body = loops[0].body
        repl, tail = [], []
        for st in body:
            if isinstance(st, ast.Assign) and len(st.targets) == 1 and isinstance(st.targets[0], ast.Name) \
                    and st.targets[0].id == "key" and isinstance(st.value, ast.Call) \
                    and isinstance(st.value.func, ast.Attribute) and st.value.func.attr == "replace" and not tail:
                repl += _replace_chain(st.value, "key", fname)
            else:
                tail.append(ast.dump(st))
        rules[fname] = (repl, tail)
    want_c2s_tail = [
        ast.dump(ast.parse('s1 = re.sub("(.)([A-Z][a-z]+)", r"\\1_\\2", key)').body[0]),
        ast.dump(ast.parse('key = re.sub("([a-z0-9])([A-Z])(?=\\\\S)", r"\\1_\\2", s1).lower()').body[0]),
        ast.dump(ast.parse('snake_case_dict[key] = camel_to_snake_case(value)').body[0]),
    ]
    want_s2c_tail = [
        ast.dump(ast.parse('components = key.split("_")').body[0]),
        ast.dump(ast.parse('key = components[0] + "".join(x[:1].upper() + x[1:] for x in components[1:])').body[0]),
        ast.dump(ast.parse('camel_case_dict[key] = snake_to_camel_case(value)').body[0]),
    ]
    if rules["camel_to_snake_case"][1] != want_c2s_tail:
        raise Abort("camel_to_snake_case: the statements after the replace chain are not the two re.sub calls the model implements")
    if rules["snake_to_camel_case"][1] != want_s2c_tail:
        raise Abort("snake_to_camel_case: the statements after the replace chain are not the split/capitalise the model implements")
    lines = ["(* GENERATED by harness/translate.py from ocpp/charge_point.py (AST) -- do not edit *)",
             "From Coq Require Import List String.", "Import ListNotations.", "Local Open Scope string_scope.", "",
             "(* key.replace(a, b) steps of camel_to_snake_case, in order; then the two regular expressions *)",
             "Definition c2s_replaces : list (string * string) := %s." % clist(
                 ["(%s, %s)" % (cs(a), cs(b)) for a, b in rules["camel_to_snake_case"][0]]),
             "(* key.replace(a, b) steps of snake_to_camel_case, in order; then split('_') and capitalise *)",
             "Definition s2c_replaces : list (string * string) := %s." % clist(
                 ["(%s, %s)" % (cs(a), cs(b)) for a, b in rules["snake_to_camel_case"][0]])]
    with open(os.path.join(out, "NameRules.v"), "w") as fh:
        fh.write("\n".join(lines) + "\n")
    return len(rules["camel_to_snake_case"][0]), len(rules["snake_to_camel_case"][0])


def translate_validate_rules(out):
    """From ocpp/messages._validate_payload: which jsonschema keyword is reported as which OCPP error, which
    error the decimal.InvalidOperation handler raises, and which (version, direction, action)s take the
    decimal path.  Any other shape aborts."""
    import ast
    import ocpp.exceptions as ex
    src = open(os.path.join(REPO, "ocpp", "messages.py")).read()
    tree = ast.parse(src)
    fn = [n for n in tree.body if isinstance(n, ast.FunctionDef) and n.name == "_validate_payload"]
    if len(fn) != 1:
        raise Abort("ocpp/messages.py: _validate_payload not found")
    fn = fn[0]

    def raised_class(stmts, where):
        r = [s for s in stmts if isinstance(s, ast.Raise)]
        if len(r) != 1 or not isinstance(r[0].exc, ast.Call) or not isinstance(r[0].exc.func, ast.Name):
            raise Abort("%s: expected exactly one `raise SomeError(...)`" % where)
        name = r[0].exc.func.id
        cls = getattr(ex, name, None)
        if cls is None or not isinstance(getattr(cls, "code", None), str):
            raise Abort("%s: %s is not an OCPP error class" % (where, name))
        return cls.code

    tries = [n for n in fn.body if isinstance(n, ast.Try)]
    if len(tries) != 2:
        raise Abort("_validate_payload: expected two try blocks (validator selection, validation)")
    # --- the mapping
    mapping, else_code, invalid_op = [], None, None
    for h in tries[1].handlers:
        tname = ast.unparse(h.type) if h.type is not None else ""
        if tname == "decimal.InvalidOperation":
            invalid_op = raised_class(h.body, "except decimal.InvalidOperation")
        elif tname == "SchemaValidationError":
            node = h.body[0] if len(h.body) == 1 else None
            while isinstance(node, ast.If):
                t = node.test
                ok = isinstance(t, ast.Compare) and len(t.ops) == 1 and isinstance(t.ops[0], ast.Eq) \
                    and ast.unparse(t.left) == "e.validator" and len(t.comparators) == 1
                if not ok:
                    raise Abort("_validate_payload: unexpected condition %s" % ast.unparse(t))
                mapping.append((_const(t.comparators[0], "e.validator == ..."), raised_class(node.body, ast.unparse(t))))
                if len(node.orelse) == 1 and isinstance(node.orelse[0], ast.If):
                    node = node.orelse[0]
                else:
                    else_code = raised_class(node.orelse, "else branch")
                    node = None
            if else_code is None:
                raise Abort("_validate_payload: no else branch in the error mapping")
        else:
            raise Abort("_validate_payload: unexpected handler %r" % tname)
    if invalid_op is None or not mapping:
        raise Abort("_validate_payload: mapping or InvalidOperation handler missing")
    # --- the decimal condition
    ifs = [n for n in tries[0].body if isinstance(n, ast.If)]
    if len(ifs) != 1:
        raise Abort("_validate_payload: expected one `if` selecting the decimal path")
    cond = ast.unparse(ifs[0].test)
    want = ("ocpp_version == '1.6' and (type(message) == Call and message.action in ['SetChargingProfile', "
            "'RemoteStartTransaction'] or (type(message) == CallResult and message.action == 'GetCompositeSchedule'))")
    import re as _re
    m = _re.fullmatch(r"ocpp_version == '1\.6' and \(type\(message\) == Call and message\.action in (\[[^\]]*\]) or "
                      r"\(type\(message\) == CallResult and message\.action (?:== ('[^']*')|in (\[[^\]]*\]))\)\)", cond)
    if not m:
        raise Abort("_validate_payload: the condition selecting the decimal path has an unexpected shape: %s" % cond)
    calls = ast.literal_eval(m.group(1))
    results = [ast.literal_eval(m.group(2))] if m.group(2) else ast.literal_eval(m.group(3))
    lines = ["(* GENERATED by harness/translate.py from ocpp/messages.py _validate_payload (AST) -- do not edit *)",
             "From Coq Require Import List String.",
             "Import ListNotations.", "Local Open Scope string_scope.", "",
             "(* SchemaValidationError.validator (the failing keyword) -> code of the OCPP error raised *)",
             "Definition keyword_codes : list (string * string) := %s." % clist(
                 ["(%s, %s)" % (cs(k), cs(c)) for k, c in mapping]),
             "Definition other_keyword_code : string := %s." % cs(else_code),
             "Definition invalid_operation_code : string := %s." % cs(invalid_op),
             "(* OCPP 1.6 actions validated with decimal.Decimal: as CALL, as CALLRESULT *)",
             "Definition decimal_calls16 : list string := %s." % clist([cs(a) for a in calls]),
             "Definition decimal_results16 : list string := %s." % clist([cs(a) for a in results])]
    with open(os.path.join(out, "ValidateRules.v"), "w") as fh:
        fh.write("\n".join(lines) + "\n")
    return len(mapping)


FALLBACK_NAME_RULES = """(* FALLBACK: the extraction from ocpp/charge_point.py failed; table of the pinned tree *)
From Coq Require Import List String.
Import ListNotations.
Local Open Scope string_scope.
Definition c2s_replaces : list (string * string) := [("ocppCSMSURL", "ocpp_csms_url"); ("V2X", "_v2x"); ("V2G", "_v2g")].
Definition s2c_replaces : list (string * string) := [("soc", "SoC"); ("_v2x", "V2X"); ("ocpp_csms_url", "ocppCsmsUrl"); ("csms", "CSMS"); ("_url", "URL"); ("soc", "SoC"); ("_SoCket", "Socket"); ("_v2x", "V2X"); ("soc_limit_reached", "SOCLimitReached"); ("_v2x", "V2X"); ("_v2g", "V2G")].
"""

FALLBACK_VALIDATE_RULES = """(* FALLBACK: the extraction from ocpp/messages.py failed; tables of the pinned tree *)
From Coq Require Import List String.
Import ListNotations.
Local Open Scope string_scope.
Definition keyword_codes : list (string * string) := [("type", "TypeConstraintViolation"); ("additionalProperties", "FormatViolation"); ("required", "ProtocolError"); ("maxLength", "TypeConstraintViolation")].
Definition other_keyword_code : string := "FormatViolation".
Definition invalid_operation_code : string := "FormatViolation".
Definition decimal_calls16 : list string := ["SetChargingProfile"; "RemoteStartTransaction"].
Definition decimal_results16 : list string := ["GetCompositeSchedule"].
"""


def main():
    out = sys.argv[1]
    os.makedirs(out, exist_ok=True)
    sys.path.insert(0, REPO)
    try:
        n16 = translate_schemas("v16", "16", out)
        n201 = translate_schemas("v201", "201", out)
        e16 = translate_classes("16", "v16", out)
        e201 = translate_classes("201", "v201", out)
        ne = translate_errors(out)
        # behaviour tables read from function bodies: if a body no longer has the shape the extraction
        # understands, only the properties that rest on that table lose their tie (the pinned table is
        # written instead and the failure is announced on stdout for harness/common.py)
        try:
            nr = translate_name_rules(out)
        except Abort as e:
            print("RULES-ABORTED names: %s" % e)
            with open(os.path.join(out, "NameRules.v"), "w") as fh:
                fh.write(FALLBACK_NAME_RULES)
            nr = (-1, -1)
        try:
            nv = translate_validate_rules(out)
        except Abort as e:
            print("RULES-ABORTED validate: %s" % e)
            with open(os.path.join(out, "ValidateRules.v"), "w") as fh:
                fh.write(FALLBACK_VALIDATE_RULES)
            nv = -1
    except Abort as e:
        sys.stderr.write("TRANSLATION-ABORTED: %s\n" % e)
        sys.exit(3)
    print("translated schemas16=%d(defs %d) schemas201=%d(defs %d) enums=%d+%d errors=%d name-replaces=%d+%d keyword-codes=%d" % (
        n16[0], n16[1], n201[0], n201[1], e16, e201, ne, nr[0], nr[1], nv))


if __name__ == "__main__":
    main()
