"""Two and three real endpoints joined by in-memory connections (loopback, relay)."""
import asyncio
import copy
import dataclasses
import importlib
import json
import logging
import typing

from harness import common as C
from harness import impl_dispatch as D
from harness import impl_history as H

logging.disable(logging.CRITICAL)


class Pipe:
    """one direction-pair: what one side sends the other receives; every frame is logged"""

    def __init__(self, name, log):
        self.name, self.log = name, log
        self.q = {"a": asyncio.Queue(), "b": asyncio.Queue()}

    def end(self, side):
        pipe = self
        other = "b" if side == "a" else "a"

        class Conn:
            async def send(self, m):
                if isinstance(m, str):
                    m.encode("utf-8")        # a text frame goes out as UTF-8, as on a real websocket: what cannot be encoded is not sent
                pipe.log.append((pipe.name, side, m))
                await pipe.q[other].put(m)

            async def recv(self):
                return await pipe.q[side].get()
        return Conn()


_LB = {"n": 0}
UNBUILDABLE = []                    # (data type, keys) that a data type's constructor refused while a schema instance was built
MIXED = {"on": False, "n": 0}      # when on: only every other list item becomes a data-type object


def dataclassify(cls, value):
    """build cls from a snake_case dict, nested data types as dataclass instances where annotated"""
    if not (dataclasses.is_dataclass(cls) and isinstance(value, dict)):
        return value
    hints = typing.get_type_hints(cls)
    kw = {}
    for k, v in value.items():
        t = hints.get(k)
        kw[k] = _conv_inner(t, v) if MIXED.get("inner") and MIXED.get("top") is cls else _conv(t, v)
    return cls(**kw)


def _dc_type(t, v):
    """the data-type class annotated (possibly inside Optional) for the dict v, or None"""
    if isinstance(t, type) and dataclasses.is_dataclass(t):
        return t
    if typing.get_origin(t) is typing.Union:
        for a in typing.get_args(t):
            if isinstance(a, type) and dataclasses.is_dataclass(a):
                return a
    return None


def _list_arg(t):
    if typing.get_origin(t) in (list, typing.List):
        return (typing.get_args(t) or [None])[0]
    if typing.get_origin(t) is typing.Union:
        for a in typing.get_args(t):
            if typing.get_origin(a) in (list, typing.List):
                return (typing.get_args(a) or [None])[0]
    return None


def _conv_inner(t, v):
    """the value stays a plain dict (or list of plain dicts); the data types INSIDE it become objects"""
    if t is None or v is None:
        return v
    if isinstance(v, dict):
        a = _dc_type(t, v)
        if a is None:
            return v
        hints = typing.get_type_hints(a)
        return {k: _conv(hints.get(k), x) for k, x in v.items()}
    if isinstance(v, list):
        a = _list_arg(t)
        return [_conv_inner(a, x) for x in v] if a is not None else v
    return v


def contains_dataclass(v):
    if dataclasses.is_dataclass(v) and not isinstance(v, type):
        return True
    if isinstance(v, dict):
        return any(contains_dataclass(x) for x in v.values())
    if isinstance(v, (list, tuple)):
        return any(contains_dataclass(x) for x in v)
    return False


def _as_enum(t, v):
    """the member of the annotated enumeration for a plain string (applications pass RegistrationStatus.accepted, not
    "Accepted"); the string itself where the enumeration has no such member"""
    import enum
    if MIXED.get("enums") and isinstance(t, type) and issubclass(t, enum.Enum) and isinstance(v, str):
        try:
            return t(v)
        except ValueError:
            return v
    return v


def _conv(t, v):
    if t is None or v is None:
        return v
    origin = typing.get_origin(t)
    if MIXED.get("enums") and isinstance(v, str):
        import enum
        cands = [t] if isinstance(t, type) else [a for a in typing.get_args(t) if isinstance(a, type)]
        for a in cands:
            if issubclass(a, enum.Enum):
                return _as_enum(a, v)
    if origin is typing.Union:
        for a in typing.get_args(t):
            if isinstance(a, type) and dataclasses.is_dataclass(a) and isinstance(v, dict):
                try:
                    return dataclassify(a, v)
                except TypeError as e:
                    UNBUILDABLE.append((a.__name__, sorted(v), str(e)[:120]))
                    continue
            if typing.get_origin(a) in (list, typing.List) and isinstance(v, list):
                return _conv(a, v)
        return v
    if origin in (list, typing.List) and isinstance(v, list):
        args = typing.get_args(t)
        if not args:
            return v
        out = []
        for x in v:
            MIXED["n"] += 1
            out.append(x if (MIXED["on"] and MIXED["n"] % 2) else _conv(args[0], x))
        return out
    if isinstance(t, type) and dataclasses.is_dataclass(t) and isinstance(v, dict):
        try:
            return dataclassify(t, v)
        except TypeError as e:
            UNBUILDABLE.append((t.__name__, sorted(v), str(e)[:120]))
            return v
    return v


def modname(version):
    return "v16" if version == "1.6" else "v201"


def fit(version, v):
    """every dict (at any depth) that has the shape of one of the version's data types -- its keys are fields of the
    class and every field without a default is among them -- becomes an object of that class (the smallest such
    class).  This is how applications use the OCPP 1.6 data types, whose payload classes annotate Dict / List."""
    dts = importlib.import_module("ocpp.%s.datatypes" % modname(version))
    if isinstance(v, list):
        return [fit(version, x) for x in v]
    if not isinstance(v, dict):
        return v
    inner = {k: fit(version, x) for k, x in v.items()}
    cands = []
    for name in sorted(vars(dts)):
        c = getattr(dts, name)
        if not (isinstance(c, type) and dataclasses.is_dataclass(c) and c.__module__ == dts.__name__) or not inner:
            continue
        fs = dataclasses.fields(c)
        names = {f.name for f in fs}
        req = {f.name for f in fs if f.default is dataclasses.MISSING and f.default_factory is dataclasses.MISSING}
        if set(inner) <= names and req <= set(inner):
            cands.append((len(names), name, c))
    if cands:
        return min(cands)[2](**inner)      # a data type that refuses a schema-valid value raises here: the caller reports it
    return inner


def _make(modname_, version, action, snake, as_dataclasses):
    mod = importlib.import_module("ocpp.%s.%s" % (modname(version), modname_))
    cls = getattr(mod, action)
    if as_dataclasses == "fit":
        return cls(**{k: fit(version, x) for k, x in copy.deepcopy(snake).items()})
    if as_dataclasses:
        MIXED["on"] = as_dataclasses == "mixed"
        MIXED["inner"] = as_dataclasses == "inner"
        MIXED["enums"] = as_dataclasses == "enums"
        MIXED["top"] = cls
        try:
            return dataclassify(cls, copy.deepcopy(snake))
        finally:
            MIXED["on"] = False
            MIXED["inner"] = False
            MIXED["enums"] = False
            MIXED["top"] = None
    return cls(**copy.deepcopy(snake))


def make_request(version, action, snake, as_dataclasses):
    """as_dataclasses: False (nested dicts) | True (nested data-type objects) | 'mixed' (lists mixing both) |
    'inner' (field values are plain dicts that contain data-type objects deeper inside)"""
    return _make("call", version, action, snake, as_dataclasses)


def make_result(version, action, snake, as_dataclasses):
    return _make("call_result", version, action, snake, as_dataclasses)


def fields_of(obj):
    """the fields of a result object that are set, as a plain tree"""
    if dataclasses.is_dataclass(obj) and not isinstance(obj, type):
        return {f.name: fields_of(getattr(obj, f.name)) for f in dataclasses.fields(obj) if getattr(obj, f.name) is not None}
    if isinstance(obj, list):
        return [fields_of(x) for x in obj]
    if isinstance(obj, dict):
        return {k: fields_of(v) for k, v in obj.items() if v is not None}
    return obj


def _base(version):
    from ocpp.v16 import ChargePoint as CP16
    from ocpp.v201 import ChargePoint as CP201
    return CP16 if version == "1.6" else CP201


def run_loopback(version, action, request_obj, behave, suppress=False, skip=False, uid="a-id", async_validation=False,
                 handler_async=True, route_skip=False, handler_delay=0, b_timeout=3):
    """A calls request_obj; B's handler for `action` records its keywords and does behave(kwargs) (returns a
    result object or raises). Returns dict(call, kwargs, reply, outcome)."""
    import ocpp.messages as M
    from ocpp.exceptions import OCPPError
    from ocpp.routing import on
    frames, seen = [], {}

    async def go():
        pipe = Pipe("ab", frames)
        _LB["n"] += 1
        if handler_async is True and _LB["n"] % 2:
            # the catch-all parameter is the application's to name
            async def handler(self, **payload):
                seen["kwargs"] = copy.deepcopy(payload)
                seen["self"] = getattr(self, "id", None)
                if handler_delay:
                    await asyncio.sleep(handler_delay)
                return behave(payload)
        elif handler_async is True:
            async def handler(self, **kwargs):
                seen["kwargs"] = copy.deepcopy(kwargs)
                seen["self"] = getattr(self, "id", None)
                if handler_delay:
                    await asyncio.sleep(handler_delay)
                return behave(kwargs)
        elif handler_async == "future":
            # a plain function handing back a Task (adapters around thread pools / other transports do that)
            def handler(self, **kwargs):
                seen["kwargs"] = copy.deepcopy(kwargs)
                seen["self"] = getattr(self, "id", None)

                async def later():
                    await asyncio.sleep(0)
                    return behave(kwargs)
                return asyncio.ensure_future(later())
        else:
            def handler(self, **_rest):
                seen["kwargs"] = copy.deepcopy(_rest)
                seen["self"] = getattr(self, "id", None)
                return behave(_rest)
        handler.__name__ = "handler"
        # the handler is registered the way applications do it: through the member of the version's Action enumeration
        # that carries the action's name (the plain string where there is none)
        from harness import impl_dispatch as _D
        Bcls = type("B", (_base(version),), {"handler": on(_D.enum_member(version, action), skip_schema_validation=route_skip)(handler)} if behave is not None else {})
        A = _base(version)("A", pipe.end("a"), response_timeout=3)
        # an older endpoint object of the same class on another connection (a central system has one per charge point)
        Bcls("B-older", Pipe("other", []).end("b"), response_timeout=b_timeout)
        B = Bcls("B", pipe.end("b"), response_timeout=b_timeout)
        ta, tb = asyncio.ensure_future(A.start()), asyncio.ensure_future(B.start())
        out = await call_outcome(A, request_obj, suppress, skip, uid)
        for t in (ta, tb):
            t.cancel()
        await asyncio.gather(ta, tb, return_exceptions=True)
        return out

    old = M.ASYNC_VALIDATION
    M.ASYNC_VALIDATION = async_validation
    try:
        outcome = asyncio.run(go())
    finally:
        M.ASYNC_VALIDATION = old
    calls = [m for (_, side, m) in frames if side == "a"]
    replies = [m for (_, side, m) in frames if side == "b"]
    return {"call": calls[0] if calls else None, "kwargs": seen.get("kwargs"), "reply": replies[0] if replies else None,
            "outcome": outcome, "frames": frames, "handler_self": seen.get("self")}


async def call_outcome(cp, obj, suppress, skip, uid):
    from ocpp.exceptions import OCPPError
    try:
        r = await cp.call(obj, suppress=suppress, unique_id=uid, skip_schema_validation=skip)
        if r is None:
            return ("none", None, 0)
        return ("result", fields_of(r), 0, r)
    except asyncio.TimeoutError:
        return ("timeout", None, 0)
    except OCPPError as e:
        return ("ocpp", (type(e).__name__, e.description, e.details), 0)
    except BaseException as e:  # noqa: BLE001
        return ("exc", type(e).__name__ + ": " + str(e)[:160], 0)


def run_relay(version, action, request_obj, final_behave, async_validation=False):
    """A -> B -> C: B's handler forwards its keywords with call() to C and returns what call() returned."""
    import ocpp.messages as M
    from ocpp.routing import on
    frames, seen = [], {}
    call_mod = importlib.import_module("ocpp.%s.call" % modname(version))

    async def go():
        ab, bc = Pipe("ab", frames), Pipe("bc", frames)

        async def final(self, **kwargs):
            seen["c_kwargs"] = copy.deepcopy(kwargs)
            return final_behave(kwargs)
        final.__name__ = "final"

        async def forward(self, **kwargs):
            seen["b_kwargs"] = copy.deepcopy(kwargs)
            res = await self._down.call(getattr(call_mod, action)(**kwargs), suppress=False, unique_id="relay-id")
            seen["b_result"] = res
            return res
        forward.__name__ = "forward"
        Bup = type("Bup", (_base(version),), {"forward": on(action)(forward)})
        Ccls = type("Cc", (_base(version),), {"final": on(action)(final)})
        A = _base(version)("A", ab.end("a"), response_timeout=3)
        Bu = Bup("Bu", ab.end("b"), response_timeout=3)
        Bd = _base(version)("Bd", bc.end("a"), response_timeout=3)
        Cc = Ccls("C", bc.end("b"), response_timeout=3)
        Bu._down = Bd
        ts = [asyncio.ensure_future(x.start()) for x in (A, Bu, Bd, Cc)]
        out = await call_outcome(A, request_obj, False, False, "a-id")
        for t in ts:
            t.cancel()
        await asyncio.gather(*ts, return_exceptions=True)
        return out

    old = M.ASYNC_VALIDATION
    M.ASYNC_VALIDATION = async_validation
    try:
        outcome = asyncio.run(go())
    finally:
        M.ASYNC_VALIDATION = old

    def pick(pipe, side):
        l = [m for (p, s, m) in frames if p == pipe and s == side]
        return l[0] if l else None
    return {"hop1": {"call": pick("ab", "a"), "kwargs": seen.get("b_kwargs"), "reply": pick("ab", "b"), "outcome": outcome},
            "hop2": {"call": pick("bc", "a"), "kwargs": seen.get("c_kwargs"), "reply": pick("bc", "b"),
                     "outcome": (("result", fields_of(seen["b_result"]), 0) if seen.get("b_result") is not None else None)},
            "frames": frames}


# ------------------------------------------------------------------------------- rendering
def cnobs(o):
    def fr(m):
        return "None" if m is None else "(Some %s)" % C.cjson(json.loads(m))
    kw = "None" if o.get("kwargs") is None else "(Some %s)" % C.cjson(o["kwargs"])
    oc = o.get("outcome")
    if oc is None:
        out = "None"
    else:
        t = H.coutcome(oc[:3])
        out = "(Some (%s))" % t[1:t.rindex(",")]
    return "(mkNObs %s %s %s %s)" % (fr(o.get("call")), kw, fr(o.get("reply")), out)


HEADER = C.CASE_HEADER + ("From OV.Model Require Import Names Schema Validate Frame Dispatch Endpoint Net Shipped "
                          "CaseHistory CaseNet.\n")


def loopback_plain(version, action, sreq, sresp, as_dc=False):
    """A loopback exchange with picklable arguments and result (for runs in a fresh interpreter): request and response
    given as snake_case dicts; returns (CALL text, handler kwargs, reply text, outcome kind, outcome fields)."""
    obj = make_request(version, action, sreq, as_dc)
    res = run_loopback(version, action, obj, lambda kwargs: make_result(version, action, sresp, as_dc))
    oc = res["outcome"]
    return (res["call"], res["kwargs"], res["reply"], oc[0], oc[1] if oc[0] in ("result", "ocpp", "exc") else None)
