"""Case generation and evaluation for the `dispatch` correspondence (C01, C05, C07, C16, C17, C18):
one inbound frame on one scripted endpoint."""
import json
import random

from harness import common as C
from harness import gen_instances as G
from harness import impl_dispatch as D

KW = {"required": [], "optional": [], "varkw": True, "uid": False}
KW_UID = {"required": [], "optional": [], "varkw": True, "uid": True}
KW_UID_KWONLY = {"required": [], "optional": [], "varkw": True, "uid": True, "uid_kwonly": True}

OCPP_ERRORS = ["NotImplementedError", "NotSupportedError", "InternalError", "ProtocolError", "SecurityError",
               "FormatViolationError", "FormationViolationError", "PropertyConstraintViolationError",
               "OccurenceConstraintViolationError", "OccurrenceConstraintViolationError",
               "TypeConstraintViolationError", "GenericError"]


def snake(payload):
    from ocpp.charge_point import camel_to_snake_case
    return camel_to_snake_case(payload)


def hook_variants(rng):
    outs = [("ret",), ("other", "KeyError", "k"), ("ocpp", "GenericError", "hook failed", {"a": 1}),
            ("other", "RuntimeError", "boom"), ("ocpp", "InternalError", None, None)]
    return outs


class Gen:
    def __init__(self, tier, seed):
        self.rng = random.Random(seed * 104729 + 5)
        self.tier = tier
        self.schemas = {"1.6": G.load_schemas("v16"), "2.0.1": G.load_schemas("v201")}
        self.index = G.message_index()
        self.actions = {"1.6": sorted({a for (v, _, mt, a, _) in self.index if v == "1.6"}),
                        "2.0.1": sorted({a for (v, _, mt, a, _) in self.index if v == "2.0.1"})}
        self.n = 0

    def req_name(self, version, action):
        return action if version == "1.6" else action + "Request"

    def instances(self, version, action, direction):
        name = self.req_name(version, action) if direction == "req" else action + "Response"
        pkg = "v16" if version == "1.6" else "v201"
        return G.instances_for(name, self.schemas[version][name], self.rng, "quick", combos=1)

    def hname(self, base):
        # names are deliberately reused across endpoint classes (the global `routables` list and
        # anything keyed by function name must cope with that)
        return base

    def route(self, action, out, sig=None, skip=False, is_async=False, after=None, after_sig=None, after_async=False):
        r = {"action": action, "skip": skip,
             "on": {"name": self.hname("on_" + action.lower()), "sig": sig or KW, "async": is_async, "out": out}}
        if after is not None:
            r["after"] = {"name": self.hname("after_" + action.lower()), "sig": after_sig or KW, "async": after_async,
                          "out": after}
            if self.rng.random() < 0.3:
                # a fresh pair of names whose hook is decorated (and so registered globally) first
                self.n += 1
                r["after_first"] = True
                r["on"]["name"] = "z%d_on_%s" % (self.n, action.lower())
                r["after"]["name"] = "a%d_after_%s" % (self.n, action.lower())
        return r

    def frame(self, uid, action, payload):
        return json.dumps([2, uid, action, payload])

    # ---------------------------------------------------------------- strata
    def stratum_handled(self, per_action):
        """valid / invalid CALLs to a handled action x handler outcomes x hooks x shapes."""
        cases = []
        rng = self.rng
        for version in ("1.6", "2.0.1"):
            acts = self.actions[version]
            chosen = acts if per_action == "all" else rng.sample(acts, min(per_action, len(acts)))
            # the decimal-validated messages are always in
            if version == "1.6":
                for a in ("SetChargingProfile", "RemoteStartTransaction", "GetCompositeSchedule"):
                    if a not in chosen:
                        chosen.append(a)
            for action in chosen:
                reqs = self.instances(version, action, "req")
                resps = self.instances(version, action, "resp")
                valid_reqs = [i for i in reqs if not i[2]]
                bad_reqs = [i for i in reqs if i[2]]
                valid_resps = [i for i in resps if not i[2]]
                # a None inside a result object is stripped before validation: not a violation of that constraint
                bad_resps = [i for i in resps if i[2] and "null" not in json.dumps(i[1])]
                vr = valid_resps[0][1]
                uid = rng.choice(["u-1", "", "ünï", "12345", "a" * 40])
                others = [self.route(a2, ("ret", {})) for a2 in rng.sample(acts, 2) if a2 != action]
                # 1. valid request, valid result, each hook variant once over the run
                hv = rng.choice(hook_variants(rng))
                sig = rng.choice([KW, KW_UID, KW_UID_KWONLY])
                asig = rng.choice([KW, KW_UID, KW_UID_KWONLY])
                req = rng.choice(valid_reqs)[1]
                cases.append(("ok", version, others + [self.route(action, ("ret", snake(rng.choice(valid_resps)[1])), sig=sig,
                                                                 is_async=rng.choice([False, True, "future", "awaitable"]), after=hv, after_sig=asig,
                                                                 after_async=rng.random() < 0.5)],
                              self.frame(uid, action, req), {"send_style": rng.choice([None, None, "task", "awaitable"])}))
                # 1b. the same kind of exchange while the connection refuses the write of the reply
                if rng.random() < 0.5:
                    cases.append(("send-fails", version, [self.route(action, ("ret", snake(vr)), after=("ret",),
                                                                     after_async=rng.random() < 0.5)],
                                  self.frame(uid, action, req), {"send_ok": False}))
                # 1c. another endpoint class of the process uses the SAME method names in the opposite roles
                #     (its on-handler is called like our after-hook and vice versa), defined before or after ours
                if rng.random() < 0.5:
                    mine = self.route(action, ("ret", snake(vr)), after=("ret",))
                    mine.pop("after_first", None)
                    mine["on"]["name"], mine["after"]["name"] = "shared_a", "shared_b"
                    other_action = rng.choice([a for a in acts if a != action])
                    theirs = {"action": other_action, "skip": False, "defined_after": rng.random() < 0.5,
                              "on": {"name": "shared_b", "sig": KW, "async": False, "out": ("ret", {})},
                              "after": {"name": "shared_a", "sig": KW, "async": False, "out": ("ret",)}}
                    cases.append(("ok-role-clash", version, [mine], self.frame(uid, action, req), {"prelude": [theirs]}))
                # 2. valid request, explicit-parameter handler
                if isinstance(req, dict):
                    sk = list(snake(req).keys())
                    top = self.schemas[version][self.req_name(version, action)]
                    allk = list(snake({k: 0 for k in G.resolve(top, top).get("properties", {})}).keys())
                    es = {"required": sk, "optional": [k for k in allk if k not in sk], "varkw": False,
                          "uid": rng.random() < 0.5}
                    cases.append(("explicit", version, [self.route(action, ("ret", snake(vr)), sig=es, after=("ret",),
                                                                  after_sig=es)], self.frame(uid, action, req)))
                # 3. invalid request (single violation): no handler, right code
                for b in rng.sample(bad_reqs, min(2, len(bad_reqs))):
                    cases.append(("bad-req", version, others + [self.route(action, ("ret", snake(vr)), after=("ret",))],
                                  self.frame(uid, action, b[1]), {"tags": b[2]}))
                    # the same invalid CALL while ANOTHER route of the endpoint skips validation
                    if others:
                        sk = [dict(o, skip=True) for o in others]
                        cases.append(("bad-req-other-skips", version, sk + [self.route(action, ("ret", snake(vr)), after=("ret",))],
                                      self.frame(uid, action, b[1]), {"tags": b[2]}))
                # 4. invalid result object
                for b in rng.sample(bad_resps, min(2, len(bad_resps))):
                    if isinstance(b[1], dict):
                        cases.append(("bad-res", version, [self.route(action, ("ret", snake(b[1])), after=("ret",),
                                                                     is_async=rng.random() < 0.5)],
                                      self.frame(uid, action, req), {"tags": b[2]}))
                # 5. handler raises
                e = rng.choice(OCPP_ERRORS)
                cases.append(("raise-ocpp", version, [self.route(action, ("ocpp", e, rng.choice([None, "dëscr", ""]),
                                                                          rng.choice([None, {"k": [1, {"z": None}]}])),
                                                                 after=("ret",), is_async=rng.random() < 0.5)],
                              self.frame(uid, action, req)))
                cases.append(("raise-other", version, [self.route(action, ("other", rng.choice(["RuntimeError", "ValueError", "KeyError", "SecretError", "TypeError", "TypeError"]),
                                                                           "secret-%d" % rng.randrange(10 ** 6)),
                                                                  after=("ret",), is_async=rng.random() < 0.5)],
                              self.frame(uid, action, req)))
                # 6. skip validation: invalid request delivered, invalid result written
                if bad_reqs:
                    b = rng.choice(bad_reqs)
                    if isinstance(b[1], dict):
                        res = rng.choice(bad_resps)[1] if bad_resps and rng.random() < 0.7 else vr
                        if isinstance(res, dict):
                            cases.append(("skip", version, others + [self.route(action, ("ret", snake(res)), skip=True,
                                                                               after=("ret",))],
                                          self.frame(uid, action, b[1])))
        return cases

    def stratum_unhandled(self, full):
        """C17: nothing registered for the action."""
        cases = []
        rng = self.rng
        names = sorted(set(self.actions["1.6"]) | set(self.actions["2.0.1"]))
        extra = ["heartbeat", "Heartbeat ", "HeartBeat", "", "BootNotificationX", "Reset\u0000", "ünknown",
                 "boot_notification", "Action", "__class__", "Dict", "datatypes", "HeartbeatRequest", "ResetResponse"]
        weird = [None, True, False, 0, 2, 1.5, [], ["Heartbeat"], {}, {"a": "Heartbeat"}, [[]]]
        payloads = [{}, {"x": 1}, [], "p", None, 7]
        for version in ("1.6", "2.0.1"):
            acts = self.actions[version]
            for a in names + extra:
                k = 3 if full else 1
                for _ in range(k):
                    mode = rng.choice(["none", "others", "after-only-other"])
                    routes = []
                    if mode != "none":
                        routes = [self.route(a2, ("ret", {})) for a2 in rng.sample(acts, 2) if a2 != a]
                    if mode == "after-only-other":
                        a3 = rng.choice([x for x in acts if x != a])
                        routes.append({"action": a3, "skip": False,
                                       "after": {"name": self.hname("after_" + a3.lower()), "sig": KW, "async": False, "out": ("ret",)}})
                    info = {}
                    if routes and routes[0].get("on") and rng.random() < 0.5:
                        # another class of the process gives the SAME handler name to the unhandled action itself
                        import copy as _copy
                        twin = _copy.deepcopy(routes[0])
                        twin["action"] = a if isinstance(a, str) and a else "Other"
                        twin["defined_after"] = rng.random() < 0.5
                        info = {"prelude": [twin]}
                    cases.append(("unhandled", version, routes, self.frame("id-%d" % rng.randrange(99), a, rng.choice(payloads)), info))
            # strings derived from the action names (suffixes older releases used for class names, other spellings):
            # none of them is an action, whatever registered handler their stem may name
            derive = [lambda a: a + "Payload", lambda a: a + "Request", lambda a: a + "Response", lambda a: a + "Req",
                      lambda a: a + ".req", lambda a: a + "Conf", lambda a: "On" + a, lambda a: a.lower(), lambda a: a.upper(),
                      lambda a: a.swapcase(), lambda a: a + " ", lambda a: " " + a, lambda a: a + "\n", lambda a: a[:-1],
                      lambda a: a + a[-1], lambda a: snake({a: 0}).popitem()[0], lambda a: "call." + a, lambda a: a + "\u0000"]
            stems = sorted(acts) if full else (["Heartbeat", "DataTransfer"] + sorted(acts)[::9])
            for di, f in enumerate(derive):
                for ai, a in enumerate(stems):
                    if not full and ai >= 2 and (ai + di) % 3:
                        continue
                    d = f(a)
                    if d in acts or d in names:
                        continue
                    # with and without a handler registered for the stem
                    routes = [self.route(a, ("ret", {}))] if (ai + di) % 2 else []
                    cases.append(("unhandled", version, routes, self.frame("dv-%d" % len(cases), d, rng.choice(payloads))))
            # 'the answer does not depend on the payload': payloads nested hundreds of levels deep (json.loads takes them)
            for depth in (300, 600, 1200):
                for (a, shape) in (("Heartbeat", "obj"), ("Nope", "arr"), (sorted(set(names) - set(acts))[0], "obj")):
                    deep = ('{"a":' * depth + "1" + "}" * depth) if shape == "obj" else ("[" * depth + "]" * depth)
                    routes = [self.route(a2, ("ret", {})) for a2 in rng.sample(acts, 2) if a2 != a]
                    cases.append(("unhandled", version, routes, '[2,"deep-%d",%s,%s]' % (depth, json.dumps(a), deep), {"no_model": True}))
            for w in weird:
                routes = [self.route(a2, ("ret", {})) for a2 in rng.sample(acts, 2)]
                cases.append(("unhandled-weird", version, routes, json.dumps([2, "w", w, rng.choice(payloads)])))
            # after-only route for the very action: validation runs first, then the key error
            for a in rng.sample(acts, 6 if full else 3):
                req = [i for i in self.instances(version, a, "req") if not i[2]][0][1]
                routes = [{"action": a, "skip": False,
                           "after": {"name": self.hname("after_" + a.lower()), "sig": KW, "async": False, "out": ("ret",)}}]
                cases.append(("after-only", version, routes, self.frame("ao", a, req)))
        return cases

    def stratum_frames(self):
        """Non-CALL and malformed frames, hostile ids / actions / payloads."""
        rng = self.rng
        cases = []
        ids = ["i", "", 0, -1, 2.5, None, True, [], {}, [1, "a"], {"k": None}, "x" * 300, 1e999, float("nan"), 10 ** 30]
        raws = [
            '[3,"i",{}]', '[3,"i",{"a":1},"Heartbeat"]', '[4,"i","GenericError","d",{}]', '[4,"i","GenericError","d"]',
            '[4,"i","NoSuchCode","",{"x":[1,2]}]', '[3,"i"]', '[3]', '[4,"i","c"]', '[4,"i","c","d",{},1]', '[3,"i",{},"a","b"]',
            '[2,"i","Heartbeat"]', '[2,"i","Heartbeat",{},1]', '[2]', '[]', '{}', '"str"', '5', 'null', 'true', '[5,"i","a",{}]',
            '[2.0,"i","Heartbeat",{}]', '[true,"i","Heartbeat",{}]', '["2","i","Heartbeat",{}]', '[null,"i","Heartbeat",{}]',
            '[[2],"i","Heartbeat",{}]', '[{},"i","Heartbeat",{}]', '[3.0,"i",{}]', '[4.0,"i","c","d",{}]',
            '', ' ', '[2,"i","Heartbeat",{}', '[2,"i","Heartbeat",{}]]', 'nope', '[2,"i","Heartbeat",{"a":}]', "﻿[2,\"i\",\"Heartbeat\",{}]",
            '[2,"i","Heartbeat",' + "1" * 5000 + ']', '[' * 3000 + ']' * 3000, '[2,"i","Heartbeat",' + '[' * 64 + ']' * 64 + ']',
            '[2,"i","Heartbeat",{"a":1e999}]', '[2,"i","Heartbeat",{"a":-1E+9999}]', '[2,"i","Heartbeat",{"a":NaN}]',
            '[2,"i","Heartbeat",{"a":Infinity,"b":-Infinity}]', '[2,"\\ud800","Heartbeat",{}]', '[2,"i","Heartbeat",{"a":"\\udfff"}]',
            '[2,"i","Heartbeat",{"a":1,"a":2}]', '[2, "i" , "Heartbeat" ,\n{ } ]', '[2,"i","Heartbeat",{}]\n',
            # a message type that is no integer at all: non-finite, huge, fractional
            '[1e999,"i","Heartbeat",{}]', '[-1e999,"i","Heartbeat",{}]', '[Infinity,"i","Heartbeat",{}]', '[NaN,"i","Heartbeat",{}]',
            '[-Infinity,"i",{}]', '[1e999]', '[2e0,"i","Heartbeat",{}]', '[2.5,"i","Heartbeat",{}]', '[1e30,"i","Heartbeat",{}]',
            '[' + '2' * 400 + ',"i","Heartbeat",{}]', '[-2,"i","Heartbeat",{}]', '[2,"i","Heartbeat",{"a":"' + "x" * 700,
        ]
        braws = [b'[2,"i","Heartbeat",{}]', b'\xff\xfe[2]', b'\xef\xbb\xbf[2,"i","Heartbeat",{}]', b'[2,"i","Heartbeat",{"a":"\xc3"}]',
                 b'\x00', b'', '[2,"ü","Heartbeat",{}]'.encode("utf-16"), '[2,"ü","Heartbeat",{}]'.encode("utf-32-le"),
                 bytearray(b'[3,"i",{}]'),
                 # long frames that do not decode (whatever is quoted of them in an error must cope with bytes)
                 b'\xff' * 600, b'[' * 1000, b'[2,"i","Heartbeat",{' + b'"k":1,' * 200, b'\x00' * 513,
                 bytearray(b'[2,"i","Heartbeat",{"a":"' + b'\xc3' * 600 + b'"}]'), '[2,"ü","Heartbeat",{}]'.encode("utf-16") * 40]
        for version in ("1.6", "2.0.1"):
            hb = self.route("Heartbeat", ("ret", {"current_time": "2024-01-01T00:00:00Z"}), after=("ret",))
            for raw in raws + braws:
                cases.append(("frame", version, [hb], raw))
            for i in ids:
                try:
                    raw = json.dumps([2, i, "Heartbeat", {}])
                except (TypeError, ValueError):
                    continue
                cases.append(("id", version, [hb], raw))
                cases.append(("id-unhandled", version, [], json.dumps([2, i, "Nope", {}])))
            for p in [[], "s", 5, None, True, {"extra": 1}, [{}], {"a": {"b": [None, {"c": None}]}}]:
                cases.append(("payload", version, [hb], json.dumps([2, "p", "Heartbeat", p])))
                sk = self.route("Heartbeat", ("ret", {"current_time": "t"}), skip=True, after=("ret",),
                                sig=rng.choice([KW, KW_UID, KW_UID_KWONLY]), after_sig=rng.choice([KW, KW_UID]))
                cases.append(("payload-skip", version, [sk], json.dumps([2, "p", "Heartbeat", p])))
            # an action of the application's own for which no schema is shipped: a validating route answers
            # NotImplemented (every time), a route that skips validation hands the payload to its handler
            for va in ("VendorDiagnostics", "Vendor_Custom"):
                for p in [{}, {"vendorKey": [1, {"nestedKey": None}]}, "text"]:
                    cases.append(("vendor", version, [self.route(va, ("ret", {}), after=("ret",))], json.dumps([2, "v", va, p])))
                    cases.append(("skip-vendor", version, [dict(self.route(va, ("ret", {}), skip=True), vendor=True)], json.dumps([2, "v", va, p])))
            # free-form data (DataTransfer.data of any shape, 2.0.1 customData) whose KEYS are unusual: doubled, leading and
            # trailing underscores, only underscores, empty, digits, non-ASCII -- inbound and in the handler's result
            odd = {"fw__rev": 1, "class_": [{"a__b": {"_": 0}}], "_lead": 2, "__": 3, "_": 4, "": 5, "9lives": 6, "ünï_cöde": 7,
                   "a_b_": {"__x__": [1]}, "soc": 1, "url_": 2, "x_url": 3}
            dt_req = {"vendorId": "v", "data": odd} if version == "1.6" else {"vendorId": "v", "data": odd, "customData": dict(odd, vendorId="v")}
            dt_res = {"status": "Accepted", "data": odd} if version == "1.6" else {"status": "Accepted", "data": odd, "custom_data": dict(odd, vendor_id="v")}
            if version == "2.0.1":
                cases.append(("ok", version, [self.route("DataTransfer", ("ret", dt_res), after=("ret",))],
                              json.dumps([2, "odd-keys", "DataTransfer", dt_req])))
            cases.append(("skip", version, [self.route("DataTransfer", ("ret", dt_res), skip=True, after=("ret",))],
                          json.dumps([2, "odd-keys-skip", "DataTransfer", dt_req])))
            # handler that cannot take the payload (explicit parameters) -> TypeError -> InternalError
            es = {"required": ["nope"], "optional": [], "varkw": False, "uid": False}
            cases.append(("bind-fail", version, [self.route("Heartbeat", ("ret", {"current_time": "t"}), sig=es)],
                          '[2,"b","Heartbeat",{}]'))
        return cases

    def stratum_kinds(self, per_kind=None):
        """every KIND of violation, deterministically: for each schema keyword (and the integral-float variant of
        `type: integer`) the first `per_kind` single-violation instances over all actions of both versions, as an
        invalid inbound CALL and as an invalid handler result; every multipleOf position of the 1.6 decimal messages"""
        per_kind = per_kind or (3 if self.tier == "quick" else 12)
        cases = []
        seen_req, seen_res = {}, {}
        for version in ("1.6", "2.0.1"):
            for action in sorted(self.actions[version]):
                reqs = self.instances(version, action, "req")
                resps = self.instances(version, action, "resp")
                valid_reqs = [i for i in reqs if not i[2] and isinstance(i[1], dict)]
                valid_resps = [i for i in resps if not i[2] and isinstance(i[1], dict)]
                if not valid_reqs or not valid_resps:
                    continue
                for (pool, seen, side) in ((reqs, seen_req, "req"), (resps, seen_res, "res")):
                    for b in pool:
                        if len(b[2]) != 1 or not isinstance(b[1], dict):
                            continue
                        kw = b[2][0][1].split(":")[0]
                        if b[0] == "viol:type-intfloat":
                            kw = "type-intfloat"
                        elif kw == "type":
                            # one kind per (label, JSON type the schema wants, JSON type that was put there instead)
                            full0 = next((i[1] for i in pool if i[0] == "valid-all"), None)
                            kw = "type-%s-%s-%s" % (b[0], _jtype(_at(full0, b[2][0][0])), _jtype(_at(b[1], b[2][0][0])))
                        if side == "res" and "null" in json.dumps(b[1]):
                            continue
                        decimal_pos = kw == "multipleOf" and version == "1.6"
                        key = (version, kw)
                        if seen.get(key, 0) >= per_kind and not decimal_pos:
                            continue
                        seen[key] = seen.get(key, 0) + 1
                        if kw == "type-intfloat":
                            # first the valid twin (the same payload with the integer): a verdict must not be
                            # remembered under Python equality, where 1 == 1.0 == True
                            full = next((i[1] for i in pool if i[0] == "valid-all"), None)
                            if isinstance(full, dict):
                                if side == "req":
                                    cases.append(("ok", version, [self.route(action, ("ret", snake(valid_resps[0][1])))],
                                                  self.frame("k-%d" % len(cases), action, full)))
                                else:
                                    cases.append(("ok", version, [self.route(action, ("ret", snake(full)))],
                                                  self.frame("k-%d" % len(cases), action, valid_reqs[0][1])))
                        if side == "req":
                            mine = self.route(action, ("ret", snake(valid_resps[0][1])), after=("ret",))
                            raw = self.frame("k-%d" % len(cases), action, b[1])
                        else:
                            mine = self.route(action, ("ret", snake(b[1])), after=("ret",))
                            raw = self.frame("k-%d" % len(cases), action, valid_reqs[0][1])
                        info = {"tags": b[2]}
                        if side == "res" and len(cases) % 5 == 3:
                            fr = json.loads(raw)
                            cases.append(("malformed-5th", version, [mine], json.dumps(fr + [True]), {"tags": b[2]}))
                        if side == "req" and len(cases) % 4 == 2:
                            # only an after-hook is registered for the action: the CALL is still validated first
                            mine = {k: v for k, v in mine.items() if k != "on"}
                            mine.pop("after_first", None)
                        if len(cases) % 2:
                            # another endpoint class of the process declares the SAME handler names for the same action
                            # but opts out of validation (defined before or after ours): that is its business only
                            import copy as _copy
                            twin = _copy.deepcopy(mine)
                            twin["skip"] = True
                            twin["defined_after"] = len(cases) % 4 == 1
                            info["prelude"] = [twin]
                        cases.append(("bad-req" if side == "req" else "bad-res", version, [mine], raw, info))
        return cases

    def stratum_all_actions(self):
        """every action of both versions once: a valid request (every optional present), a valid result, handler and hook
        registered through the member of the Action enumeration that carries the action's name"""
        cases = []
        for version in ("1.6", "2.0.1"):
            for n, action in enumerate(sorted(self.actions[version])):
                reqs = [i for i in self.instances(version, action, "req") if not i[2] and isinstance(i[1], dict)]
                resps = [i for i in self.instances(version, action, "resp") if not i[2] and isinstance(i[1], dict)]
                if not reqs or not resps:
                    continue
                r = self.route(action, ("ret", snake(resps[0][1])), after=("ret",), is_async=bool(n % 2), after_async=bool(n % 3 == 0))
                r["by_enum"] = True
                cases.append(("ok", version, [r], self.frame("all-%d" % n, action, reqs[0][1])))
        return cases

    def stratum_required_sequences(self, n_actions=8):
        """for some actions with several required properties: one CALL per missing property, back to back (the endpoint
        classes differ, the process and whatever it caches do not) -- every one is refused with the mapped code, none
        reaches the handler; likewise handler results missing one required property after the other"""
        cases = []
        for version in ("1.6", "2.0.1"):
            done = 0
            for action in sorted(self.actions[version]):
                reqs = self.instances(version, action, "req")
                resps = self.instances(version, action, "resp")
                valid_reqs = [i for i in reqs if not i[2] and isinstance(i[1], dict)]
                valid_resps = [i for i in resps if not i[2] and isinstance(i[1], dict)]
                miss_req = [i for i in reqs if len(i[2]) == 1 and i[2][0][1].startswith("required:") and isinstance(i[1], dict)]
                miss_res = [i for i in resps if len(i[2]) == 1 and i[2][0][1].startswith("required:") and isinstance(i[1], dict)
                            and "null" not in json.dumps(i[1])]
                if len(miss_req) < 2 or not valid_reqs or not valid_resps:
                    continue
                done += 1
                if done > n_actions:
                    break
                for b in miss_req + miss_req[:1]:
                    cases.append(("bad-req", version, [self.route(action, ("ret", snake(valid_resps[0][1])), after=("ret",))],
                                  self.frame("rq-%d" % len(cases), action, b[1]), {"tags": b[2]}))
                for b in miss_res + miss_res[:1]:
                    cases.append(("bad-res", version, [self.route(action, ("ret", snake(b[1])), after=("ret",))],
                                  self.frame("rs-%d" % len(cases), action, valid_reqs[0][1]), {"tags": b[2]}))
        return cases

    def stratum_cross_version(self):
        """actions both versions define: an ordinary exchange in one version, then the same action on an endpoint of the
        OTHER version with payloads written for the first one -- and the other way round (what one version's schema
        allows must not leak into the other's, whichever is used first in the process)"""
        cases = []
        both = sorted(set(self.actions["1.6"]) & set(self.actions["2.0.1"]))
        for n, action in enumerate(both):
            first, second = ("2.0.1", "1.6") if n % 2 == 0 else ("1.6", "2.0.1")
            r1 = [i for i in self.instances(first, action, "req") if not i[2] and isinstance(i[1], dict)]
            s1 = [i for i in self.instances(first, action, "resp") if not i[2] and isinstance(i[1], dict)]
            s2 = [i for i in self.instances(second, action, "resp") if not i[2] and isinstance(i[1], dict)]
            if not r1 or not s1 or not s2:
                continue
            cases.append(("ok", first, [self.route(action, ("ret", snake(s1[0][1])))], self.frame("x-%d" % len(cases), action, r1[0][1])))
            for inst in r1[:5:2]:
                cases.append(("cross", second, [self.route(action, ("ret", snake(s2[0][1])))],
                              self.frame("x-%d" % len(cases), action, inst[1])))
        return cases

    def all_cases(self):
        full = self.tier == "thorough"
        cases = self.stratum_handled("all" if full else 14)
        cases += self.stratum_all_actions()
        cases += self.stratum_unhandled(full)
        cases += self.stratum_frames()
        return cases


def _at(inst, path):
    cur = inst
    for part in [p for p in path.split("/") if p != ""]:
        try:
            cur = cur[int(part)] if isinstance(cur, list) else cur[part]
        except (KeyError, IndexError, ValueError, TypeError):
            return KeyError
    return cur


def _jtype(v):
    if isinstance(v, list) and v:
        return "list[%s]" % type(v[0]).__name__
    return "absent" if v is KeyError else type(v).__name__


# ------------------------------------------------------------------------------------------ evaluation
def norm(case):
    return case if len(case) == 5 else tuple(case) + ({},)


def run_repeats(rep, cases, prop_id, kinds, n=3, limit=40):
    """The same frame n times on ONE endpoint through the real receive loop: every repetition must be handled
    exactly like the first (same handler invocation, same reply) -- an endpoint keeps no state between CALLs that
    could change how the next one is validated, dispatched or answered."""
    done = 0
    for (kind, version, routes, raw, info) in map(norm, cases):
        if not any(kind.startswith(k) for k in kinds) or info.get("send_ok") is False or info.get("prelude") or not isinstance(raw, str):
            continue
        if len(raw) > 20000:
            continue
        done += 1
        if done > limit:
            break
        seq, how = D.observe_loop(version, routes, [raw] * n, "closed", False)
        rep.count("repeat:" + json.dumps([version, repr(routes), raw], default=repr))
        per, cur = {}, -1
        for e in seq:
            if e[0] == "recv":
                cur = e[1]
            elif e[0] == "handler":
                per.setdefault(cur, []).append(("handler", e[1], json.dumps(e[2], sort_keys=True, default=repr), repr(e[3])))
            elif e[0] == "send":
                per.setdefault(cur, []).append(("send", e[1]))
        first = per.get(0, [])
        for i in range(1, n):
            if per.get(i, []) != first:
                rep.violation("%s:state-dependent:%s:%s:%s" % (prop_id, kind, version, (O_parse_action(raw) or "?")),
                              "the same frame sent %d times to one endpoint: repetition %d was handled as %r, the first as %r" % (
                                  n, i + 1, per.get(i, [])[:3], first[:3]),
                              {"kind": "repeat", "stratum": kind, "version": version, "routes": routes, "frame": raw, "times": n,
                               "observation": seq, "ended": how})
                break
    rep.coverage["repeated_frames"] = rep.coverage.get("repeated_frames", 0) + done


def replay_repeat(d):
    routes = d["routes"]
    for r in routes:
        for k in ("on", "after"):
            if r.get(k):
                r[k]["out"] = tuple(r[k]["out"])
    n = d.get("times", 3)
    seq, how = D.observe_loop(d["version"], routes, [d["frame"]] * n, "closed", False)
    per, cur = {}, -1
    for e in seq:
        if e[0] == "recv":
            cur = e[1]
        elif e[0] in ("handler", "send"):
            per.setdefault(cur, []).append(e[:2])
    print("per repetition:", {k: v for k, v in per.items()})
    ok = all(per.get(i, []) == per.get(0, []) for i in range(1, n))
    print("HOLDS" if ok else "FAILS")
    return 0 if ok else 1


def O_parse_action(raw):
    try:
        fr = json.loads(raw)
        return fr[2] if isinstance(fr, list) and len(fr) > 2 and isinstance(fr[2], str) else None
    except ValueError:
        return None


def run_cases(rep, cases, tag, prop_id, oracle, async_modes=(False,), shard_size=120, view="VFull", kinds=None):
    """cases: [(kind, version, routes, raw)]. Runs each on the implementation, asks the direct
    oracle, then compares with the model in Coq -- in the property's own view (a disagreement there
    is a broken correspondence) and in full (recorded in the evidence as model fidelity only)."""
    terms = []
    meta = []
    for ci, (kind, version, routes, raw, info) in enumerate(map(norm, cases)):
        if kinds is not None and not any(kind.startswith(k) for k in kinds):
            continue
        for am in async_modes:
            send_ok = info.get("send_ok", True)
            obs = D.observe_frame(version, routes, raw, async_validation=am, send_ok=send_ok, prelude=info.get("prelude"),
                                  send_style=info.get("send_style"))
            rep.count(json.dumps([version, repr(routes), repr(raw)], default=repr))
            rep.add("stratum:" + kind)
            replay = {"kind": "dispatch", "stratum": kind, "version": version, "routes": routes, "info": info,
                      "frame": raw if isinstance(raw, str) else {"hex": bytes(raw).hex()},
                      "async_validation": am, "observation": obs}
            bad = oracle(kind, version, routes, raw, obs, info)
            for (key, what) in bad:
                rep.violation("%s:%s" % (prop_id, key), what, replay)
            if info.get("no_model"):
                continue                  # judged by the oracle alone (e.g. nesting beyond what the model's evaluation is given)
            val, lo = D.loads_outcome(raw)
            co = D.cobs(obs)
            if lo is None or co is None:
                rep.add("unrepresentable")
                if co is None and not bad:
                    rep.violation("%s:unparseable-write:%s" % (prop_id, repr(raw)[:80]),
                                  "the endpoint wrote a frame that is not OCPP-J", replay)
                continue
            terms.append("mkD %s %s %s %s" % (D.ccfg(version, routes), C.cbool(send_ok), lo, co))
            meta.append((kind, version, routes, raw, am, obs, bool(bad)))
    shards = [D.shard_source(terms[i:i + shard_size], view) for i in range(0, len(terms), shard_size)]
    outs = C.coq_eval_shards(tag, shards)
    broken = []
    for si, (idx, out) in enumerate(outs):
        if idx is None:
            rep.violation("%s:correspondence:dispatch:shard-failed" % prop_id,
                          "the dispatch correspondence could not be evaluated in Coq",
                          {"kind": "correspondence", "correspondence": "dispatch", "coq_output": out[-3000:],
                           "theorem": "dispatch correspondence (Model/Dispatch.v vs ChargePoint.route_message)"},
                          found_input=False)
            continue
        for i in idx:
            if i >= 1000000:
                rep.add("model_fidelity_mismatches_full_view")
                continue
            kind, version, routes, raw, am, obs, had_bad = meta[si * shard_size + i]
            if had_bad:
                continue        # already reported with a failing input
            broken.append((si * shard_size + i, kind, version, routes, raw, am, obs))
    if broken and not any(v[2] for v in rep.violations):
        # the correspondence no longer checks and the direct oracle found no failing input
        details = []
        for (gi, kind, version, routes, raw, am, obs) in broken[:5]:
            rc, desc = C.coq_query(tag + "-m", D.HEADER + "Eval vm_compute in dispatch_model (%s).\n" % terms[gi])
            details.append({"stratum": kind, "version": version, "routes": routes,
                            "frame": raw if isinstance(raw, str) else {"hex": bytes(raw).hex()},
                            "async_validation": am, "observation": obs, "model": desc[-1200:]})
        rep.violation("%s:corr:dispatch" % prop_id,
                      "model and implementation disagree on %d frame(s) in the observables of %s (first: %s, %s)" % (
                          len(broken), prop_id, broken[0][1], broken[0][2]),
                      {"kind": "correspondence", "correspondence": "dispatch (view %s)" % view, "cases": details,
                       "n_disagreements": len(broken),
                       "theorem": "dispatch correspondence (Model/Dispatch.v vs ChargePoint.route_message), view " + view},
                      found_input=False)
    elif broken:
        rep.coverage["correspondence_disagreements"] = len(broken)
    return len(terms)
