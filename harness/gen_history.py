"""Histories for the `history` correspondence (C02, C03, C04/C05/C16 outbound halves)."""
import json
import random

from harness import common as C
from harness import gen_dispatch as GD
from harness import gen_instances as G
from harness import impl_history as H

SIMPLE = {"1.6": ["Heartbeat", "Reset", "ClearCache", "Authorize", "GetCompositeSchedule", "SetChargingProfile",
                  "ChangeAvailability", "DataTransfer", "StatusNotification"],
          "2.0.1": ["Heartbeat", "Reset", "ClearCache", "Authorize", "GetVariables", "DataTransfer",
                    "StatusNotification", "TransactionEvent"]}


class HGen:
    def __init__(self, tier, seed):
        self.rng = random.Random(seed * 7907 + 11)
        self.tier = tier
        self.g = GD.Gen(tier, seed)

    def insts(self, version, action, direction):
        return self.g.instances(version, action, direction)

    def history(self, n_ops, timeout):
        rng = self.rng
        version = rng.choice(["1.6", "2.0.1"])
        hb = self.g.route("Heartbeat", ("ret", {"current_time": "2024-01-01T00:00:00Z"}), after=("ret",))
        routes = [hb]
        # routes that skip validation for actions this endpoint also calls itself: the flag of a route
        # must not leak into call()
        for a in ("DataTransfer", "Reset"):
            if rng.random() < 0.5:
                routes.append(self.g.route(a, ("ret", {"status": "Accepted"}), skip=True))
        ops = []
        started = {}      # k -> (uid, action)
        gen_n = 0
        next_k = 0
        t_choices = [0.25, 1, 5, timeout - 0.25, timeout, timeout + 0.25, int(timeout * 2) / 4 or 0.25, 2 * timeout]
        for _ in range(n_ops):
            r = rng.random()
            if r < 0.28 and next_k < 7:
                action = rng.choice(SIMPLE[version])
                reqs = self.insts(version, action, "req")
                valid = [i for i in reqs if not i[2] and isinstance(i[1], dict)]
                bad = [i for i in reqs if i[2] and isinstance(i[1], dict) and "null" not in json.dumps(i[1])]
                skip = rng.random() < 0.15
                if bad and rng.random() < 0.2:
                    payload = rng.choice(bad)[1]
                else:
                    payload = rng.choice(valid)[1]
                u = rng.random()
                if u < 0.5:
                    uid = None
                elif u < 0.8:
                    uid = rng.choice(["my-id", "my-id-2", "", "ü", "gen-0", "gen-1"])
                elif u < 0.9 and [v for v in started.values() if not str(v[0]).startswith("fail-")]:
                    # the same id as another caller
                    uid = rng.choice([v for v in started.values() if not str(v[0]).startswith("fail-")])[0]
                else:
                    uid = rng.choice([5, 0, True, 2.5, [1], {"a": 1}])
                send_ok = rng.random() > 0.12
                if not send_ok:
                    uid = "fail-%d" % next_k        # the harness fails writes by CALL id: keep it unique
                if uid is None:
                    real_uid = "gen-%d" % gen_n
                    gen_n += 1
                else:
                    real_uid = uid
                k = next_k
                next_k += 1
                started[k] = (real_uid, action)
                ops.append(("start", k, uid, action, GD.snake(payload), skip, rng.random() < 0.6, send_ok))
            elif r < 0.62:
                # a reply: matching / stale / unknown / duplicate
                if started and rng.random() < 0.7:
                    uid, action = rng.choice(list(started.values()))
                else:
                    uid, action = rng.choice(["nobody", "gen-7", 1, None, "my-id", "-1", -1, "0", ""]), rng.choice(SIMPLE[version])
                kind = rng.random()
                if kind < 0.6:
                    resps = self.insts(version, action, "resp")
                    valid = [i for i in resps if not i[2]]
                    bad = [i for i in resps if i[2]]
                    pl = rng.choice(bad)[1] if bad and rng.random() < 0.2 else rng.choice(valid)[1]
                    fr = [3, uid, pl]
                    if rng.random() < 0.05:
                        fr.append(rng.choice(SIMPLE[version]))
                    elif rng.random() < 0.12:
                        # a surplus 4th element naming ANOTHER action whose response schema the payload meets
                        other = rng.choice([a for a in SIMPLE[version] if a != action])
                        ov = [i for i in self.insts(version, other, "resp") if not i[2]]
                        fr = [3, uid, rng.choice(ov)[1], other]
                elif kind < 0.9:
                    code = rng.choice(["GenericError", "InternalError", "NotImplemented", "FormationViolation",
                                       "OccurrenceConstraintViolation", "SecurityError", "NoSuchCode", "", "genericerror"])
                    fr = [4, uid, code, rng.choice(["descr", "", None, "dëscr"]), rng.choice([{}, {"a": [1, None]}, None])]
                    if rng.random() < 0.1:
                        fr = fr[:4]
                else:
                    fr = [4, uid, rng.choice([5, None, ["GenericError"]]), "d", {}]
                ops.append(("inbound", json.dumps(fr)))
            elif r < 0.8:
                ops.append(("tick", rng.choice(t_choices)))
            elif r < 0.88 and started:
                ops.append(("cancel", rng.choice(list(started.keys()))))
            else:
                ops.append(("inbound", json.dumps([2, "in-%d" % rng.randrange(50), rng.choice(["Heartbeat", "Reset", "Nope"]), {}])))
        # epilogue: everything times out, the gate must be free, a new request works
        ops.append(("tick", timeout * (next_k + 2)))
        ops.append(("start", 99, "epilogue", "Heartbeat", {}, False, False, True))
        ops.append(("inbound", json.dumps([3, "epilogue", {"currentTime": "2024-01-01T00:00:00Z"}])))
        return version, routes, ops, timeout

    def stale_flood(self, n):
        """thousands of non-matching replies before / during the wait, then the matching one"""
        ops = [("inbound", json.dumps([3, "stale-%d" % i, {}])) for i in range(n // 2)]
        ops.append(("start", 0, None, "Heartbeat", {}, False, True, True))
        ops += [("inbound", json.dumps([3 if i % 2 else 4, "s-%d" % i, {}] if i % 2 else [4, "s-%d" % i, "GenericError", "", {}]))
                for i in range(n // 2)]
        ops.append(("tick", 5))
        ops.append(("inbound", json.dumps([3, "gen-0", {"currentTime": "t"}])))
        hb = self.g.route("Heartbeat", ("ret", {"current_time": "t"}))
        return "1.6", [hb], ops, 30

    def skip_overlap(self):
        """two overlapping calls with different skip flags: each reply is validated according to the flag of
        the call it answers, not of the call queued behind it"""
        out = []
        for version, bad_status in (("1.6", {"status": "NotAStatus"}), ("2.0.1", {"status": "NotAStatus", "extra": 1})):
            for a_skip in (False, True):
                ops = [("start", 0, "A", "Reset", {"type": "Hard" if version == "1.6" else "Immediate"}, a_skip, False, True),
                       ("start", 1, "B", "Reset", {"type": "Hard" if version == "1.6" else "Immediate"}, not a_skip, False, True),
                       ("inbound", json.dumps([3, "A", bad_status])),
                       ("inbound", json.dumps([3, "B", bad_status])),
                       ("tick", 1)]
                out.append((version, [], ops, 30))
        return out

    def skip_then_validate(self):
        """the same request twice on one endpoint, first with validation skipped, then without (and the other way round):
        what the first call did says nothing about the second"""
        out = []
        for version, bad in (("1.6", {"type": "NotAType"}), ("2.0.1", {"type": "NotAType", "extra": 1})):
            good = {"type": "Hard" if version == "1.6" else "Immediate"}
            for first_skip in (True, False):
                ops = []
                for k, (payload, skip) in enumerate([(bad, first_skip), (bad, not first_skip), (bad, first_skip), (good, False), (bad, False)]):
                    ops += [("start", k, "r%d" % k, "Reset", payload, skip, False, True),
                            ("inbound", json.dumps([3, "r%d" % k, {"status": "Accepted"}])), ("tick", 1)]
                out.append((version, [], ops, 30))
        return out

    def route_skip_does_not_leak(self):
        """the endpoint has a route for action X that skips validation (inbound), and itself calls X: its own requests and
        the replies to them are validated unless the call asked for skipping"""
        out = []
        for version, bad in (("1.6", {"type": "NotAType"}), ("2.0.1", {"type": "NotAType", "extra": 1})):
            good = {"type": "Hard" if version == "1.6" else "Immediate"}
            routes = [self.g.route("Reset", ("ret", {"status": "Accepted"}), skip=True),
                      self.g.route("DataTransfer", ("ret", {"status": "Accepted"}), skip=True)]
            ops = [("start", 0, "q0", "Reset", bad, False, False, True), ("tick", 1),
                   ("start", 1, "q1", "Reset", good, False, False, True),
                   ("inbound", json.dumps([3, "q1", {"status": "NotAStatus"}])), ("tick", 1),
                   ("inbound", json.dumps([2, "in-1", "Reset", bad])), ("tick", 1),
                   ("start", 2, "q2", "Reset", bad, False, False, True), ("tick", 1),
                   ("start", 3, "q3", "Reset", bad, True, False, True),
                   ("inbound", json.dumps([3, "q3", {"status": "NotAStatus"}])), ("tick", 1)]
            out.append((version, routes, ops, 30))
        return out

    def every_action_called(self):
        """call() for EVERY action of each version once (the request with every optional, a valid reply): it is written
        under its own action name and its reply comes back as the result -- whatever the action is called"""
        out = []
        for version in ("1.6", "2.0.1"):
            acts = sorted(self.g.actions[version])
            for part in (acts[::2], acts[1::2]):
                ops = []
                for k, action in enumerate(part):
                    reqs = [i for i in self.insts(version, action, "req") if not i[2] and isinstance(i[1], dict)]
                    resps = [i for i in self.insts(version, action, "resp") if not i[2] and isinstance(i[1], dict)]
                    if not reqs or not resps:
                        continue
                    ops += [("start", k, "ea-%d" % k, action, GD.snake(reqs[0][1]), False, False, True),
                            ("inbound", json.dumps([3, "ea-%d" % k, resps[0][1]])), ("tick", 1)]
                    # the instance of falsy values (0, "", false, [] where the schema allows them) where it differs
                    if len(reqs) > 2 and reqs[2][0] == "valid-falsy" and reqs[2][1] != reqs[0][1]:
                        ops += [("start", 1000 + k, "ef-%d" % k, action, GD.snake(reqs[2][1]), False, False, True),
                                ("inbound", json.dumps([3, "ef-%d" % k, resps[0][1]])), ("tick", 1)]
                out.append((version, [], ops, 30))
        return out

    def surplus_action(self):
        """a CALLRESULT frame with a surplus fourth element naming ANOTHER action whose response schema the payload meets:
        the reply is judged by the schema of the request it answers, whatever the peer appends"""
        out = []
        for version in ("1.6", "2.0.1"):
            good = {"type": "Hard" if version == "1.6" else "Immediate"}
            ops = [("start", 0, "s0", "Reset", good, False, False, True),
                   ("inbound", json.dumps([3, "s0", {"currentTime": "2024-01-01T00:00:00Z"}, "Heartbeat"])), ("tick", 1),
                   ("start", 1, "s1", "Heartbeat", {}, False, False, True),
                   ("inbound", json.dumps([3, "s1", {"status": "Accepted"}, "Reset"])), ("tick", 1),
                   ("start", 2, "s2", "Reset", good, False, False, True),
                   ("inbound", json.dumps([3, "s2", {"status": "Accepted"}, "Heartbeat"])), ("tick", 1),
                   ("start", 3, "s3", "Reset", good, False, True, True),
                   ("inbound", json.dumps([3, "s3", {"currentTime": "t"}, "Heartbeat"])), ("tick", 1)]
            out.append((version, [], ops, 30))
        return out

    def reply_burst(self, n):
        """a caller is waiting; the reader finds n stale replies and then the matching one all buffered and routes
        them back to back; before that, n unsolicited replies while nobody waits"""
        out = []
        for version in ("1.6", "2.0.1"):
            ops = [("burst", [json.dumps([3, "u-%d" % i, {}]) for i in range(n)]),
                   ("start", 0, "b0", "Heartbeat", {}, False, False, True),
                   ("burst", [json.dumps([3 if i % 3 else 4, "x-%d" % i, {}] if i % 3 else [4, "x-%d" % i, "GenericError", "", {}])
                              for i in range(n)] + [json.dumps([3, "b0", {"currentTime": "t"}])]),
                   ("tick", 1),
                   ("start", 1, "b1", "Heartbeat", {}, False, False, True),
                   ("inbound", json.dumps([3, "b1", {"currentTime": "t2"}]))]
            out.append((version, [], ops, 30))
        return out

    def special_ids(self):
        """replies whose id some convention treats specially ("-1" is what an OCPP 2.0.1 peer puts into the CALLERROR for a
        CALL whose id it could not read; also "", "0", null): they answer nobody's request unless a caller chose that
        very id -- queued before the request, arriving during the wait, as CALLERROR and as CALLRESULT"""
        out = []
        for version in ("1.6", "2.0.1"):
            for sid in ("-1", -1, "", "0", None):
                ops = [("inbound", json.dumps([4, sid, "GenericError", "early", {}])),
                       ("start", 0, "A", "Heartbeat", {}, False, False, True),
                       ("start", 7, "Q", "Heartbeat", {}, False, False, True),        # queued behind A
                       ("inbound", json.dumps([4, sid, "InternalError", "during", {}])),
                       ("inbound", json.dumps([3, sid, {"currentTime": "wrong"}])),
                       ("tick", 1),
                       ("inbound", json.dumps([3, "A", {"currentTime": "right"}])),
                       ("tick", 1),
                       ("inbound", json.dumps([3, "Q", {"currentTime": "queued"}])),
                       ("tick", 1),
                       ("start", 1, None, "Heartbeat", {}, False, True, True),
                       ("inbound", json.dumps([4, sid, "GenericError", "again", {}])),
                       ("tick", 1),
                       ("inbound", json.dumps([3, "gen-0", {"currentTime": "right2"}])),
                       ("tick", 1)]
                out.append((version, [], ops, 30))
        # several foreign replies arriving at DIFFERENT times during one wait neither shorten nor extend the deadline; ids that
        # are long or not strings are matched like any other
        for version in ("1.6", "2.0.1"):
            long_id = "CP-0042-3f2b8c1e-7a55-4e0d-9b1a-5d6c7e8f9a0b"
            ops = [("start", 0, "D", "Heartbeat", {}, False, False, True), ("tick", 0.5),
                   ("inbound", json.dumps([3, "x1", {}])), ("tick", 0.5), ("inbound", json.dumps([4, "x2", "GenericError", "", {}])),
                   ("tick", 0.25), ("inbound", json.dumps([3, "x3", {}])), ("tick", 0.5),
                   ("inbound", json.dumps([3, "D", {"currentTime": "at 1.75 of 2"}])), ("tick", 1),
                   ("start", 1, long_id, "Heartbeat", {}, False, False, True), ("tick", 0.25),
                   ("inbound", json.dumps([3, long_id, {"currentTime": "long id"}])), ("tick", 1),
                   ("start", 2, 4711, "Heartbeat", {}, False, False, True), ("tick", 0.25),
                   ("inbound", json.dumps([3, 4711, {"currentTime": "int id"}])), ("tick", 1),
                   ("start", 3, "E", "Heartbeat", {}, False, False, True), ("tick", 0.5),
                   ("inbound", json.dumps([3, "y1", {}])), ("tick", 0.75), ("inbound", json.dumps([3, "y2", {}])), ("tick", 0.5),
                   ("tick", 0.25), ("tick", 0.25),
                   ("inbound", json.dumps([3, "E", {"currentTime": "too late: 2.25"}])), ("tick", 1)]
            out.append((version, [], ops, 2))
        # a fractional response timeout is honoured to the fraction
        for version, timeout in (("1.6", 0.75), ("2.0.1", 2.5), ("1.6", 1.75)):
            ops = [("start", 0, "F", "Heartbeat", {}, False, False, True), ("tick", timeout - 0.25),
                   ("inbound", json.dumps([3, "F", {"currentTime": "in time"}])), ("tick", 0.25),
                   ("start", 1, "G", "Heartbeat", {}, False, False, True), ("tick", timeout - 0.25), ("tick", 0.25), ("tick", 0.25),
                   ("inbound", json.dumps([3, "G", {"currentTime": "late"}])), ("tick", 1)]
            out.append((version, [], ops, timeout))
        return out

    def error_codes(self):
        """one caller per OCPP error code (suppression off, then on): the matching CALLERROR must come back as
        exactly that error class resp. None; an undefined code as the unknown-code error"""
        from harness import oracles as O
        out = []
        for version in ("1.6", "2.0.1"):
            ops = []
            for k, code in enumerate(O.STANDARD_ERROR_CODES + ["NoSuchCode"]):
                ops.append(("start", k, "e%d" % k, "Heartbeat", {}, False, False, True))
                ops.append(("inbound", json.dumps([4, "e%d" % k, code, "descr %d" % k, {"k": k}])))
                ops.append(("tick", 1))
            for k, code in enumerate(["GenericError", "FormationViolation", "NoSuchCode"]):
                ops.append(("start", 50 + k, "s%d" % k, "Heartbeat", {}, False, True, True))
                ops.append(("inbound", json.dumps([4, "s%d" % k, code, "", {}])))
                ops.append(("tick", 1))
            out.append((version, [], ops, 30))
        return out

    def all(self):
        n = 60 if self.tier == "quick" else 600
        hs = []
        for i in range(n):
            timeout = self.rng.choice([30, 2, 10, 2.5, 0.75, 1.75, 30.25])
            hs.append(self.history(self.rng.choice([6, 12, 25, 40]) if self.tier == "quick" else self.rng.choice([10, 40, 120]), timeout))
        hs.append(self.stale_flood(300 if self.tier == "quick" else 3000))
        # the scenario families that C04/C05/C16 need come first (those checks take a prefix), then the random histories
        return self.skip_overlap() + self.skip_then_validate() + self.route_skip_does_not_leak() + self.surplus_action() + self.every_action_called() + hs + self.special_ids() + self.error_codes() + self.reply_burst(1100 if self.tier == "quick" else 2600)


def run_histories(rep, hs, tag, prop_id, oracle, view, shard_size=8, async_validation=False):
    terms, meta = [], []
    for (version, routes, ops, timeout) in hs:
        res = H.run_history(version, routes, ops, timeout, async_validation=async_validation)
        rep.count(json.dumps([version, ops, timeout], default=repr))
        rep.add("ops", len(ops))
        for o in ops:
            rep.add("op:" + o[0])
            if o[0] == "burst":
                rep.add("burst-frames", len(o[1]))
        for k, v in res["outcomes"].items():
            rep.add("outcome:" + v[0])
        replay = {"kind": "history", "version": version, "routes": routes, "ops": ops, "timeout": timeout,
                  "async_validation": async_validation, "observation": res}
        for key, what in oracle(version, routes, H.expand_ops(ops), timeout, res):
            rep.violation("%s:%s" % (prop_id, key), what, replay)
        t = H.chcase(version, routes, ops, timeout, res)
        if t is None:
            rep.add("unrepresentable")
            continue
        terms.append(t)
        meta.append((version, routes, ops, timeout, res))
    shards = [H.shard_source(terms[i:i + shard_size], view) for i in range(0, len(terms), shard_size)]
    outs = C.coq_eval_shards(tag, shards)
    broken = []
    for si, (idx, out) in enumerate(outs):
        if idx is None:
            rep.violation("%s:correspondence:history:shard-failed" % prop_id,
                          "the history correspondence could not be evaluated in Coq",
                          {"kind": "correspondence", "correspondence": "history", "coq_output": out[-3000:],
                           "theorem": "history correspondence (Model/Endpoint.v vs ChargePoint.call)"}, found_input=False)
            continue
        for i in idx:
            if i >= 1000000:
                rep.add("model_fidelity_mismatches_full_view")
            else:
                broken.append(si * shard_size + i)
    if broken and not any(v[2] for v in rep.violations):
        details = []
        for gi in broken[:3]:
            version, routes, ops, timeout, res = meta[gi]
            rc, desc = C.coq_query(tag + "-m", H.HEADER + "Definition h := %s.\nEval vm_compute in (rev (log (model_run h)), done_callers (model_run h)).\n" % terms[gi])
            details.append({"version": version, "routes": routes, "ops": ops, "timeout": timeout, "observation": res,
                            "model": desc[-3000:]})
        rep.violation("%s:corr:history" % prop_id,
                      "model and implementation disagree on %d histor%s in the observables of %s" % (
                          len(broken), "y" if len(broken) == 1 else "ies", prop_id),
                      {"kind": "correspondence", "correspondence": "history (view %s)" % view, "cases": details,
                       "n_disagreements": len(broken),
                       "theorem": "history correspondence (Model/Endpoint.v vs ChargePoint.call), view " + view},
                      found_input=False)
    elif broken:
        rep.coverage["correspondence_disagreements"] = len(broken)
    return len(terms)
