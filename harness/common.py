"""Shared machinery of the checks: paths, build of the Rocq development from the working
tree, evaluation of generated case files inside Coq, evidence, violations, known findings."""
import fcntl
import hashlib
import json
import os
import random
import re
import shutil
import subprocess
import sys
import time

VERIF = os.path.dirname(os.path.dirname(os.path.abspath(__file__)))
REPO = os.environ.get("OCPP_REPO", "/repo")
COQ = os.path.join(VERIF, "coq")
GEN = os.path.join(COQ, "Gen")
CASES = os.path.join(COQ, "Cases")
# OV_SCRATCH=1 (used only while trying seeded changes by hand): evidence and replays go to /tmp, so that
# the committed evidence always comes from runs on the unchanged tree
_SCRATCH = os.environ.get("OV_SCRATCH") == "1"
_SCRATCH_DIR = os.environ.get("OV_SCRATCH_DIR", "/tmp/ov-scratch")
EVID = os.path.join(_SCRATCH_DIR, "evidence") if _SCRATCH else os.path.join(VERIF, "evidence")
REPLAYS = os.path.join(_SCRATCH_DIR, "replays") if _SCRATCH else os.path.join(VERIF, "replays")
PY = "/venv/bin/python"
QFLAGS = ["-Q", "Model", "OV.Model", "-Q", "Gen", "OV.Gen", "-Q", "Props", "OV.Props"]
NCPU = os.cpu_count() or 4

TRUSTED_BASE = [
    "Coq 8.16.1 kernel (coqc, full .vo build) incl. its bytecode VM (vm_compute); no native_compute",
    "no axioms: Print Assumptions of every property theorem is captured below "
    "(expected 'Closed under the global context')",
    "harness/translate.py: transcription of schemas, dataclasses, enums, error classes into Gallina tables",
    "the correspondence harness (Python drivers on the real ocpp package from /repo, value->Gallina "
    "printers, comparison of property-relevant observables); generators bound what is exercised",
    "hand-written Gallina model of charge_point.py / messages.py / routing.py control flow "
    "(tied to the code only by the correspondence)",
    "CPython json/decimal/asyncio/dataclasses and jsonschema are modelled, not verified (DESIGN.md section 7)",
]


def raise_stack_limit():
    """Long string literals (maxLength boundary cases) nest deeply in Coq's parser."""
    import resource
    try:
        soft, hard = resource.getrlimit(resource.RLIMIT_STACK)
        want = 2 * 1024 ** 3           # an *unlimited* stack switches the kernel to the legacy mmap layout
        if hard != resource.RLIM_INFINITY:
            want = min(want, hard)
        resource.setrlimit(resource.RLIMIT_STACK, (want, hard))
    except (ValueError, OSError):
        pass


raise_stack_limit()


def log(*a):
    print(*a, file=sys.stderr, flush=True)


def reexec_in_venv():
    """The implementation side needs the repository's dependencies: run under /venv with the
    working tree first on sys.path and a fixed hash seed."""
    want_env = {"PYTHONPATH": REPO, "PYTHONHASHSEED": "0"}
    if os.path.realpath(sys.executable) != os.path.realpath(PY) or any(
            os.environ.get(k) != v for k, v in want_env.items()):
        if os.environ.get("OV_REEXEC") == "1":
            return
        env = dict(os.environ)
        env.update(want_env)
        env["OV_REEXEC"] = "1"
        os.execve(PY, [PY] + sys.argv, env)


def assert_repo_ocpp():
    import ocpp

    f = os.path.realpath(ocpp.__file__)
    if not f.startswith(os.path.realpath(REPO) + os.sep):
        raise SystemExit("ocpp imported from %s, not from %s" % (f, REPO))


# ------------------------------------------------------------------------------------ build
class BuildResult:
    def __init__(self):
        self.translator_ok = True
        self.translator_msg = ""
        self.rules_aborted = {}          # 'names' / 'validate' -> message (behaviour tables not extractable)
        self.make_ok = True
        self.make_log = ""
        self.failed_files = []
        self.cmds = []


_LOCK = None


def _lock():
    global _LOCK
    if _LOCK is None:
        _LOCK = open(os.path.join(VERIF, ".build.lock"), "w")
    fcntl.flock(_LOCK, fcntl.LOCK_EX)


def _unlock():
    fcntl.flock(_LOCK, fcntl.LOCK_UN)


def run(cmd, cwd=None, timeout=1800, env=None, input=None):
    t0 = time.time()
    p = subprocess.run(cmd, cwd=cwd, stdout=subprocess.PIPE, stderr=subprocess.STDOUT,
                       timeout=timeout, env=env, input=input, text=True)
    return p.returncode, p.stdout, time.time() - t0


def translate():
    """Regenerate coq/Gen from the working tree; only changed files are touched."""
    tmp = os.path.join(COQ, "Gen.tmp.%d" % os.getpid())
    shutil.rmtree(tmp, ignore_errors=True)
    os.makedirs(tmp)
    env = dict(os.environ, PYTHONPATH=REPO, PYTHONHASHSEED="0", OCPP_REPO=REPO)
    rc, out, _ = run([PY, os.path.join(VERIF, "harness", "translate.py"), tmp], env=env, timeout=300)
    out = "\n".join(l for l in out.splitlines() if "auto_activate" not in l)
    if rc != 0:
        shutil.rmtree(tmp, ignore_errors=True)
        return False, out
    write_known(tmp)
    os.makedirs(GEN, exist_ok=True)
    for f in sorted(os.listdir(tmp)):
        new = open(os.path.join(tmp, f)).read()
        dst = os.path.join(GEN, f)
        if not os.path.exists(dst) or open(dst).read() != new:
            with open(dst, "w") as fh:
                fh.write(new)
    shutil.rmtree(tmp, ignore_errors=True)
    return True, out


def write_known(outdir):
    """Gen/Known.v: the keys of the OPEN findings of known_findings.jsonl that table theorems carry
    as explicit exclusions (a fixed entry suppresses nothing and is not listed)."""
    dead = []
    for k in load_known():
        if k.get("status") == "open" and k.get("key", "").startswith("C12:dead:"):
            _, _, ver, enum, value = k["key"].split(":", 4)
            dead.append((ver, enum, value))
    lines = ["(* GENERATED from /verif/known_findings.jsonl (open findings only) -- do not edit *)",
             "From Coq Require Import List String.", "From OV.Model Require Import Json.",
             "Import ListNotations.", "Local Open Scope string_scope.", ""]
    for tag, ver in (("16", "1.6"), ("201", "2.0.1")):
        lines.append("Definition known_dead%s : list (string * string) := %s." % (
            tag, clist(["(%s, %s)" % (cs(e), cs(v)) for (vv, e, v) in dead if vv == ver])))
    with open(os.path.join(outdir, "Known.v"), "w") as fh:
        fh.write("\n".join(lines) + "\n")


def vfiles():
    out = []
    for d in ("Model", "Gen", "Props"):
        p = os.path.join(COQ, d)
        if os.path.isdir(p):
            out += [os.path.join(d, f) for f in sorted(os.listdir(p)) if f.endswith(".v")]
    return out


def ensure_build(targets=None, keep_going=True):
    """Translate, then (re)build the development. targets: list like ['Props/C10.vo'] or None=all.
    Never raises on a failed proof: returns a BuildResult the caller inspects."""
    res = BuildResult()
    _lock()
    try:
        ok, msg = translate()
        res.translator_ok, res.translator_msg = ok, msg
        for line in msg.splitlines():
            m = re.match(r"RULES-ABORTED (\w+): (.*)", line)
            if m:
                res.rules_aborted[m.group(1)] = m.group(2)
        files = vfiles()
        stamp = os.path.join(COQ, ".filelist")
        listing = "\n".join(files)
        if not os.path.exists(os.path.join(COQ, "Makefile")) or not os.path.exists(stamp) \
                or open(stamp).read() != listing:
            rc, out, _ = run(["coq_makefile", "-f", "_CoqProject"] + files + ["-o", "Makefile"], cwd=COQ)
            if rc != 0:
                res.make_ok = False
                res.make_log = out
                return res
            open(stamp, "w").write(listing)
        if targets and "Model/CaseLib.vo" not in targets:
            targets = list(targets) + ["Model/CaseLib.vo"]
        cmd = ["timeout", "1500", "make", "-j%d" % NCPU] + (["-k"] if keep_going else []) + (targets or [])
        res.cmds.append("cd coq && coq_makefile -f _CoqProject <Model Gen Props>/*.v -o Makefile && " + " ".join(cmd))
        rc, out, _ = run(cmd, cwd=COQ, timeout=1600)
        res.make_log = out
        res.make_ok = rc == 0
        res.failed_files = sorted(set(re.findall(r'File "\./([^"]+\.v)"', out)))
        return res
    finally:
        _unlock()


def hygiene():
    """No Admitted / admit / Axiom / Parameter / ... anywhere in the development."""
    bad = []
    pat = re.compile(r"\b(Admitted|admit|Axiom|Axioms|Parameter|Parameters|Conjecture|Abort All|"
                     r"Admit Obligations|bypass_check|Unset Guard Checking|Unset Positivity Checking|"
                     r"Unset Universe Checking)\b|type-in-type|impredicative-set")
    for f in vfiles():
        text = open(os.path.join(COQ, f)).read()
        text = re.sub(r"\(\*.*?\*\)", "", text, flags=re.S)
        for i, line in enumerate(text.splitlines(), 1):
            if pat.search(line):
                bad.append("%s:%d: %s" % (f, i, line.strip()))
        # Variable / Hypothesis outside a section declare axioms too
        depth = 0
        for i, line in enumerate(text.splitlines(), 1):
            if re.match(r"\s*Section\s", line):
                depth += 1
            elif re.match(r"\s*End\s", line) and depth > 0:
                depth -= 1
            elif depth == 0 and re.match(r"\s*(Variable|Variables|Hypothesis|Hypotheses|Context)\b", line):
                bad.append("%s:%d: %s (outside a section)" % (f, i, line.strip()))
    for flagfile in ("_CoqProject",):
        t = open(os.path.join(COQ, flagfile)).read()
        if "-arg" in t or "type-in-type" in t or "impredicative" in t:
            bad.append("%s carries extra arguments" % flagfile)
    return bad


def theorems_of(prop_id):
    p = os.path.join(COQ, "Props", prop_id + ".v")
    if not os.path.exists(p):
        return []
    return re.findall(r"^\s*(?:Theorem|Corollary)\s+([A-Za-z0-9_']+)", open(p).read(), flags=re.M)


def count_obligations(prop_id):
    """Theorems of Props/<id>.v plus the lemmas/theorems of the Model/*Proofs.v files it imports."""
    p = os.path.join(COQ, "Props", prop_id + ".v")
    if not os.path.exists(p):
        return 0, []
    text = open(p).read()
    n = len(re.findall(r"^\s*(?:Theorem|Lemma|Corollary|Example)\s", text, flags=re.M))
    files = ["Props/%s.v" % prop_id]
    seen = set()
    todo = re.findall(r"\b([A-Z][A-Za-z0-9]*Proofs)\b", " ".join(re.findall(r"^From OV\.Model Require Import ([^.]*)\.", text, flags=re.M)))
    while todo:
        m = todo.pop()
        if m in seen:
            continue
        seen.add(m)
        q = os.path.join(COQ, "Model", m + ".v")
        if os.path.exists(q):
            t = open(q).read()
            n += len(re.findall(r"^\s*(?:Theorem|Lemma|Corollary|Example)\s", t, flags=re.M))
            files.append("Model/%s.v" % m)
            todo += re.findall(r"\b([A-Z][A-Za-z0-9]*Proofs)\b", " ".join(re.findall(r"^From OV\.Model Require Import ([^.]*)\.", t, flags=re.M)))
    return n, files


def print_assumptions(prop_id):
    """Ask Coq for the assumptions of every theorem of the property (loads the compiled .vo)."""
    names = theorems_of(prop_id)
    if not names or not os.path.exists(os.path.join(COQ, "Props", prop_id + ".vo")):
        return {}
    d = case_dir(prop_id + "-assump")
    src = "From OV.Props Require Import %s.\n" % prop_id
    for n in names:
        src += 'Goal True. idtac "@@ %s". exact I. Qed.\nPrint Assumptions %s.\n' % (n, n)
    f = os.path.join(d, "assump.v")
    open(f, "w").write(src)
    rc, out, _ = run(["timeout", "600", "coqc"] + QFLAGS + [f], cwd=COQ, timeout=700)
    shutil.rmtree(d, ignore_errors=True)
    res = {}
    cur = None
    for line in out.splitlines():
        if line.startswith("@@ "):
            cur = line[3:].strip()
            res[cur] = ""
        elif cur is not None:
            res[cur] += line.strip() + " "
    return {k: v.strip() for k, v in res.items()}


# ------------------------------------------------------------------------------------ cases in Coq
def case_dir(tag):
    d = os.path.join(CASES, "%s-%d-%d" % (tag, os.getpid(), random.randrange(10 ** 9)))
    os.makedirs(d, exist_ok=True)
    return d


def _cs_plain(s):
    b = s.encode("utf-8", "surrogatepass")
    if all(32 <= c < 127 for c in b):
        return '"' + s.replace('"', '""') + '"'
    return '(unhex "' + b.hex() + '")'


def cs(s):
    """Gallina string term; long periodic strings (boundary-length cases) are written compactly."""
    if len(s) > 120:
        for p in (1, 2, 3, 4, 5, 6, 8):
            unit = s[:p]
            k = len(s) // p + 1
            if (unit * k)[:len(s)] == s:
                return "(cp_take %d (srepeat %s %d))" % (len(s), _cs_plain(unit), k)
    return _cs_plain(s)


def cz(z):
    return str(z) if z >= 0 else "(%d)" % z


def clist(items):
    return "[" + "; ".join(items) + "]"


def cbool(b):
    return "true" if b else "false"


def copt(x):
    return "None" if x is None else "(Some %s)" % x


def dec_of_str(s):
    from decimal import Decimal

    d = Decimal(s)
    sign, digits, exp = d.as_tuple()
    m = int("".join(map(str, digits)))
    while m != 0 and m % 10 == 0:
        m //= 10
        exp += 1
    if m == 0:
        exp = 0
    return (-m if sign else m), exp


def cnum(x):
    import decimal

    if isinstance(x, bool):
        raise TypeError("bool is not a num")
    if isinstance(x, int):
        return "(NInt %s)" % cz(x)
    if isinstance(x, float):
        if x != x:
            return "NNaN"
        if x in (float("inf"), float("-inf")):
            return "(NInf %s)" % cbool(x < 0)
        m, e = dec_of_str(repr(x))
        return "(NDec %s %s FFloat)" % (cz(m), cz(e))
    if isinstance(x, decimal.Decimal):
        if x.is_nan():
            return "NNaN"
        if x.is_infinite():
            return "(NInf %s)" % cbool(x < 0)
        # straight from the digit tuple: no int <-> str conversion (CPython limits those to 4300 digits)
        sign, digits, exp = x.as_tuple()
        ds = "".join(map(str, digits)).lstrip("0")
        stripped = ds.rstrip("0")
        exp += len(ds) - len(stripped)
        if not stripped:
            return "(NDec 0 0 FDecimal)"
        return "(NDec %s %s FDecimal)" % (("(-%s)" % stripped) if sign else stripped, cz(exp))
    raise TypeError("not a num: %r" % (x,))


def cjson(v):
    """Gallina term of OV.Model.Json.json for a Python value as json.loads produces it."""
    import decimal

    if v is None:
        return "JNull"
    if isinstance(v, bool):
        return "(JBool %s)" % cbool(v)
    if isinstance(v, (int, float, decimal.Decimal)):
        return "(JNum %s)" % cnum(v)
    if isinstance(v, str):
        return "(JStr %s)" % cs(v)
    if isinstance(v, (list, tuple)):
        if len(v) > 12:
            first = cjson(v[0])
            if all(cjson(x) == first for x in v[1:4]) and all(x == v[0] and type(x) is type(v[0]) for x in v):
                return "(JArr (repeat %s %d))" % (first, len(v))
        return "(JArr %s)" % clist([cjson(x) for x in v])
    if isinstance(v, dict):
        return "(JObj %s)" % clist(["(%s, %s)" % (cs(k), cjson(x)) for k, x in v.items()])
    raise TypeError("not JSON: %r" % (v,))


CASE_HEADER = """From Coq Require Import List ZArith Bool String.
From OV.Model Require Import Json CaseLib.
Import ListNotations.
Local Open Scope string_scope.
Local Open Scope Z_scope.
Local Open Scope list_scope.
"""


def parse_nat_list(out):
    """The (single) `= [..] : list ..` answer of an Eval; None if absent."""
    txt = " ".join(l.strip() for l in out.splitlines() if "auto_activate" not in l)
    m = re.search(r"=\s*(\[[^\]]*\])\s*:\s*list", txt)
    if not m:
        return None
    body = m.group(1).strip()[1:-1].strip()
    if not body:
        return []
    return [int(re.sub(r"%[a-zA-Z]+", "", x).strip()) for x in body.split(";")]


def coq_eval_shards(tag, shards, timeout=900):
    """shards: list of Coq sources, each ending in ONE `Eval vm_compute in <list nat>` whose value is
    the list of disagreeing case indices of that shard. Runs them in parallel.
    Returns list of (indices or None on failure, raw output)."""
    d = case_dir(tag)
    procs = []
    results = [None] * len(shards)
    try:
        paths = []
        for i, src in enumerate(shards):
            p = os.path.join(d, "shard_%d.v" % i)
            open(p, "w").write(src)
            paths.append(p)
        running = []
        idx = 0
        while idx < len(paths) or running:
            while idx < len(paths) and len(running) < NCPU:
                pr = subprocess.Popen(["timeout", str(timeout), "coqc"] + QFLAGS + [paths[idx]], cwd=COQ,
                                      stdout=subprocess.PIPE, stderr=subprocess.STDOUT, text=True)
                running.append((idx, pr))
                idx += 1
            i, pr = running.pop(0)
            out, _ = pr.communicate()
            if pr.returncode != 0:
                results[i] = (None, out)
            else:
                results[i] = (parse_nat_list(out), out)
    finally:
        shutil.rmtree(d, ignore_errors=True)
    return results


def coq_query(tag, src, timeout=600):
    """Run one Coq file and return (rc, output)."""
    d = case_dir(tag)
    try:
        p = os.path.join(d, "query.v")
        open(p, "w").write(src)
        rc, out, _ = run(["timeout", str(timeout), "coqc"] + QFLAGS + [p], cwd=COQ, timeout=timeout + 60)
        out = "\n".join(l for l in out.splitlines() if "auto_activate" not in l)
        return rc, out
    finally:
        shutil.rmtree(d, ignore_errors=True)


# ------------------------------------------------------------------------------------ findings / reporting
def load_known():
    p = os.path.join(VERIF, "known_findings.jsonl")
    out = []
    if os.path.exists(p):
        for line in open(p):
            line = line.strip()
            if line and not line.startswith("#"):
                out.append(json.loads(line))
    return out


class Report:
    """Collects what a check did; writes evidence and prints VIOLATION / KNOWN-FINDING lines."""

    def __init__(self, prop_id, tier, seed):
        self.prop_id, self.tier, self.seed = prop_id, tier, seed
        self.t0 = time.time()
        self.violations = []        # (key, replay_path, found_input)
        self.known_hits = []
        self.coverage = {"evaluations": 0, "distinct_nontrivial": 0, "rule": "", "samples": [],
                         "obligations": 0, "discharged": 0, "checker_cmd": "", "trusted_base": list(TRUSTED_BASE)}
        self.assumptions = []
        self.notes = {}
        self._distinct = set()
        self.known = [k for k in load_known() if k.get("property") == prop_id]

    # -- coverage bookkeeping
    def count(self, case_repr, nontrivial=True):
        self.coverage["evaluations"] += 1
        if nontrivial:
            h = hashlib.sha1(case_repr.encode("utf-8", "surrogatepass")).digest()[:10]
            self._distinct.add(h)

    def sample(self, x, limit=6):
        if len(self.coverage["samples"]) < limit:
            self.coverage["samples"].append(x)

    def add(self, key, n=1):
        self.notes[key] = self.notes.get(key, 0) + n

    # -- violations
    def violation(self, key, what, replay, found_input=True):
        """key identifies the specific failing input / item; replay is a JSON-able dict."""
        for k in self.known:
            if k.get("status") == "open" and k.get("key") == key:
                if key not in [h[0] for h in self.known_hits]:
                    self.known_hits.append((key, k.get("what", what)))
                return
        if key in [v[0] for v in self.violations]:
            return
        os.makedirs(REPLAYS, exist_ok=True)
        h = hashlib.sha1(key.encode("utf-8", "surrogatepass")).hexdigest()[:12]
        path = os.path.join(REPLAYS, "%s-%s.json" % (self.prop_id, h))
        body = {"property": self.prop_id, "key": key, "what": what, "seed": self.seed, "tier": self.tier,
                "found_failing_input": found_input,
                "replay_cmd": "python3 replay.py %s" % path}
        body.update(replay)
        with open(path, "w") as fh:
            json.dump(body, fh, indent=1, default=repr)
        self.violations.append((key, path, found_input))

    def finish(self, build=None, obligations=None, assumptions_out=None, extra=None):
        cov = self.coverage
        cov["distinct_nontrivial"] = len(self._distinct)
        if obligations is not None:
            cov["obligations"], cov["discharged"] = obligations
        if build is not None:
            cov["checker_cmd"] = "; ".join(build.cmds) or "make (coq_makefile) in /verif/coq"
        if assumptions_out:
            cov["print_assumptions"] = assumptions_out
        cov["notes"] = self.notes
        if extra:
            cov.update(extra)
        ev = {"property_id": self.prop_id, "tier": self.tier, "seed": self.seed, "level": "proof",
              "coverage": cov, "assumptions": self.assumptions,
              "wall_s": round(time.time() - self.t0, 2), "violations": len(self.violations)}
        os.makedirs(EVID, exist_ok=True)
        with open(os.path.join(EVID, self.prop_id + ".json"), "w") as fh:
            json.dump(ev, fh, indent=1, default=repr)
        for key, what in self.known_hits:
            print("KNOWN-FINDING: property=%s %s" % (self.prop_id, what))
        shown = self.violations[:15]
        for key, path, found in shown:
            print("VIOLATION property=%s replay=%s%s" % (self.prop_id, path, "" if found else " no-failing-input-found"))
        if len(self.violations) > len(shown):
            print("(%d further violations of %s: see %s)" % (len(self.violations) - len(shown), self.prop_id, REPLAYS))
        sys.stdout.flush()
        return 1 if self.violations else 0


def proof_status(rep, prop_id, build):
    """Common part of every check: hygiene, theorem file built, assumptions. Returns
    (ok, obligations tuple, assumptions dict); reports nothing itself except hygiene problems."""
    bad = hygiene()
    if bad:
        rep.violation("%s:hygiene" % prop_id, "the development contains forbidden declarations",
                      {"kind": "hygiene", "lines": bad, "theorem": "all"}, found_input=False)
    vo = os.path.join(COQ, "Props", prop_id + ".vo")
    built = build.make_ok and os.path.exists(vo) and \
        os.path.getmtime(vo) >= os.path.getmtime(os.path.join(COQ, "Props", prop_id + ".v"))
    n, files = count_obligations(prop_id)
    assumptions = print_assumptions(prop_id) if built else {}
    notclosed = {k: v for k, v in assumptions.items() if "Closed under the global context" not in v}
    if notclosed:
        rep.violation("%s:axioms" % prop_id, "a property theorem depends on axioms",
                      {"kind": "axioms", "assumptions": notclosed, "theorem": ",".join(notclosed)}, found_input=False)
    return built, (n, n if built else 0), assumptions


def coqchk(prop_id):
    """Independent re-check of the compiled theorem file and everything it depends on."""
    rc, out, dt = run(["timeout", "1500", "coqchk", "-silent", "-o"] + QFLAGS + ["OV.Props." + prop_id], cwd=COQ, timeout=1600)
    summary = out[out.find("CONTEXT SUMMARY"):] if "CONTEXT SUMMARY" in out else out[-1500:]
    m = re.search(r"\* Axioms:(.*?)\* Constants/Inductives relying on type-in-type", summary, flags=re.S)
    axioms = " ".join(m.group(1).split()) if m else "?"
    return rc, axioms, " ".join(summary.split())[:1200], dt


def standard_run(rep, prop_id, targets, body, rule, exhaustive=False):
    """The frame every check shares: build (translator + make of the property's theorem file and
    the case-support modules), proof status, then `body(rep)` (corpus, correspondences, direct
    oracles), then the broken-obligation protocol."""
    build = ensure_build(["Props/%s.vo" % prop_id] + list(targets))
    built, obl, assumptions = proof_status(rep, prop_id, build)
    rep.coverage["rule"] = rule
    if exhaustive:
        rep.coverage["exhaustive"] = True
    support_ok = all(os.path.exists(os.path.join(COQ, t)) for t in targets)
    for b in (body if isinstance(body, (list, tuple)) else [body]):
        b(rep, support_ok and build.translator_ok)
    for which, props in (("names", ("C10", "C06")), ("validate", ("C04", "C05", "C13", "C14", "C19"))):
        if which in build.rules_aborted and prop_id in props:
            # the behaviour tables could not be read off the (restructured) source: the model runs on the
            # hand-written tables of the pinned tree and the correspondence alone ties it to the code
            rep.coverage["rules_tie_%s" % which] = ("extraction from the source failed (%s); pinned tables used, "
                                                    "tie by correspondence only" % build.rules_aborted[which][:200])
    if not build.translator_ok:
        rep.violation("%s:translator" % prop_id,
                      "the translator rejected the working tree: " + build.translator_msg[-400:],
                      {"kind": "translator", "message": build.translator_msg,
                       "theorem": "all of Props/%s.v (tables could not be regenerated)" % prop_id},
                      found_input=bool(rep.violations))
    elif not built or not support_ok:
        if not rep.violations and not rep.known_hits:
            rep.violation("%s:theorem" % prop_id,
                          "Props/%s.v (or the model it rests on) no longer checks and no failing input was found" % prop_id,
                          {"kind": "theorem", "theorem": "Props/%s.v" % prop_id, "failed_files": build.failed_files,
                           "make_log": build.make_log[-3000:]}, found_input=False)
        else:
            rep.coverage["broken_obligation"] = {"failed_files": build.failed_files, "make_log": build.make_log[-1500:]}
    if rep.tier == "thorough" and built:
        rc, axioms, summary, dt = coqchk(prop_id)
        rep.coverage["coqchk"] = {"cmd": "coqchk -silent -o -Q Model OV.Model -Q Gen OV.Gen -Q Props OV.Props OV.Props." + prop_id,
                                  "exit": rc, "axioms": axioms, "summary": summary, "seconds": round(dt, 1)}
        if rc != 0 or axioms != "<none>":
            rep.violation("%s:coqchk" % prop_id, "coqchk does not accept Props/%s.vo without axioms: %s" % (prop_id, axioms),
                          {"kind": "axioms", "coqchk": summary, "theorem": "Props/%s.v" % prop_id}, found_input=False)
    return rep.finish(build=build, obligations=obl, assumptions_out=assumptions)
