#!/usr/bin/env python3
"""Entry point registered in MANIFEST.json:  python3 check.py <id> quick|thorough
                                              python3 check.py --setup"""
import importlib
import os
import sys

sys.path.insert(0, os.path.dirname(os.path.abspath(__file__)))
from harness import common  # noqa: E402


def main():
    common.reexec_in_venv()
    if len(sys.argv) >= 2 and sys.argv[1] == "--setup":
        os.makedirs(common.CASES, exist_ok=True)
        res = common.ensure_build()
        print(res.translator_msg)
        if not res.translator_ok or not res.make_ok:
            print(res.make_log[-4000:])
            print("setup: build incomplete (checks will report what is broken)")
        else:
            print("setup: development built")
        return 0
    if len(sys.argv) < 3:
        print(__doc__)
        return 2
    prop_id, tier = sys.argv[1], sys.argv[2]
    if os.environ.get("VERIF_TIER") in ("quick", "thorough") and tier not in ("quick", "thorough"):
        tier = os.environ["VERIF_TIER"]
    seed = int(os.environ.get("VERIF_SEED", "0") or 0)
    common.assert_repo_ocpp()
    os.makedirs(common.CASES, exist_ok=True)
    mod = importlib.import_module("harness.props." + prop_id.lower())
    rep = common.Report(prop_id, tier, seed)
    return mod.run(rep, tier, seed)


if __name__ == "__main__":
    sys.exit(main())
