#!/usr/bin/env python3
"""Entry point registered in MANIFEST.json:  python3 check.py <id> quick|thorough
                                              python3 check.py --setup"""
import importlib
import os
import sys

sys.path.insert(0, os.path.dirname(os.path.abspath(__file__)))
from harness import common  # noqa: E402


def main():
    common.reexec_in_venv()
    if len(sys.argv) >= 2 and sys.argv[1] == "--setup":
        os.makedirs(common.CASES, exist_ok=True)
        res = common.ensure_build()
        print(res.translator_msg)
        if not res.translator_ok or not res.make_ok:
            print(res.make_log[-4000:])
            print("setup: build incomplete (checks will report what is broken)")
        else:
            print("setup: development built")
        return 0
    if len(sys.argv) < 3:
        print(__doc__)
        return 2
    prop_id, tier = sys.argv[1], sys.argv[2]
    if os.environ.get("VERIF_TIER") in ("quick", "thorough") and tier not in ("quick", "thorough"):
        tier = os.environ["VERIF_TIER"]
    seed = int(os.environ.get("VERIF_SEED", "0") or 0)
    common.assert_repo_ocpp()
    os.makedirs(common.CASES, exist_ok=True)
    mod = importlib.import_module("harness.props." + prop_id.lower())
    rep = common.Report(prop_id, tier, seed)
    try:
        return mod.run(rep, tier, seed)
    except Exception:  # noqa: BLE001
        # The harness itself fell over -- typically because the implementation did something none of the drivers
        # expects (an exception of a new kind while objects are being built, a changed signature). The property is
        # then not shown to hold: say so in the agreed form instead of dying with a traceback.
        import traceback
        tb = traceback.format_exc()
        sys.stderr.write(tb)
        rep.violation("%s:harness-exception" % prop_id,
                      "the check could not be completed: %s" % tb.strip().splitlines()[-1][:300],
                      {"kind": "harness-exception", "traceback": tb[-4000:],
                       "theorem": "all of Props/%s.v (the correspondence could not be run to its end)" % prop_id},
                      found_input=False)
        return rep.finish()


if __name__ == "__main__":
    sys.exit(main())
