(* CacheProofs.v -- verdicts do not depend on what was validated before, nor on interleaving. *)
From Coq Require Import List ZArith Bool String Ascii Lia.
From OV.Model Require Import Json Schema SchemaProofs Validate Cache.
Import ListNotations.

Section Proofs.
  Variable tbl : version -> list (string * schema).
  (* the requests the property speaks about: those of a set R on which the cache key determines
     the float mode (for the shipped tables: every action of its version, in both directions) *)
  Variable R : req -> Prop.
  Hypothesis key_mode : forall r r', R r -> R r' -> rq_key r = rq_key r' -> rq_mode r = rq_mode r'.

  Definition consistent (c : cache) : Prop :=
    forall k sm, In (k, sm) c -> exists r, R r /\ rq_key r = k /\ rq_mode r = sm.

  Lemma assoc_In {A} k (l : list (string * A)) v : assoc k l = Some v -> In (k, v) l.
  Proof.
    induction l as [|[k' v'] r IH]; simpl; [discriminate|].
    destruct (String.eqb k k') eqn:E.
    - intros H. injection H as <-. apply String.eqb_eq in E. subst. left. reflexivity.
    - intros H. right. apply IH. exact H.
  Qed.

  Lemma with_mode_own r : with_mode tbl (rq_mode r) r = pure_verdict tbl r.
  Proof. unfold with_mode, pure_verdict, validate, rq_mode. destruct (assoc _ _); reflexivity. Qed.

  Lemma step_verdict c r :
    consistent c -> R r -> snd (validate_step tbl c r) = pure_verdict tbl r /\ consistent (fst (validate_step tbl c r)).
  Proof.
    intros Hc Hr. unfold validate_step.
    destruct (assoc (rq_key r) c) as [sm|] eqn:Ea.
    - simpl. split; [|exact Hc].
      destruct (Hc _ _ (assoc_In _ _ _ Ea)) as [r' [Hr' [Hk Hm]]].
      rewrite <- Hm. rewrite (key_mode r' r Hr' Hr Hk). apply with_mode_own.
    - destruct (assoc (schema_name (rq_ver r) (rq_mt r) (rq_action r)) (tbl (rq_ver r))) as [s|] eqn:Es; simpl.
      + split; [apply with_mode_own|]. intros k sm [H|H].
        * injection H as <- <-. exists r. repeat split. exact Hr.
        * apply Hc. exact H.
      + split; [|exact Hc]. unfold pure_verdict, validate. rewrite Es. reflexivity.
  Qed.

  Lemma run_consistent h : Forall R h -> forall c, consistent c -> consistent (fold_left (fun c r => fst (validate_step tbl c r)) h c).
  Proof.
    induction h as [|r h IH]; intros HF c Hc; simpl; [exact Hc|].
    inversion HF as [|x l Hx Hl]; subst. apply IH; [exact Hl|]. apply step_verdict; assumption.
  Qed.

  (* the verdict of any request is the same after any history of requests *)
  Theorem history_independent h r :
    Forall R h -> R r -> snd (validate_step tbl (run_cache tbl h) r) = pure_verdict tbl r.
  Proof.
    intros HF Hr. apply step_verdict; [|exact Hr].
    apply run_consistent; [exact HF|]. intros k sm [].
  Qed.

  (* --- threads --- *)
  Definition tstate_ok (t : tstate) : Prop :=
    match t with
    | TInit r => R r
    | TLoaded r sm => R r /\ sm = rq_mode r
    | TDone r res => R r /\ res = pure_verdict tbl r
    end.

  Lemma thread_step_ok c t :
    consistent c -> tstate_ok t ->
    consistent (fst (thread_step tbl c t)) /\ tstate_ok (snd (thread_step tbl c t)).
  Proof.
    intros Hc Ht. destruct t as [r|r sm|r res]; simpl in *.
    - destruct (assoc (rq_key r) c) as [sm|] eqn:Ea; simpl.
      + split; [exact Hc|]. split; [exact Ht|].
        destruct (Hc _ _ (assoc_In _ _ _ Ea)) as [r' [Hr' [Hk Hm]]].
        rewrite <- Hm. rewrite (key_mode r' r Hr' Ht Hk). apply with_mode_own.
      + destruct (assoc (schema_name (rq_ver r) (rq_mt r) (rq_action r)) (tbl (rq_ver r))) as [s|] eqn:Es; simpl.
        * split; [exact Hc|]. split; [exact Ht | reflexivity].
        * split; [exact Hc|]. split; [exact Ht|]. unfold pure_verdict, validate. rewrite Es. reflexivity.
    - destruct Ht as [Hr ->]. split.
      + intros k sm' [H|H]; [injection H as <- <-; exists r; repeat split; exact Hr | apply Hc; exact H].
      + split; [exact Hr | apply with_mode_own].
    - split; [exact Hc | exact Ht].
  Qed.

  Lemma Forall_update_nth {A} (P : A -> Prop) n x l : Forall P l -> P x -> Forall P (update_nth n x l).
  Proof.
    revert n. induction l as [|y r IH]; intros n HF Hx; [destruct n; simpl; constructor|].
    inversion HF; subst. destruct n; simpl; constructor; auto.
  Qed.

  Lemma nth_error_Forall {A} (P : A -> Prop) l n x : Forall P l -> nth_error l n = Some x -> P x.
  Proof.
    revert n. induction l as [|y r IH]; intros n HF H; destruct n; simpl in H; try discriminate.
    - injection H as <-. inversion HF; assumption.
    - inversion HF; subst. eapply IH; eassumption.
  Qed.

  (* under every schedule, every thread that finishes has the verdict of a validation run alone *)
  Theorem threads_independent sched : forall c ts,
    consistent c -> Forall tstate_ok ts ->
    Forall tstate_ok (snd (run_threads tbl sched c ts)) /\ consistent (fst (run_threads tbl sched c ts)).
  Proof.
    induction sched as [|i rest IH]; intros c ts Hc Hts; simpl; [split; assumption|].
    destruct (nth_error ts i) as [t|] eqn:En; [|apply IH; assumption].
    pose proof (thread_step_ok c t Hc (nth_error_Forall _ _ _ _ Hts En)) as [H1 H2].
    destruct (thread_step tbl c t) as [c' t'] eqn:Et. simpl in H1, H2.
    apply IH; [exact H1|]. apply Forall_update_nth; assumption.
  Qed.
End Proofs.

(* the cache key determines the mode on a finite request set: decidable check *)
Definition keys_functional (l : list (string * mode)) : bool :=
  forallb (fun p => forallb (fun q => negb (String.eqb (fst p) (fst q)) || mode_eqb (snd p) (snd q)) l) l.

Lemma keys_functional_spec l :
  keys_functional l = true -> forall k m m', In (k, m) l -> In (k, m') l -> m = m'.
Proof.
  unfold keys_functional. rewrite forallb_forall. intros H k m m' H1 H2.
  specialize (H _ H1). rewrite forallb_forall in H. specialize (H _ H2). simpl in H.
  rewrite String.eqb_refl in H. simpl in H. destruct m, m'; try reflexivity; discriminate.
Qed.
