(* JsonRoundTrip.v -- parsing the text json.dumps writes gives the value back:
   [loads limit (print_compact v) = LValue v] for every well-formed v nested at most [limit] deep.
   Numbers, strings, then the structure. *)
From Coq Require Import List ZArith NArith Bool String Ascii Lia.
From OV.Model Require Import Json Digits DigitsProofs JsonText JsonParse JsonParseProofs Utf8Proofs StringRoundTrip.
Import ListNotations.
Local Open Scope string_scope.

Lemma sapp_assoc (a b c : string) : (a ++ b) ++ c = a ++ (b ++ c).
Proof. induction a as [|x a IH]; [reflexivity|]. simpl. rewrite IH. reflexivity. Qed.

Lemma sapp_nil_r (a : string) : a ++ "" = a.
Proof. induction a as [|x a IH]; [reflexivity|]. simpl. rewrite IH. reflexivity. Qed.

Lemma sapp_length (a b : string) : String.length (a ++ b) = String.length a + String.length b.
Proof. induction a as [|x a IH]; [reflexivity|]. simpl. rewrite IH. reflexivity. Qed.

(* ------------------------------------------------------------------ numbers *)
(* what may follow a number literal: not a digit, not ".", not "e"/"E" *)
Definition num_follow (rest : string) : bool :=
  match rest with
  | EmptyString => true
  | String c _ =>
      let n := N_of_ascii c in
      (negb (is_digit c) && negb (N.eqb n 46) && negb (N.eqb n 101) && negb (N.eqb n 69))%bool
  end.

Lemma num_follow_nodigit rest : num_follow rest = true -> starts_with_digit rest = false.
Proof.
  destruct rest as [|c r]; [reflexivity|]. unfold num_follow, starts_with_digit.
  destruct (is_digit c); [discriminate|reflexivity].
Qed.

Lemma eqb_dchar d k : (d < 10)%N -> (k < 48 \/ 57 < k)%N -> N.eqb (N_of_ascii (dchar d)) k = false.
Proof. intros D K. rewrite N_of_ascii_dchar by exact D. apply N.eqb_neq. lia. Qed.

Lemma scan_sign_minus s : scan_sign (String "-" s) = (true, s).
Proof. reflexivity. Qed.

Lemma scan_sign_digit d ds rest : (d < 10)%N -> scan_sign (dstr (d :: ds) ++ rest) = (false, dstr (d :: ds) ++ rest).
Proof. intros D. cbn [dstr append scan_sign]. rewrite eqb_dchar by (auto; lia). reflexivity. Qed.

Lemma scan_int_zero T : scan_int (dstr [0%N] ++ T) = Some ([0%N], T).
Proof. reflexivity. Qed.

Lemma scan_int_nz d ds T :
  (d < 10)%N -> d <> 0%N -> Forall lt10 ds -> starts_with_digit T = false ->
  scan_int (dstr (d :: ds) ++ T) = Some (d :: ds, T).
Proof.
  intros D NZ F S. cbn [dstr append scan_int].
  rewrite N_of_ascii_dchar by exact D.
  replace (N.eqb (48 + d) 48) with false by (symmetry; apply N.eqb_neq; lia).
  rewrite is_digit_dchar by exact D.
  change (String (dchar d) (dstr ds ++ T)) with (dstr (d :: ds) ++ T).
  rewrite scan_digits_dstr; [reflexivity|constructor; assumption|exact S].
Qed.

Lemma scan_frac_some d ds T :
  Forall lt10 (d :: ds) -> starts_with_digit T = false ->
  scan_frac (String "." (dstr (d :: ds) ++ T)) = (Some (d :: ds), T).
Proof.
  intros F S. unfold scan_frac. change (N.eqb (N_of_ascii ".") 46) with true.
  rewrite starts_with_digit_dstr by (inversion F; assumption). cbn [andb].
  rewrite scan_digits_dstr by assumption. reflexivity.
Qed.

Lemma scan_frac_none T :
  match T with String c _ => N.eqb (N_of_ascii c) 46 = false | EmptyString => True end ->
  scan_frac T = (None, T).
Proof. destruct T as [|c r]; [reflexivity|]. intros H. unfold scan_frac. rewrite H. reflexivity. Qed.

Lemma scan_exp_some (neg : bool) d ds T :
  Forall lt10 (d :: ds) -> starts_with_digit T = false ->
  scan_exp (String "e" (String (if neg then "-" else "+")%char (dstr (d :: ds) ++ T))) = (Some (neg, d :: ds), T).
Proof.
  intros F S. unfold scan_exp. change (N.eqb (N_of_ascii "e") 101) with true. cbn [orb].
  destruct neg.
  - change (N.eqb (N_of_ascii "-") 45) with true. cbn [orb].
    rewrite starts_with_digit_dstr by (inversion F; assumption).
    rewrite scan_digits_dstr by assumption. reflexivity.
  - change (N.eqb (N_of_ascii "+") 45) with false. change (N.eqb (N_of_ascii "+") 43) with true. cbn [orb].
    rewrite starts_with_digit_dstr by (inversion F; assumption).
    rewrite scan_digits_dstr by assumption. reflexivity.
Qed.

Lemma scan_exp_none T :
  match T with
  | String c _ => N.eqb (N_of_ascii c) 101 = false /\ N.eqb (N_of_ascii c) 69 = false
  | EmptyString => True
  end -> scan_exp T = (None, T).
Proof.
  destruct T as [|c r]; [reflexivity|]. intros [H1 H2]. unfold scan_exp. rewrite H1, H2. reflexivity.
Qed.

Lemma num_follow_frac rest : num_follow rest = true ->
  match rest with String c _ => N.eqb (N_of_ascii c) 46 = false | EmptyString => True end.
Proof.
  destruct rest as [|c r]; [trivial|]. unfold num_follow.
  destruct (is_digit c); [discriminate|]. destruct (N.eqb (N_of_ascii c) 46); [discriminate|reflexivity].
Qed.

Lemma num_follow_exp rest : num_follow rest = true ->
  match rest with
  | String c _ => N.eqb (N_of_ascii c) 101 = false /\ N.eqb (N_of_ascii c) 69 = false
  | EmptyString => True
  end.
Proof.
  destruct rest as [|c r]; [trivial|]. unfold num_follow.
  destruct (is_digit c); [discriminate|]. destruct (N.eqb (N_of_ascii c) 46); [discriminate|].
  destruct (N.eqb (N_of_ascii c) 101); [discriminate|]. destruct (N.eqb (N_of_ascii c) 69); [discriminate|].
  split; reflexivity.
Qed.

(* the integer part of a literal: "0" or digits with a nonzero head *)
Definition int_part (ip : list N) : Prop :=
  ip = [0%N] \/ (exists d ds, ip = d :: ds /\ (d < 10)%N /\ d <> 0%N /\ Forall lt10 ds).

Lemma scan_int_part ip T : int_part ip -> starts_with_digit T = false -> scan_int (dstr ip ++ T) = Some (ip, T).
Proof.
  intros [->|[d [ds [-> [D [NZ F]]]]]] S; [apply scan_int_zero|apply scan_int_nz; assumption].
Qed.

Lemma int_part_digits n : int_part (digits n).
Proof.
  destruct (N.eq_dec n 0) as [->|NZ]; [left; reflexivity|].
  right. destruct (digits_head n NZ) as [d [r [E D]]]. exists d, r.
  pose proof (digits_lt10 n) as F. rewrite E in F. inversion F; subst.
  split; [exact E|split; [assumption|split; assumption]].
Qed.

Lemma int_part_head ip : int_part ip -> exists d ds, ip = d :: ds /\ (d < 10)%N /\ Forall lt10 ds.
Proof.
  intros [->|[d [ds [-> [D [NZ F]]]]]].
  - exists 0%N, []. split; [reflexivity|split; [reflexivity|constructor]].
  - exists d, ds. split; [reflexivity|split; assumption].
Qed.

(* the four literal shapes *)
Lemma scan_number_int (neg : bool) ip rest :
  int_part ip -> num_follow rest = true ->
  scan_number ((if neg then "-" else "") ++ dstr ip ++ rest) = Some (mkNumlit neg ip None None, rest).
Proof.
  intros IP NF. destruct (int_part_head ip IP) as [d [ds [E [D F]]]].
  unfold scan_number.
  assert (SS : scan_sign ((if neg then "-" else "") ++ dstr ip ++ rest) = (neg, dstr ip ++ rest)).
  { destruct neg; [reflexivity|]. subst ip. apply scan_sign_digit, D. }
  rewrite SS. rewrite scan_int_part by (auto using num_follow_nodigit).
  rewrite scan_frac_none by (apply num_follow_frac, NF).
  rewrite scan_exp_none by (apply num_follow_exp, NF). reflexivity.
Qed.

Lemma scan_number_frac (neg : bool) ip fd fds rest :
  int_part ip -> Forall lt10 (fd :: fds) -> num_follow rest = true ->
  scan_number ((if neg then "-" else "") ++ dstr ip ++ String "." (dstr (fd :: fds) ++ rest))
  = Some (mkNumlit neg ip (Some (fd :: fds)) None, rest).
Proof.
  intros IP FF NF. destruct (int_part_head ip IP) as [d [ds [E [D F]]]].
  unfold scan_number.
  assert (SS : scan_sign ((if neg then "-" else "") ++ dstr ip ++ String "." (dstr (fd :: fds) ++ rest))
               = (neg, dstr ip ++ String "." (dstr (fd :: fds) ++ rest))).
  { destruct neg; [reflexivity|]. subst ip. apply scan_sign_digit, D. }
  rewrite SS. rewrite scan_int_part by (auto).
  rewrite scan_frac_some by (auto using num_follow_nodigit).
  rewrite scan_exp_none by (apply num_follow_exp, NF). reflexivity.
Qed.

Lemma scan_number_exp (neg xneg : bool) ip xd xds rest :
  int_part ip -> Forall lt10 (xd :: xds) -> num_follow rest = true ->
  scan_number ((if neg then "-" else "") ++ dstr ip ++
               String "e" (String (if xneg then "-" else "+")%char (dstr (xd :: xds) ++ rest)))
  = Some (mkNumlit neg ip None (Some (xneg, xd :: xds)), rest).
Proof.
  intros IP XF NF. destruct (int_part_head ip IP) as [d [ds [E [D F]]]].
  unfold scan_number.
  match goal with |- context [scan_sign ?t] =>
    assert (SS : scan_sign t = (neg, dstr ip ++ String "e" (String (if xneg then "-" else "+")%char (dstr (xd :: xds) ++ rest)))) end.
  { destruct neg; [reflexivity|]. subst ip. apply scan_sign_digit, D. }
  rewrite SS. rewrite scan_int_part by (auto).
  rewrite scan_frac_none by reflexivity.
  rewrite scan_exp_some by (auto using num_follow_nodigit). reflexivity.
Qed.

Lemma scan_number_frac_exp (neg xneg : bool) ip fd fds xd xds rest :
  int_part ip -> Forall lt10 (fd :: fds) -> Forall lt10 (xd :: xds) -> num_follow rest = true ->
  scan_number ((if neg then "-" else "") ++ dstr ip ++ String "." (dstr (fd :: fds) ++
               String "e" (String (if xneg then "-" else "+")%char (dstr (xd :: xds) ++ rest))))
  = Some (mkNumlit neg ip (Some (fd :: fds)) (Some (xneg, xd :: xds)), rest).
Proof.
  intros IP FF XF NF. destruct (int_part_head ip IP) as [d [ds [E [D F]]]].
  unfold scan_number.
  match goal with |- context [scan_sign ?t] =>
    assert (SS : scan_sign t = (neg, dstr ip ++ String "." (dstr (fd :: fds) ++
               String "e" (String (if xneg then "-" else "+")%char (dstr (xd :: xds) ++ rest))))) end.
  { destruct neg; [reflexivity|]. subst ip. apply scan_sign_digit, D. }
  rewrite SS. rewrite scan_int_part by (auto).
  rewrite scan_frac_some by (auto).
  rewrite scan_exp_some by (auto using num_follow_nodigit). reflexivity.
Qed.

(* ---- normalisation of the decimal mantissa ---- *)
Local Open Scope Z_scope.

Lemma strip10_fuel f : forall f' m e, 0 < m -> m < 2 ^ Z.of_nat f -> m < 2 ^ Z.of_nat f' ->
  strip10 f m e = strip10 f' m e.
Proof.
  induction f as [|f IH]; intros f' m e P B B'.
  - simpl in B. lia.
  - destruct f' as [|f']; [simpl in B'; lia|]. cbn [strip10].
    destruct (negb (m =? 0) && (m mod 10 =? 0))%bool eqn:C; [|reflexivity].
    apply andb_true_iff in C. destruct C as [_ C]. apply Z.eqb_eq in C.
    rewrite Nat2Z.inj_succ, Z.pow_succ_r in B, B' by lia.
    assert (Q : m = 10 * (m / 10)) by (pose proof (Z.div_mod m 10 ltac:(lia)); lia).
    apply IH; lia.
Qed.

Lemma normalise_id m e : 0 < m -> m mod 10 <> 0 -> normalise m e = (m, e).
Proof.
  intros P NZ. unfold normalise. replace (m =? 0) with false by (symmetry; apply Z.eqb_neq; lia).
  cbn [strip10]. replace (m mod 10 =? 0) with false by (symmetry; apply Z.eqb_neq; exact NZ).
  rewrite andb_false_r. reflexivity.
Qed.

Lemma lt_pow2_log2 m : 0 < m -> m < 2 ^ Z.of_nat (S (Z.to_nat (Z.log2 m))).
Proof.
  intros P. rewrite Nat2Z.inj_succ, Z2Nat.id by apply Z.log2_nonneg.
  destruct (Z.log2_spec m P) as [_ H]. exact H.
Qed.

Lemma strip10_S f m e :
  strip10 (S f) m e = if (negb (m =? 0) && (m mod 10 =? 0))%bool then strip10 f (m / 10) (e + 1) else (m, e).
Proof. reflexivity. Qed.

Lemma normalise_mul10 M E : 0 < M -> normalise (M * 10) (E - 1) = normalise M E.
Proof.
  intros P. unfold normalise.
  replace (M * 10 =? 0) with false by (symmetry; apply Z.eqb_neq; lia).
  replace (M =? 0) with false by (symmetry; apply Z.eqb_neq; lia).
  rewrite (Z.abs_eq (M * 10)), (Z.abs_eq M) by lia.
  rewrite (strip10_S (Z.to_nat (Z.log2 (M * 10))) (M * 10) (E - 1)).
  replace (M * 10 =? 0) with false by (symmetry; apply Z.eqb_neq; lia).
  rewrite Z.mod_mul by lia. cbn [negb andb Z.eqb]. rewrite Z.div_mul by lia.
  replace (E - 1 + 1) with E by lia.
  apply strip10_fuel; [exact P| |apply lt_pow2_log2, P].
  assert (L : Z.log2 (2 * M) <= Z.log2 (M * 10)) by (apply Z.log2_le_mono; lia).
  rewrite Z.log2_double in L by exact P.
  rewrite Z2Nat.id by apply Z.log2_nonneg.
  destruct (Z.log2_spec M P) as [_ H].
  eapply Z.lt_le_trans; [exact H|]. apply Z.pow_le_mono_r; lia.
Qed.

Lemma normalise_mul10k k : forall M E, 0 < M -> normalise (M * 10 ^ Z.of_nat k) (E - Z.of_nat k) = normalise M E.
Proof.
  induction k as [|k IH]; intros M E P.
  - simpl. rewrite Z.mul_1_r, Z.sub_0_r. reflexivity.
  - rewrite Nat2Z.inj_succ, Z.pow_succ_r by lia.
    replace (M * (10 * 10 ^ Z.of_nat k)) with (M * 10 ^ Z.of_nat k * 10) by lia.
    replace (E - Z.succ (Z.of_nat k)) with (E - Z.of_nat k - 1) by lia.
    rewrite normalise_mul10 by (apply Z.mul_pos_pos; [exact P|apply Z.pow_pos_nonneg; lia]).
    apply IH, P.
Qed.

Lemma float_of_dec_mul10k neg k M E : 0 < M ->
  float_of_dec neg (M * 10 ^ Z.of_nat k) (E - Z.of_nat k) = float_of_dec neg M E.
Proof.
  intros P. unfold float_of_dec.
  assert (Q : 0 < M * 10 ^ Z.of_nat k) by (apply Z.mul_pos_pos; [exact P|apply Z.pow_pos_nonneg; lia]).
  replace (M * 10 ^ Z.of_nat k =? 0) with false by (symmetry; apply Z.eqb_neq; lia).
  replace (M =? 0) with false by (symmetry; apply Z.eqb_neq; lia).
  rewrite normalise_mul10k by exact P. reflexivity.
Qed.

Lemma dec_conv_mul10k fm neg k M E : 0 < M ->
  dec_conv fm neg (M * 10 ^ Z.of_nat k) (E - Z.of_nat k) = dec_conv fm neg M E.
Proof.
  intros P. destruct fm; cbn [dec_conv]; [apply float_of_dec_mul10k, P|].
  unfold decimal_of_dec. rewrite normalise_mul10k by exact P. reflexivity.
Qed.

Section Mode.
Variable fm : fkind.
Local Notation pnumber := (JsonParse.pnumber fm).
Local Notation pvalue := (JsonParse.pvalue fm).
Local Notation pelements := (JsonParse.pelements fm).
Local Notation pmembers := (JsonParse.pmembers fm).
Local Notation num_of_lit := (JsonParse.num_of_lit fm).

(* ---- integers ---- *)
Lemma pnumber_of s l r n : scan_number s = Some (l, r) -> num_of_lit l = Some n -> pnumber s = POk (JNum n) r.
Proof. intros H1 H2. unfold JsonParse.pnumber. rewrite H1, H2. reflexivity. Qed.

Definition int_ok (z : Z) : Prop := (List.length (digits (Z.to_N (Z.abs z))) <= int_max_str_digits)%nat.

Lemma pnumber_int_gen (neg : bool) n rest :
  (List.length (digits n) <= int_max_str_digits)%nat -> num_follow rest = true ->
  pnumber ((if neg then "-" else "") ++ dstr (digits n) ++ rest)%string
  = POk (JNum (NInt (if neg then - Z.of_N n else Z.of_N n))) rest.
Proof.
  intros L NF. eapply pnumber_of; [apply scan_number_int; [apply int_part_digits|exact NF]|].
  unfold JsonParse.num_of_lit. cbn [nl_frac nl_exp nl_int nl_neg].
  replace (Nat.ltb int_max_str_digits (List.length (digits n))) with false
    by (symmetry; apply Nat.ltb_ge; exact L).
  rewrite dval_digits. reflexivity.
Qed.

Theorem pnumber_int z rest :
  int_ok z -> num_follow rest = true -> pnumber (int_text z ++ rest)%string = POk (JNum (NInt z)) rest.
Proof.
  intros OK NF. destruct z as [|p|p].
  - exact (pnumber_int_gen false 0%N rest OK NF).
  - exact (pnumber_int_gen false (Npos p) rest OK NF).
  - exact (pnumber_int_gen true (Npos p) rest OK NF).
Qed.

(* ---- floats ---- *)
Definition float_ok (m e : Z) : Prop :=
  if m =? 0 then e = 0
  else m mod 10 <> 0 /\ float_of_dec (m <? 0) (Z.abs m) e = NDec m e FFloat.

(* what the literal of m * 10^e must satisfy to be read back as NDec m e fm: in float mode [float_ok];
   in Decimal mode only that the digits are written without trailing zeros *)
Definition lit_ok (m e : Z) : Prop :=
  if m =? 0 then e = 0
  else m mod 10 <> 0 /\ (fm = FFloat -> float_of_dec (m <? 0) (Z.abs m) e = NDec m e FFloat).

Lemma dec_conv_canon m e : m <> 0 -> m mod 10 <> 0 ->
  (fm = FFloat -> float_of_dec (m <? 0) (Z.abs m) e = NDec m e FFloat) ->
  dec_conv fm (m <? 0) (Z.abs m) e = NDec m e fm.
Proof.
  intros NZ M10 CAN. destruct fm; cbn [dec_conv]; [exact (CAN eq_refl)|].
  unfold decimal_of_dec. rewrite normalise_id.
  - destruct (Z.ltb_spec m 0); f_equal; lia.
  - lia.
  - destruct (Z.ltb_spec m 0) as [L|L].
    + rewrite Z.abs_neq by lia. intros H. apply M10.
      rewrite <- (Z.opp_involutive m). rewrite Z.mod_opp_l_z by (lia || exact H). reflexivity.
    + rewrite Z.abs_eq by lia. exact M10.
Qed.

Lemma Forall_repeat0 k : Forall lt10 (repeat 0%N k).
Proof. induction k; simpl; constructor; [reflexivity|assumption]. Qed.

Lemma Forall_firstn_skipn {A} (P : A -> Prop) k l : Forall P l -> Forall P (firstn k l) /\ Forall P (skipn k l).
Proof. intros F. rewrite <- (firstn_skipn k l) in F. apply Forall_app in F. exact F. Qed.

Lemma nonempty_cons {A} (l : list A) : l <> [] -> exists x r, l = x :: r.
Proof. destruct l as [|x r]; [congruence|eauto]. Qed.

Section FloatShapes.
  Variables (neg : bool) (a : N) (rest : string).
  Hypothesis a_pos : (0 < a)%N.
  Hypothesis NF : num_follow rest = true.
  Let ds := digits a.
  Let sgn : string := if neg then "-" else "".

  Lemma ds_facts : exists d0 ds', ds = d0 :: ds' /\ (d0 < 10)%N /\ d0 <> 0%N /\ Forall lt10 ds'.
  Proof.
    destruct (digits_head a ltac:(lia)) as [d [r [E D]]]. exists d, r.
    pose proof (digits_lt10 a) as F. fold ds in E, F. rewrite E in F. inversion F; subst.
    split; [exact E|split; [assumption|split; assumption]].
  Qed.

  (* 0.000ddd *)
  Lemma shape_small k :
    pnumber (sgn ++ "0." ++ dstr (repeat 0%N k ++ ds) ++ rest)%string
    = POk (JNum (dec_conv fm neg (Z.of_N a) (- Z.of_nat (k + List.length ds)))) rest.
  Proof.
    destruct ds_facts as [d0 [ds' [E [D [NZ F]]]]].
    destruct (nonempty_cons (repeat 0%N k ++ ds)) as [fd [fds EL]].
    { rewrite E. destruct k; discriminate. }
    assert (FL : Forall lt10 (fd :: fds)).
    { rewrite <- EL. apply Forall_app; split; [apply Forall_repeat0|rewrite E; constructor; assumption]. }
    eapply pnumber_of.
    - rewrite EL. change ("0." ++ dstr (fd :: fds) ++ rest)%string with (dstr [0%N] ++ String "." (dstr (fd :: fds) ++ rest))%string.
      apply scan_number_frac; [left; reflexivity|exact FL|exact NF].
    - unfold JsonParse.num_of_lit. cbn [nl_frac nl_exp nl_int nl_neg]. rewrite <- EL.
      change ([0%N] ++ repeat 0%N k ++ ds)%list with (repeat 0%N (S k) ++ ds)%list.
      rewrite dval_zeros_l. unfold ds at 1. rewrite dval_digits.
      rewrite app_length, repeat_length. solve [repeat (f_equal; try lia)].
  Qed.

  (* ddd000.0 *)
  Lemma shape_big k :
    pnumber (sgn ++ dstr (ds ++ repeat 0%N k) ++ ".0" ++ rest)%string
    = POk (JNum (dec_conv fm neg (Z.of_N a) (Z.of_nat k))) rest.
  Proof.
    destruct ds_facts as [d0 [ds' [E [D [NZ F]]]]].
    eapply pnumber_of.
    - change (".0" ++ rest)%string with (String "." (dstr [0%N] ++ rest)).
      apply scan_number_frac; [|constructor; [reflexivity|constructor]|exact NF].
      right. exists d0, (ds' ++ repeat 0%N k)%list. rewrite E.
      split; [reflexivity|split; [exact D|split; [exact NZ|]]].
      apply Forall_app; split; [exact F|apply Forall_repeat0].
    - unfold JsonParse.num_of_lit. cbn [nl_frac nl_exp nl_int nl_neg].
      rewrite dval_app, dval_zeros_r, dval_single. unfold ds at 1. rewrite dval_digits.
      cbn [List.length]. rewrite N.add_0_r.
      replace (Z.of_N (a * 10 ^ N.of_nat k * 10 ^ N.of_nat 1)) with (Z.of_N a * 10 ^ Z.of_nat (S k)).
      + replace (0 - Z.of_nat 1) with (Z.of_nat k - Z.of_nat (S k)) by lia.
        rewrite dec_conv_mul10k by lia. reflexivity.
      + rewrite !N2Z.inj_mul, !N2Z.inj_pow, !nat_N_Z. rewrite Nat2Z.inj_succ, Z.pow_succ_r by lia.
        change (Z.of_N 10) with 10. change (Z.of_nat 1) with 1. lia.
  Qed.

  (* dd.ddd *)
  Lemma shape_mid p : (0 < p < List.length ds)%nat ->
    pnumber (sgn ++ dstr (firstn p ds) ++ "." ++ dstr (skipn p ds) ++ rest)%string
    = POk (JNum (dec_conv fm neg (Z.of_N a) (- Z.of_nat (List.length ds - p)))) rest.
  Proof.
    intros P. destruct ds_facts as [d0 [ds' [E [D [NZ F]]]]].
    assert (FA : Forall lt10 ds) by (rewrite E; constructor; assumption).
    destruct (Forall_firstn_skipn lt10 p ds FA) as [F1 F2].
    destruct (nonempty_cons (skipn p ds)) as [fd [fds EL]].
    { intros H. pose proof (skipn_length p ds) as Q. rewrite H in Q. simpl in Q. lia. }
    eapply pnumber_of.
    - rewrite EL. change ("." ++ dstr (fd :: fds) ++ rest)%string with (String "." (dstr (fd :: fds) ++ rest)).
      apply scan_number_frac; [|rewrite <- EL; exact F2|exact NF].
      right. rewrite E. destruct p as [|p]; [lia|]. cbn [firstn]. exists d0, (firstn p ds').
      split; [reflexivity|split; [exact D|split; [exact NZ|]]].
      apply (Forall_firstn_skipn lt10 p ds' F).
    - unfold JsonParse.num_of_lit. cbn [nl_frac nl_exp nl_int nl_neg]. rewrite <- EL.
      rewrite firstn_skipn. unfold ds at 1. rewrite dval_digits. rewrite skipn_length.
      solve [repeat (f_equal; try lia)].
  Qed.
End FloatShapes.

Lemma exp_digits_facts (x : N) :
  let xs := match digits x with [d] => [0%N; d] | _ => digits x end in
  Forall lt10 xs /\ (exists xd xds, xs = xd :: xds) /\ dval xs = x.
Proof.
  pose proof (digits_lt10 x) as F. pose proof (dval_digits x) as V. pose proof (digits_nonempty x) as NE.
  cbv zeta. destruct (digits x) as [|d [|d' l]]; [congruence| |].
  - split; [constructor; [reflexivity|exact F]|]. split; [eauto|].
    rewrite dval_single in V. subst d. unfold dval. simpl. reflexivity.
  - split; [exact F|]. split; [eauto|exact V].
Qed.

Section FloatExp.
  Variables (neg : bool) (a : N) (rest : string).
  Hypothesis a_pos : (0 < a)%N.
  Hypothesis NF : num_follow rest = true.
  Let ds := digits a.
  Let sgn : string := if neg then "-" else "".

  Lemma e_sign (b : bool) X : ("e" ++ (if b then "-" else "+") ++ X)%string = String "e" (String (if b then "-" else "+")%char X).
  Proof. destruct b; reflexivity. Qed.

  (* d.ddde+XX *)
  Lemma shape_exp ex :
    pnumber (sgn ++ dstr (firstn 1 ds) ++ (match skipn 1 ds with [] => "" | tl => "." ++ dstr tl end) ++
             "e" ++ (if (ex <? 0)%Z then "-" else "+") ++
             dstr (match digits (Z.to_N (Z.abs ex)) with [d] => [0%N; d] | _ => digits (Z.to_N (Z.abs ex)) end) ++ rest)%string
    = POk (JNum (dec_conv fm neg (Z.of_N a) (ex - Z.of_nat (List.length ds - 1)))) rest.
  Proof.
    destruct (ds_facts a a_pos) as [d0 [ds' [E [D [NZ F]]]]]. fold ds in E.
    destruct (exp_digits_facts (Z.to_N (Z.abs ex))) as [XF [[xd [xds XE]] XV]].
    set (xs := match digits (Z.to_N (Z.abs ex)) with [d] => [0%N; d] | _ => digits (Z.to_N (Z.abs ex)) end) in *.
    assert (IP : int_part [d0]).
    { right. exists d0, []. split; [reflexivity|split; [exact D|split; [exact NZ|constructor]]]. }
    assert (XZ : (if (ex <? 0)%Z then - Z.of_N (dval xs) else Z.of_N (dval xs)) = ex).
    { rewrite XV. destruct (Z.ltb_spec ex 0); rewrite Z2N.id; lia. }
    rewrite E. cbn [firstn skipn]. rewrite e_sign. rewrite XE.
    destruct ds' as [|f1 fs].
    - eapply pnumber_of.
      + change ("" ++ String "e" (String (if (ex <? 0)%Z then "-" else "+")%char (dstr (xd :: xds) ++ rest)))%string
          with (String "e" (String (if (ex <? 0)%Z then "-" else "+")%char (dstr (xd :: xds) ++ rest))).
        apply scan_number_exp; [exact IP|rewrite <- XE; exact XF|exact NF].
      + unfold JsonParse.num_of_lit. cbn [nl_frac nl_exp nl_int nl_neg]. rewrite <- XE, XZ.
        rewrite app_nil_r. replace (dval [d0]) with a by (rewrite <- E; unfold ds; symmetry; apply dval_digits).
        cbn [List.length]. solve [repeat (f_equal; try lia)].
    - eapply pnumber_of.
      + change (("." ++ dstr (f1 :: fs)) ++ String "e" (String (if (ex <? 0)%Z then "-" else "+")%char (dstr (xd :: xds) ++ rest)))%string
          with (String "." (dstr (f1 :: fs) ++ String "e" (String (if (ex <? 0)%Z then "-" else "+")%char (dstr (xd :: xds) ++ rest)))).
        apply scan_number_frac_exp; [exact IP|exact F|rewrite <- XE; exact XF|exact NF].
      + unfold JsonParse.num_of_lit. cbn [nl_frac nl_exp nl_int nl_neg]. rewrite <- XE, XZ.
        change ([d0] ++ f1 :: fs)%list with (d0 :: f1 :: fs).
        replace (dval (d0 :: f1 :: fs)) with a by (rewrite <- E; unfold ds; symmetry; apply dval_digits).
        cbn [List.length]. solve [repeat (f_equal; try lia)].
  Qed.
End FloatExp.

Theorem pnumber_float m e rest :
  lit_ok m e -> num_follow rest = true ->
  pnumber (float_text m e ++ rest)%string = POk (JNum (NDec m e fm)) rest.
Proof.
  intros OK NF. unfold lit_ok in OK. unfold float_text. cbv zeta.
  destruct (Z.eqb_spec m 0) as [->|NZ].
  - subst e. change ("0.0" ++ rest)%string with ("" ++ dstr [0%N] ++ String "." (dstr [0%N] ++ rest))%string.
    eapply pnumber_of; [apply (scan_number_frac false); [left; reflexivity|constructor; [reflexivity|constructor]|exact NF]|].
    destruct fm; reflexivity.
  - destruct OK as [M10 CAN0]. pose proof (dec_conv_canon m e NZ M10 CAN0) as CAN.
    set (a := Z.to_N (Z.abs m)). assert (AP : (0 < a)%N) by (unfold a; lia).
    assert (AZ : Z.of_N a = Z.abs m) by (unfold a; rewrite Z2N.id; lia).
    set (ds := digits a). set (n := Z.of_nat (List.length ds)).
    assert (L1 : (1 <= List.length ds)%nat).
    { pose proof (digits_nonempty a) as NE. fold ds in NE. destruct ds; [congruence|simpl; lia]. }
    rewrite <- AZ in CAN.
    destruct (Z.ltb_spec (-4) (n + e)) as [C1|C1]; cbn [andb].
    + destruct (Z.leb_spec (n + e) 16) as [C2|C2].
      * destruct (Z.leb_spec (n + e) 0) as [C3|C3].
        { rewrite !sapp_assoc. rewrite (shape_small (m <? 0) a rest AP NF).
          rewrite <- CAN. fold ds. solve [repeat (f_equal; try lia)]. }
        destruct (Z.leb_spec n (n + e)) as [C4|C4].
        { rewrite !sapp_assoc. rewrite (shape_big (m <? 0) a rest AP NF).
          rewrite <- CAN. solve [repeat (f_equal; try lia)]. }
        rewrite !sapp_assoc. rewrite (shape_mid (m <? 0) a rest AP NF) by (fold ds; lia).
        rewrite <- CAN. fold ds. solve [repeat (f_equal; try lia)].
      * rewrite !sapp_assoc. rewrite (shape_exp (m <? 0) a rest AP NF).
        rewrite <- CAN. fold ds. unfold n in *. solve [repeat (f_equal; try lia)].
    + rewrite !sapp_assoc. rewrite (shape_exp (m <? 0) a rest AP NF).
      rewrite <- CAN. fold ds. unfold n in *. solve [repeat (f_equal; try lia)].
Qed.

(* ------------------------------------------------------------------ values *)
Local Close Scope Z_scope.
Local Open Scope string_scope.

Definition num_wf (n : num) : Prop :=
  match n with
  | NInt z => int_ok z
  | NDec m e k => k = FFloat /\ lit_ok m e
  | NNaN | NInf _ => True
  end.

(* representable and unambiguous: ints within the digit limit, floats given by their repr, strs without an
   unpaired-looking surrogate pair, distinct keys *)
Fixpoint wf (v : json) : Prop :=
  match v with
  | JNull | JBool _ => True
  | JNum n => num_wf n
  | JStr s => WfStr s
  | JArr l => (fix go (l : list json) : Prop := match l with [] => True | x :: r => wf x /\ go r end) l
  | JObj l => NoDup (map fst l) /\
              (fix go (l : list (string * json)) : Prop :=
                 match l with [] => True | kx :: r => WfStr (fst kx) /\ wf (snd kx) /\ go r end) l
  end.

Fixpoint depth (v : json) : nat :=
  match v with
  | JArr l => S ((fix go (l : list json) : nat := match l with [] => 0 | x :: r => Nat.max (depth x) (go r) end) l)
  | JObj l => S ((fix go (l : list (string * json)) : nat :=
                    match l with [] => 0 | kx :: r => Nat.max (depth (snd kx)) (go r) end) l)
  | _ => 0
  end.

(* what is read back: in Decimal mode every float comes back as the Decimal with the same digits *)
Definition numback (n : num) : num := match n with NDec m e _ => NDec m e fm | _ => n end.
Fixpoint jback (v : json) : json :=
  match v with
  | JNum n => JNum (numback n)
  | JArr l => JArr (map jback l)
  | JObj l => JObj (map (fun kv => (fst kv, jback (snd kv))) l)
  | _ => v
  end.

(* what follows a value inside a document *)
Definition follow (rest : string) : bool :=
  match rest with
  | EmptyString => true
  | String c _ => let n := N_of_ascii c in (N.eqb n 44 || N.eqb n 93 || N.eqb n 125)%bool
  end.

Lemma follow_num rest : follow rest = true -> num_follow rest = true.
Proof.
  destruct rest as [|c r]; [reflexivity|]. unfold follow, num_follow, is_digit, digit_val. cbv zeta.
  destruct (N.eqb_spec (N_of_ascii c) 44) as [->|]; [reflexivity|].
  destruct (N.eqb_spec (N_of_ascii c) 93) as [->|]; [reflexivity|].
  destruct (N.eqb_spec (N_of_ascii c) 125) as [->|]; [reflexivity|discriminate].
Qed.

Lemma follow_skip rest : follow rest = true -> skip_ws rest = rest.
Proof.
  destruct rest as [|c r]; [reflexivity|]. unfold follow. cbv zeta. cbn [skip_ws]. unfold is_ws. cbv zeta.
  destruct (N.eqb_spec (N_of_ascii c) 44) as [->|]; [reflexivity|].
  destruct (N.eqb_spec (N_of_ascii c) 93) as [->|]; [reflexivity|].
  destruct (N.eqb_spec (N_of_ascii c) 125) as [->|]; [reflexivity|discriminate].
Qed.

(* a text that starts like a number goes to the number scanner *)
Definition numeric_start (s : string) : bool :=
  match s with
  | String c r =>
      (is_digit c || (N.eqb (N_of_ascii c) 45 && match r with String i _ => is_digit i | EmptyString => false end))%bool
  | EmptyString => false
  end.

Lemma is_digit_range c : is_digit c = true -> (48 <= N_of_ascii c <= 57)%N.
Proof.
  unfold is_digit, digit_val. cbv zeta.
  destruct (N.leb_spec 48 (N_of_ascii c)); [|discriminate].
  destruct (N.leb_spec (N_of_ascii c) 57); [lia|discriminate].
Qed.

Lemma neqb a b : a <> b -> N.eqb a b = false.
Proof. apply N.eqb_neq. Qed.

Lemma pvalue_numeric f d s : numeric_start s = true -> pvalue (S f) d s = pnumber s.
Proof.
  destruct s as [|c r]; [discriminate|]. unfold numeric_start. intros H.
  apply orb_true_iff in H. rewrite pvalue_S. cbv zeta. destruct H as [H|H].
  - apply is_digit_range in H.
    rewrite !neqb by lia. cbn [andb]. reflexivity.
  - apply andb_true_iff in H. destruct H as [H1 H2]. apply N.eqb_eq in H1. rewrite H1.
    destruct r as [|i r']; [discriminate|]. apply is_digit_range in H2.
    change (N.eqb 45 34) with false. change (N.eqb 45 123) with false. change (N.eqb 45 91) with false.
    change (N.eqb 45 110) with false. change (N.eqb 45 116) with false. change (N.eqb 45 102) with false.
    change (N.eqb 45 78) with false. change (N.eqb 45 73) with false. change (N.eqb 45 45) with true.
    rewrite (neqb (N_of_ascii i) 73) by lia. reflexivity.
Qed.

Lemma scan_int_digit s u r : scan_int s = Some (u, r) -> match s with String c _ => is_digit c = true | _ => False end.
Proof.
  destruct s as [|c r0]; [discriminate|]. unfold scan_int.
  destruct (N.eqb_spec (N_of_ascii c) 48) as [E|NE].
  - intros _. unfold is_digit, digit_val. cbv zeta. rewrite E. reflexivity.
  - destruct (is_digit c); [reflexivity|discriminate].
Qed.

Lemma pnumber_numeric s v r : pnumber s = POk v r -> numeric_start s = true.
Proof.
  unfold JsonParse.pnumber. destruct (scan_number s) as [[l r0]|] eqn:E; [|discriminate]. intros _.
  unfold scan_number in E. destruct s as [|c s']; [discriminate|].
  unfold scan_sign in E. unfold numeric_start.
  destruct (N.eqb (N_of_ascii c) 45) eqn:C.
  - destruct (scan_int s') as [[iu s2]|] eqn:I; [|discriminate]. apply scan_int_digit in I.
    destruct s' as [|i r']; [contradiction|]. rewrite I. cbn [andb]. apply orb_true_r.
  - destruct (scan_int (String c s')) as [[iu s2]|] eqn:I; [|discriminate]. apply scan_int_digit in I.
    rewrite I. reflexivity.
Qed.

Lemma pvalue_number f d s v r : pnumber s = POk v r -> pvalue (S f) d s = POk v r.
Proof. intros H. rewrite pvalue_numeric by (eapply pnumber_numeric; exact H). exact H. Qed.

(* the first character of a printed value: not whitespace, not a closing bracket *)
Definition head_ok (s : string) : Prop :=
  match s with
  | String c _ => is_ws c = false /\ N.eqb (N_of_ascii c) 93 = false /\ N.eqb (N_of_ascii c) 125 = false /\
                  N.eqb (N_of_ascii c) 239 = false
  | EmptyString => False
  end.

Lemma head_ok_numeric s : numeric_start s = true -> head_ok s.
Proof.
  destruct s as [|c r]; [discriminate|]. unfold numeric_start, head_ok, is_ws. cbv zeta. intros H.
  apply orb_true_iff in H. destruct H as [H|H].
  - apply is_digit_range in H. rewrite !neqb by lia. repeat split; reflexivity.
  - apply andb_true_iff in H. destruct H as [H _]. apply N.eqb_eq in H. rewrite H. repeat split; reflexivity.
Qed.

Lemma head_ok_skip s : head_ok s -> skip_ws s = s.
Proof. destruct s as [|c r]; [contradiction|]. intros [H _]. cbn [skip_ws]. rewrite H. reflexivity. Qed.

Notation slen := String.length.

Definition RT (v : json) : Prop :=
  wf v -> forall f d rest, follow rest = true -> depth v <= d -> 2 * slen (print_compact v) + 1 <= f ->
  pvalue f d (print_compact v ++ rest) = POk (jback v) rest.

Lemma head_ok_print v rest : wf v -> follow rest = true -> head_ok (print_compact v ++ rest).
Proof.
  intros W F. destruct v as [| b | n | s | l | l]; cbn [print_compact].
  - repeat split.
  - destruct b; repeat split.
  - destruct n as [z | m e k | | ng]; cbn [num_text].
    + apply head_ok_numeric. eapply pnumber_numeric. apply pnumber_int; [exact W|apply follow_num, F].
    + destruct W as [-> W]. apply head_ok_numeric. eapply pnumber_numeric. apply pnumber_float; [exact W|apply follow_num, F].
    + repeat split.
    + destruct ng; repeat split.
  - repeat split.
  - repeat split.
  - repeat split.
Qed.

Lemma RT_null : RT JNull.
Proof. intros _ f d rest F D L. destruct f; [simpl in L; lia|]. reflexivity. Qed.

Lemma prefix_rest_app p s : prefix_rest p (p ++ s) = Some s.
Proof. induction p as [|a p IH]; [reflexivity|]. simpl. rewrite Ascii.eqb_refl. exact IH. Qed.

Lemma RT_bool b : RT (JBool b).
Proof. intros _ f d rest F D L. destruct f; [simpl in L; lia|]. destruct b; reflexivity. Qed.

Lemma RT_num n : RT (JNum n).
Proof.
  intros W f d rest F D L. destruct f; [simpl in L; lia|].
  destruct n as [z | m e k | | ng]; cbn [print_compact num_text].
  - apply pvalue_number. apply pnumber_int; [exact W|apply follow_num, F].
  - destruct W as [-> W]. apply pvalue_number. apply pnumber_float; [exact W|apply follow_num, F].
  - reflexivity.
  - destruct ng; reflexivity.
Qed.

Lemma pvalue_quote f d X : pvalue (S f) d (String """" X) = match pstring X with Some (body, r') => POk (JStr body) r' | None => PErr end.
Proof. reflexivity. Qed.

Lemma str_text_app s rest : str_text s ++ rest = String """" (escape_str (slen s) s ++ String """" rest).
Proof. unfold str_text. rewrite !sapp_assoc. reflexivity. Qed.

Lemma RT_str s : RT (JStr s).
Proof.
  intros W f d rest F D L. destruct f; [simpl in L; lia|]. cbn [print_compact].
  rewrite str_text_app, pvalue_quote, pstring_str_text by exact W. reflexivity.
Qed.

(* ---- arrays ---- *)
Lemma join_cons2 sep x y r : join sep (x :: y :: r) = x ++ sep ++ join sep (y :: r).
Proof. reflexivity. Qed.

Lemma wf_arr l : wf (JArr l) <-> Forall wf l.
Proof.
  cbn [wf]. induction l as [|x r IH]; [split; [constructor|trivial]|].
  split.
  - intros [W1 W2]. constructor; [exact W1|apply IH; exact W2].
  - intros F. inversion F; subst. split; [assumption|apply IH; assumption].
Qed.

Lemma depth_arr l d : depth (JArr l) <= S d <-> Forall (fun x => depth x <= d) l.
Proof.
  cbn [depth]. induction l as [|x r IH]; [split; [constructor|lia]|].
  split.
  - intros H. constructor; [lia|apply IH; lia].
  - intros F. inversion F; subst. apply IH in H2. lia.
Qed.

Lemma head_ok_join l rest : l <> [] -> Forall wf l ->
  head_ok (join "," (map print_compact l) ++ String "]" rest).
Proof.
  destruct l as [|x [|y r]]; [congruence| |]; intros _ F; inversion F; subst; cbn [map].
  - cbn [join]. apply head_ok_print; [assumption|reflexivity].
  - rewrite join_cons2, !sapp_assoc. apply head_ok_print; [assumption|reflexivity].
Qed.

Lemma pelements_S2 f d s acc :
  pelements (S f) d s acc =
  match pvalue f d s with
  | POk v r =>
      match skip_ws r with
      | String c r' =>
          if N.eqb (N_of_ascii c) 44 then pelements f d (skip_ws r') (v :: acc)
          else if N.eqb (N_of_ascii c) 93 then POk (JArr (List.rev (v :: acc))) r'
          else PErr
      | EmptyString => PErr
      end
  | e => e
  end.
Proof. reflexivity. Qed.

Lemma pelements_join l : l <> [] -> Forall RT l -> Forall wf l ->
  forall acc f d rest, Forall (fun x => depth x <= d) l ->
  2 * slen (join "," (map print_compact l)) + 2 <= f ->
  pelements f d (join "," (map print_compact l) ++ String "]" rest) acc = POk (JArr (List.rev acc ++ map jback l)) rest.
Proof.
  induction l as [|x xs IH]; [congruence|]. intros _ FR FW acc f d rest FD L.
  inversion FR as [|? ? Rx FRs]; subst. inversion FW as [|? ? Wx FWs]; subst.
  inversion FD as [|? ? Dx FDs]; subst.
  destruct f as [|f]; [lia|]. rewrite pelements_S2.
  destruct xs as [|y ys].
  - cbn [map join] in L |- *. rewrite (Rx Wx f d (String "]" rest)) by (try reflexivity; try assumption; lia).
    cbn. reflexivity.
  - cbn [map] in L |- *. rewrite join_cons2 in L |- *. rewrite !sapp_length in L. rewrite !sapp_assoc.
    rewrite (Rx Wx f d) by (try reflexivity; try assumption; lia).
    change (skip_ws ("," ++ join "," (print_compact y :: map print_compact ys) ++ String "]" rest))
      with ("," ++ join "," (print_compact y :: map print_compact ys) ++ String "]" rest).
    cbn [append]. change (N.eqb (N_of_ascii ",") 44) with true. cbv iota.
    change (print_compact y :: map print_compact ys) with (map print_compact (y :: ys)).
    rewrite head_ok_skip by (apply head_ok_join; [discriminate|assumption]).
    rewrite (IH ltac:(discriminate) FRs FWs (jback x :: acc) f d rest FDs) by (cbn [map]; change (slen ",") with 1 in L; lia).
    cbn [List.rev]. rewrite <- app_assoc. reflexivity.
Qed.

Lemma pvalue_arr f d s : head_ok s -> pvalue (S f) (S d) (String "[" s) = pelements f d s [].
Proof.
  intros H. rewrite pvalue_S. cbv zeta.
  change (N.eqb (N_of_ascii "[") 34) with false. change (N.eqb (N_of_ascii "[") 123) with false.
  change (N.eqb (N_of_ascii "[") 91) with true. cbv iota.
  rewrite head_ok_skip by exact H. destruct s as [|c r]; [contradiction|].
  destruct H as [_ [H _]]. rewrite H. reflexivity.
Qed.

Lemma RT_arr l : Forall RT l -> RT (JArr l).
Proof.
  intros FR W f d rest F D L. apply wf_arr in W.
  destruct d as [|d]; [cbn [depth] in D; lia|]. apply depth_arr in D.
  destruct f as [|f]; [lia|]. cbn [print_compact] in *.
  destruct l as [|x xs].
  - reflexivity.
  - rewrite !sapp_assoc. cbn [append]. rewrite !sapp_length in L. cbn [slen] in L.
    rewrite pvalue_arr by (apply head_ok_join; [discriminate|exact W]).
    change ("]" ++ rest) with (String "]" rest).
    rewrite (pelements_join (x :: xs) ltac:(discriminate) FR W [] f d rest D) by lia.
    reflexivity.
Qed.

(* ---- objects ---- *)
Definition member (kv : string * json) : string := str_text (fst kv) ++ ":" ++ print_compact (snd kv).

Lemma print_obj l : print_compact (JObj l) = "{" ++ join "," (map member l) ++ "}".
Proof. reflexivity. Qed.

Definition wf_member (kv : string * json) : Prop := WfStr (fst kv) /\ wf (snd kv).

Lemma wf_obj l : wf (JObj l) <-> NoDup (map fst l) /\ Forall wf_member l.
Proof.
  cbn [wf]. split; intros [N W]; split; try exact N.
  - induction l as [|x r IH]; [constructor|]. destruct W as [W1 [W2 W3]].
    constructor; [split; assumption|]. apply IH; [inversion N; assumption|exact W3].
  - induction l as [|x r IH]; [trivial|]. inversion W as [|? ? [W1 W2] W3]; subst.
    split; [exact W1|split; [exact W2|]]. apply IH; [inversion N; assumption|exact W3].
Qed.

Lemma depth_obj l d : depth (JObj l) <= S d <-> Forall (fun kv => depth (snd kv) <= d) l.
Proof.
  cbn [depth]. induction l as [|x r IH]; [split; [constructor|lia]|].
  split.
  - intros H. constructor; [lia|apply IH; lia].
  - intros F. inversion F; subst. apply IH in H2. lia.
Qed.

Lemma dict_set_fresh k v acc : ~ In k (map fst acc) -> dict_set k v acc = (acc ++ [(k, v)])%list.
Proof.
  induction acc as [|[k' v'] r IH]; intros NI; [reflexivity|]. cbn [dict_set].
  destruct (String.eqb_spec k k') as [->|NE]; [exfalso; apply NI; left; reflexivity|].
  rewrite IH; [reflexivity|]. intros H. apply NI. right. exact H.
Qed.

Lemma pmembers_S2 f d q r acc :
  pmembers (S f) d (String q r) acc =
  if N.eqb (N_of_ascii q) 34 then
    match pstring r with
    | None => PErr
    | Some (k, r1) =>
        match skip_ws r1 with
        | String c r2 =>
            if N.eqb (N_of_ascii c) 58 then
              match pvalue f d (skip_ws r2) with
              | POk v r3 =>
                  match skip_ws r3 with
                  | String c' r4 =>
                      if N.eqb (N_of_ascii c') 44 then pmembers f d (skip_ws r4) (dict_set k v acc)
                      else if N.eqb (N_of_ascii c') 125 then POk (JObj (dict_set k v acc)) r4
                      else PErr
                  | EmptyString => PErr
                  end
              | e => e
              end
            else PErr
        | EmptyString => PErr
        end
    end
  else PErr.
Proof. reflexivity. Qed.

Lemma member_app kv rest :
  member kv ++ rest = String """" (escape_str (slen (fst kv)) (fst kv) ++ String """" (String ":" (print_compact (snd kv) ++ rest))).
Proof. unfold member. rewrite !sapp_assoc. rewrite str_text_app. reflexivity. Qed.

Lemma head_ok_member kv rest : head_ok (member kv ++ rest).
Proof. rewrite member_app. repeat split. Qed.

Lemma head_ok_members l rest : l <> [] -> head_ok (join "," (map member l) ++ rest).
Proof.
  destruct l as [|x [|y r]]; [congruence| |]; intros _; cbn [map].
  - cbn [join]. apply head_ok_member.
  - rewrite join_cons2, !sapp_assoc. apply head_ok_member.
Qed.

(* one member followed by [rest1] (a comma or the closing brace) *)
Lemma pmembers_one f d kv rest1 acc :
  RT (snd kv) -> wf_member kv -> follow rest1 = true -> depth (snd kv) <= d ->
  2 * slen (print_compact (snd kv)) + 1 <= f ->
  pmembers (S f) d (member kv ++ rest1) acc =
  match rest1 with
  | String c' r4 =>
      if N.eqb (N_of_ascii c') 44 then pmembers f d (skip_ws r4) (dict_set (fst kv) (jback (snd kv)) acc)
      else if N.eqb (N_of_ascii c') 125 then POk (JObj (dict_set (fst kv) (jback (snd kv)) acc)) r4
      else PErr
  | EmptyString => PErr
  end.
Proof.
  intros R [WK WV] F D L. rewrite member_app, pmembers_S2.
  change (N.eqb (N_of_ascii """") 34) with true. cbv iota.
  rewrite pstring_str_text by exact WK.
  change (skip_ws (String ":" (print_compact (snd kv) ++ rest1))) with (String ":" (print_compact (snd kv) ++ rest1)).
  change (N.eqb (N_of_ascii ":") 58) with true. cbv iota.
  rewrite head_ok_skip by (apply head_ok_print; assumption).
  rewrite (R WV f d rest1 F D L). rewrite follow_skip by exact F. reflexivity.
Qed.

Lemma pmembers_join l : l <> [] -> Forall (fun kv => RT (snd kv)) l -> Forall wf_member l ->
  forall acc f d rest, NoDup (map fst (acc ++ l)) -> Forall (fun kv => depth (snd kv) <= d) l ->
  2 * slen (join "," (map member l)) + 2 <= f ->
  pmembers f d (join "," (map member l) ++ String "}" rest) acc
  = POk (JObj (acc ++ map (fun kv => (fst kv, jback (snd kv))) l)) rest.
Proof.
  induction l as [|x xs IH]; [congruence|]. intros _ FR FW acc f d rest ND FD L.
  inversion FR as [|? ? Rx FRs]; subst. inversion FW as [|? ? Wx FWs]; subst.
  inversion FD as [|? ? Dx FDs]; subst.
  assert (FRESH : ~ In (fst x) (map fst acc)).
  { rewrite map_app in ND. cbn [map] in ND. apply NoDup_remove_2 in ND. intros H. apply ND.
    apply in_or_app. left. exact H. }
  assert (LM : slen (member x) = slen (str_text (fst x)) + (1 + slen (print_compact (snd x)))).
  { unfold member. rewrite !sapp_length. reflexivity. }
  destruct f as [|f]; [lia|].
  destruct xs as [|y ys].
  - cbn [map join] in L |- *. rewrite pmembers_one; try assumption; try reflexivity; [|lia].
    change (N.eqb (N_of_ascii "}") 44) with false. change (N.eqb (N_of_ascii "}") 125) with true. cbv iota.
    rewrite dict_set_fresh by exact FRESH. reflexivity.
  - cbn [map] in L |- *. rewrite join_cons2 in L |- *. rewrite !sapp_length in L. rewrite !sapp_assoc.
    change ("," ++ join "," (member y :: map member ys) ++ String "}" rest)
      with (String "," (join "," (member y :: map member ys) ++ String "}" rest)).
    rewrite pmembers_one; try assumption; try reflexivity; [|change (slen ",") with 1 in L; lia].
    change (N.eqb (N_of_ascii ",") 44) with true. cbv iota.
    rewrite head_ok_skip by (apply (head_ok_members (y :: ys)); discriminate).
    rewrite dict_set_fresh by exact FRESH.
    change (member y :: map member ys) with (map member (y :: ys)).
    rewrite (IH ltac:(discriminate) FRs FWs (acc ++ [(fst x, jback (snd x))])%list f d rest).
    + rewrite <- app_assoc. reflexivity.
    + rewrite !map_app in *. cbn [map fst] in *. rewrite <- app_assoc. exact ND.
    + exact FDs.
    + cbn [map]. change (slen ",") with 1 in L. lia.
Qed.

Lemma pvalue_obj f d s : head_ok s -> pvalue (S f) (S d) (String "{" s) = pmembers f d s [].
Proof.
  intros H. rewrite pvalue_S. cbv zeta.
  change (N.eqb (N_of_ascii "{") 34) with false. change (N.eqb (N_of_ascii "{") 123) with true. cbv iota.
  rewrite head_ok_skip by exact H. destruct s as [|c r]; [contradiction|].
  destruct H as [_ [_ [H _]]]. rewrite H. reflexivity.
Qed.

Lemma RT_obj l : Forall (fun kv => RT (snd kv)) l -> RT (JObj l).
Proof.
  intros FR W f d rest F D L. apply wf_obj in W. destruct W as [ND W].
  destruct d as [|d]; [cbn [depth] in D; lia|]. apply depth_obj in D.
  destruct f as [|f]; [lia|]. rewrite print_obj in *.
  destruct l as [|x xs].
  - reflexivity.
  - rewrite !sapp_assoc. cbn [append]. rewrite !sapp_length in L. cbn [slen] in L.
    rewrite pvalue_obj by (apply head_ok_members; discriminate).
    change ("}" ++ rest) with (String "}" rest).
    rewrite (pmembers_join (x :: xs) ltac:(discriminate) FR W [] f d rest ND D) by lia.
    reflexivity.
Qed.

(* ------------------------------------------------------------------ the round trip *)
Theorem print_parse v : RT v.
Proof.
  induction v using json_ind'.
  - apply RT_null.
  - apply RT_bool.
  - apply RT_num.
  - apply RT_str.
  - apply RT_arr. assumption.
  - apply RT_obj. assumption.
Qed.

Theorem loads_mode_print limit v : wf v -> depth v <= limit -> loads_mode fm limit (print_compact v) = LValue (jback v).
Proof.
  intros W D. unfold loads_mode.
  pose proof (head_ok_print v "" W eq_refl) as H. rewrite sapp_nil_r in H.
  assert (B : prefix_rest bom (print_compact v) = None).
  { destruct (print_compact v) as [|c r]; [contradiction|]. destruct H as [_ [_ [_ H]]].
    unfold bom. cbn [prefix_rest]. destruct (Ascii.eqb_spec (ascii_of_N 239) c) as [<-|NE]; [|reflexivity].
    exfalso. vm_compute in H. discriminate H. }
  rewrite B. rewrite head_ok_skip by exact H.
  rewrite <- (sapp_nil_r (print_compact v)) at 2.
  rewrite (print_parse v W (enough (print_compact v)) limit "" eq_refl D) by (unfold enough; lia).
  reflexivity.
Qed.
End Mode.

Local Close Scope Z_scope.

(* ---- the two modes ---- *)
Lemma jback_float v : wf FFloat v -> jback FFloat v = v.
Proof.
  induction v using json_ind'; intros W; try reflexivity.
  - destruct n as [z | m e k | | ng]; try reflexivity. destruct W as [-> _]. reflexivity.
  - apply wf_arr in W. cbn [jback]. f_equal.
    induction l as [|x r IHl]; [reflexivity|]. inversion H; subst. inversion W; subst.
    cbn [map]. f_equal; auto.
  - apply wf_obj in W. destruct W as [_ W]. cbn [jback]. f_equal.
    induction l as [|x r IHl]; [reflexivity|]. inversion H; subst. inversion W as [|? ? [_ Wx] Wr]; subst.
    cbn [map]. f_equal; [destruct x; cbn [fst snd] in *; f_equal; auto|auto].
Qed.

(* json.loads(json.dumps(v, separators=(",", ":"))) == v *)
Theorem loads_print limit v : wf FFloat v -> depth v <= limit -> loads limit (print_compact v) = LValue v.
Proof.
  intros W D. unfold loads. rewrite (loads_mode_print FFloat limit v W D), jback_float by exact W. reflexivity.
Qed.
