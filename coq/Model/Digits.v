(* Digits.v -- decimal digit lists (most significant first): the text of a number and back. *)
From Coq Require Import List NArith Bool String Ascii.
Import ListNotations.
Local Open Scope N_scope.

Definition dchar (d : N) : ascii := ascii_of_N (48 + d).

Fixpoint dstr (ds : list N) : string :=
  match ds with
  | [] => EmptyString
  | d :: r => String (dchar d) (dstr r)
  end.

Definition dval (ds : list N) : N := fold_left (fun a d => 10 * a + d) ds 0.

(* fuel = number of divisions allowed; the last step emits what is left *)
Fixpoint digits_go (fuel : nat) (n : N) (acc : list N) : list N :=
  match fuel with
  | O => n :: acc
  | S f => if n <? 10 then n :: acc else digits_go f (n / 10) (n mod 10 :: acc)
  end.

(* log2 n bounds the number of decimal digits minus one *)
Definition digits (n : N) : list N := digits_go (N.to_nat (N.log2 n)) n [].

Definition digit_val (c : ascii) : option N :=
  let n := N_of_ascii c in
  if (48 <=? n) && (n <=? 57) then Some (n - 48) else None.

Definition is_digit (c : ascii) : bool := match digit_val c with Some _ => true | None => false end.

(* the maximal run of digits *)
Fixpoint scan_digits (s : string) : list N * string :=
  match s with
  | EmptyString => ([], s)
  | String c r =>
      match digit_val c with
      | Some d => let (u, r') := scan_digits r in (d :: u, r')
      | None => ([], s)
      end
  end.

Definition starts_with_digit (s : string) : bool :=
  match s with String c _ => is_digit c | EmptyString => false end.
