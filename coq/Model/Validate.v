(* Validate.v -- ocpp.messages._validate_payload / get_validator, without the cache
   (Cache.v adds it): which schema, which float mode, which outcome. *)
From Coq Require Import List ZArith Bool String Ascii.
From OV.Model Require Import Json Schema.
From OV.Gen Require Import ValidateRules.
Import ListNotations.
Local Open Scope string_scope.

Inductive version := V16 | V201.
Inductive mtype := MCall | MCallResult.

Definition version_eqb a b := match a, b with V16, V16 | V201, V201 => true | _, _ => false end.
Definition mtype_eqb a b := match a, b with MCall, MCall | MCallResult, MCallResult => true | _, _ => false end.

Definition version_str (v : version) : string := match v with V16 => "1.6" | V201 => "2.0.1" end.

(* the three OCPP 1.6 messages validated with decimal.Decimal *)
Definition decimal_msg (v : version) (mt : mtype) (action : string) : bool :=
  match v, mt with
  | V16, MCall => mem action decimal_calls16            (* lists regenerated from _validate_payload's condition *)
  | V16, MCallResult => mem action decimal_results16
  | _, _ => false
  end.

Definition mode_of (v : version) (mt : mtype) (action : string) : mode :=
  if decimal_msg v mt action then MDecimal else MFloat.

(* get_validator: the schema file name without ".json" *)
Definition schema_name (v : version) (mt : mtype) (action : string) : string :=
  match mt, v with
  | MCallResult, _ => action ++ "Response"
  | MCall, V201 => action ++ "Request"
  | MCall, V16 => action
  end.

(* json.loads(json.dumps(payload, default=_decimal_as_float), parse_float=Decimal,
   parse_constant=Decimal): every float becomes a Decimal with the digits of its repr *)
Fixpoint retag (j : json) : json :=
  match j with
  | JNum (NDec m e _) => JNum (NDec m e FDecimal)
  | JArr l => JArr (map retag l)
  | JObj l => JObj (map (fun kv => (fst kv, retag (snd kv))) l)
  | _ => j
  end.

Definition is_crash (k : kind) : bool := match k with KCrash => true | _ => false end.

Inductive vresult :=
| VAccept (payload : json)            (* message.payload afterwards (re-tagged in decimal mode) *)
| VReject (codes : list ocode) (may_crash : bool)
                                      (* an OCPPError with one of these codes (first error in keyword
                                         order; the order is not modelled) -- or, when may_crash, a
                                         foreign exception from a keyword evaluated before any error *)
| VCrash                              (* a foreign exception, certainly *)
| VNoSchema.                          (* OSError on open() -> NotImplementedError *)

Definition classify (vs : list kind) (p : json) : vresult :=
  match vs with
  | [] => VAccept p
  | _ =>
      let real := filter (fun k => negb (is_crash k)) vs in
      match real with
      | [] => VCrash
      | _ => VReject (map code_of real) (existsb is_crash vs)
      end
  end.

Section Tables.
  Variable tbl : version -> list (string * schema).

  Definition validate_with (sm : mode) (s : schema) (v : version) (mt : mtype) (action : string)
             (payload : json) : vresult :=
    let pm := mode_of v mt action in
    let p := match pm with MDecimal => retag payload | MFloat => payload end in
    classify (violations sm pm s p) p.

  Definition validate (v : version) (mt : mtype) (action : string) (payload : json) : vresult :=
    match assoc (schema_name v mt action) (tbl v) with
    | None => VNoSchema
    | Some s => validate_with (mode_of v mt action) s v mt action payload
    end.
End Tables.
