(* RetagProofs.v -- Validate.retag (the model of
     json.loads(json.dumps(payload, default=_decimal_as_float), parse_float=Decimal, parse_constant=Decimal)
   in _validate_payload) is what the text-level models compute: print the value, parse the text in Decimal mode. *)
From Coq Require Import List ZArith NArith Bool String Ascii Lia.
From OV.Model Require Import Json Digits JsonText JsonParse JsonParseProofs Utf8Proofs StringRoundTrip JsonRoundTrip
     Schema Validate.
Import ListNotations.

Lemma jback_decimal_retag v : jback FDecimal v = retag v.
Proof.
  induction v using json_ind'; try reflexivity.
  - destruct n; reflexivity.
  - cbn [jback retag]. f_equal. induction l as [|x r IHl]; [reflexivity|]. inversion H; subst.
    cbn [map]. f_equal; auto.
  - cbn [jback retag]. f_equal. induction l as [|x r IHl]; [reflexivity|]. inversion H; subst.
    cbn [map]. f_equal; [f_equal; auto|auto].
Qed.

(* a value json.dumps can print and json.loads read back as floats is also fine in Decimal mode *)
Lemma lit_ok_decimal m e : lit_ok FFloat m e -> lit_ok FDecimal m e.
Proof.
  unfold lit_ok. destruct (m =? 0)%Z; [trivial|]. intros [H _]. split; [exact H|discriminate].
Qed.

Lemma wf_decimal v : wf FFloat v -> wf FDecimal v.
Proof.
  induction v using json_ind'; intros W; try exact W.
  - destruct n as [z | m e k | | ng]; try exact W. destruct W as [K W]. split; [exact K|apply lit_ok_decimal, W].
  - apply wf_arr. apply wf_arr in W. induction l as [|x r IHl]; [constructor|].
    inversion H; subst. inversion W; subst. constructor; auto.
  - apply wf_obj. apply wf_obj in W. destruct W as [N W]. split; [exact N|].
    induction l as [|x r IHl]; [constructor|]. inversion H; subst. inversion W as [|? ? [W1 W2] Wr]; subst.
    constructor; [split; [exact W1|auto]|apply IHl; [assumption|inversion N; assumption|assumption]].
Qed.

(* the Decimal round trip of _validate_payload, at the text level *)
Theorem loads_decimal_print limit v :
  wf FDecimal v -> depth v <= limit ->
  loads_mode FDecimal limit (print_compact v) = LValue (retag v).
Proof. intros W D. rewrite (loads_mode_print FDecimal limit v W D), jback_decimal_retag. reflexivity. Qed.

(* in particular for every value that round-trips as floats *)
Corollary retag_is_dumps_loads limit v :
  wf FFloat v -> depth v <= limit ->
  loads_mode FDecimal limit (print_compact v) = LValue (retag v).
Proof. intros W D. apply loads_decimal_print; [apply wf_decimal, W|exact D]. Qed.

(* the digits survive: a float 21.4 comes back as Decimal("21.4") *)
Example retag_example :
  loads_mode FDecimal 100 (print_compact (JObj [("limit"%string, JNum (NDec 214 (-1) FFloat))]))
  = LValue (JObj [("limit"%string, JNum (NDec 214 (-1) FDecimal))]).
Proof. vm_compute. reflexivity. Qed.
