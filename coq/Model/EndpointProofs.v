(* EndpointProofs.v -- invariants of the call / gate / queue / clock machine, for every
   finite sequence of operations (callers, inbound frames, clock advances, cancellations,
   failing writes). *)
From Coq Require Import List ZArith Bool String Ascii Lia Arith.
From OV.Model Require Import Json Names Schema Validate Frame Vocab Classes Dispatch Endpoint.
Import ListNotations.
Local Open Scope Z_scope.

(* ---------- the gate protocol read off the log (newest entry first) ---------- *)
Fixpoint gate_of (l : list (Z * obs)) : option (option nat) :=
  match l with
  | [] => Some None
  | (_, o) :: r =>
      match gate_of r with
      | None => None
      | Some (Some k') =>
          match o with
          | CallWritten _ _ => None                         (* a CALL written while one is outstanding *)
          | Released k _ => if Nat.eqb k k' then Some None else None
          | _ => Some (Some k')
          end
      | Some None =>
          match o with
          | CallWritten k _ => Some (Some k)
          | Released _ WSendFail => Some None               (* the write itself failed *)
          | Released _ _ => None
          | _ => Some None
          end
      end
  end.

(* the protocol read as a statement about the log: between two CALL writes lies the release of
   the first request *)
Lemma gate_of_app_none x y : gate_of y = None -> gate_of (x ++ y) = None.
Proof.
  intros H. induction x as [|[t o] r IH]; simpl; [exact H|]. rewrite IH. reflexivity.
Qed.

Lemma gate_of_held x : forall y k g,
  gate_of y = Some (Some k) -> gate_of (x ++ y) = Some g ->
  (forall t w, ~ In (t, Released k w) x) -> g = Some k.
Proof.
  induction x as [|[t o] r IH]; intros y k g Hy Hxy Hno; simpl in *.
  - congruence.
  - destruct (gate_of (r ++ y)) as [g'|] eqn:E; [|discriminate].
    assert (g' = Some k) as ->.
    { eapply IH; [exact Hy | exact E |]. intros t' w' Hin. eapply Hno. right. exact Hin. }
    destruct o as [k' f|k' w|k' m|m|e]; try (injection Hxy as <-; reflexivity).
    + discriminate.
    + destruct (Nat.eqb k' k) eqn:Ek; [|discriminate].
      apply Nat.eqb_eq in Ek. subst k'. exfalso. eapply Hno. left. reflexivity.
Qed.

Theorem gate_no_overlap post mid pre t' k' f' t k f g :
  gate_of (post ++ (t', CallWritten k' f') :: mid ++ (t, CallWritten k f) :: pre) = Some g ->
  exists tr w, In (tr, Released k w) mid.
Proof.
  intros H.
  destruct (gate_of ((t, CallWritten k f) :: pre)) as [g0|] eqn:E0.
  2:{ rewrite (gate_of_app_none (post ++ (t', CallWritten k' f') :: mid) _ E0) in H
        || (replace (post ++ (t', CallWritten k' f') :: mid ++ (t, CallWritten k f) :: pre)
              with ((post ++ (t', CallWritten k' f') :: mid) ++ (t, CallWritten k f) :: pre) in H
              by (rewrite <- app_assoc; reflexivity);
            rewrite (gate_of_app_none _ _ E0) in H); discriminate. }
  assert (g0 = Some k) as ->.
  { simpl in E0. destruct (gate_of pre) as [[h|]|]; try discriminate. injection E0 as <-. reflexivity. }
  destruct (gate_of (mid ++ (t, CallWritten k f) :: pre)) as [g1|] eqn:E1.
  2:{ replace (post ++ (t', CallWritten k' f') :: mid ++ (t, CallWritten k f) :: pre)
        with ((post ++ [(t', CallWritten k' f')]) ++ (mid ++ (t, CallWritten k f) :: pre)) in H
        by (rewrite <- app_assoc; reflexivity).
      rewrite (gate_of_app_none _ _ E1) in H. discriminate. }
  (* if no release of k occurs in mid, the gate is still held by k when k' writes *)
  destruct (existsb (fun p => match snd p with Released kk _ => Nat.eqb kk k | _ => false end) mid) eqn:Eex.
  - apply existsb_exists in Eex. destruct Eex as [[tr o] [Hin Ho]]. simpl in Ho.
    destruct o as [| kk w | | |]; try discriminate. apply Nat.eqb_eq in Ho. subst kk. exists tr, w. exact Hin.
  - exfalso.
    assert (Hno : forall tr w, ~ In (tr, Released k w) mid).
    { intros tr w Hin. assert (X : existsb (fun p => match snd p with Released kk _ => Nat.eqb kk k | _ => false end) mid = true).
      { apply existsb_exists. exists (tr, Released k w). split; [exact Hin | simpl; apply Nat.eqb_refl]. }
      congruence. }
    pose proof (gate_of_held mid _ k g1 E0 E1 Hno) as ->.
    assert (E2 : gate_of ((t', CallWritten k' f') :: mid ++ (t, CallWritten k f) :: pre) = None).
    { simpl. simpl in E1. rewrite E1. reflexivity. }
    rewrite (gate_of_app_none post _ E2) in H. discriminate.
Qed.

(* ---------- association list of callers ---------- *)
Lemma get_set_same k c l : get_caller k (set_caller k c l) = Some c.
Proof.
  induction l as [|[k' c'] r IH]; simpl.
  - rewrite Nat.eqb_refl. reflexivity.
  - destruct (Nat.eqb k k') eqn:E; simpl; rewrite ?Nat.eqb_refl, ?E; auto.
Qed.

Lemma get_set_other k k' c l : k <> k' -> get_caller k' (set_caller k c l) = get_caller k' l.
Proof.
  intros Hne. induction l as [|[k2 c2] r IH]; simpl.
  - destruct (Nat.eqb k' k) eqn:E; [apply Nat.eqb_eq in E; congruence | reflexivity].
  - destruct (Nat.eqb k k2) eqn:E; simpl.
    + apply Nat.eqb_eq in E. subst k2.
      destruct (Nat.eqb k' k) eqn:E2; [apply Nat.eqb_eq in E2; congruence | reflexivity].
    + destruct (Nat.eqb k' k2); [reflexivity | exact IH].
Qed.

Section Proofs.
  Variable tbl : version -> list (string * schema).
  Variable acts : version -> list string.
  Variable errors : list (string * string * string).
  Variable results : version -> list classdef.
  Variable fresh : nat -> string.
  Variable timeout : Z.
  Variable c : cfg.
  Hypothesis timeout_pos : 0 < timeout.

  Notation settle := (settle tbl errors results timeout c).
  Notation quiesce := (quiesce tbl errors results timeout c).
  Notation advance := (advance tbl errors results timeout c).
  Notation step := (step tbl acts errors results fresh timeout c).
  Notation run := (run tbl acts errors results fresh timeout c).
  Notation do_send := (do_send timeout).
  Notation complete := (complete tbl errors results c).

  (* outcomes that only a reply can produce *)
  Definition reply_outcome (o : outcome) : bool :=
    match o with OResult _ | ONone | ORaise _ _ _ | OUnknownCode => true | _ => false end.

  Lemma complete_with_phase cl p m : complete (with_phase cl p) m = complete cl m.
  Proof. reflexivity. Qed.

  Record Inv (st : state) : Prop := mkInv {
    inv_gate : gate_of (log st) = Some (holder st);
    inv_wait : forall k cl d, get_caller k (callers st) = Some cl -> cl_phase cl = PWaiting d ->
                 holder st = Some k /\ now st < d /\ exists f, In (d - timeout, CallWritten k f) (log st);
    inv_holder : forall k, holder st = Some k ->
                 exists cl d, get_caller k (callers st) = Some cl /\ cl_phase cl = PWaiting d;
    inv_deliv : forall t k m, In (t, Delivered k m) (log st) ->
                 exists cl, get_caller k (callers st) = Some cl /\ py_eqb (msg_id m) (cl_uid cl) = true;
    inv_tmo : forall k cl t, get_caller k (callers st) = Some cl -> cl_phase cl = PDone OTimeout t ->
                 exists f, In (t - timeout, CallWritten k f) (log st);
    inv_done : forall k cl o t, get_caller k (callers st) = Some cl -> cl_phase cl = PDone o t ->
                 reply_outcome o = true ->
                 exists m, In (t, Delivered k m) (log st) /\ o = complete cl m }.

  Lemma Inv_init : Inv init.
  Proof.
    constructor; simpl; try reflexivity; try (intros; discriminate); try (intros; contradiction).
  Qed.

  (* uid of a caller never changes when only its phase is set *)
  Lemma with_phase_uid cl p : cl_uid (with_phase cl p) = cl_uid cl.
  Proof. reflexivity. Qed.
  Lemma with_phase_phase cl p : cl_phase (with_phase cl p) = p.
  Proof. reflexivity. Qed.

  (* --- log entries that do not touch the gate --- *)
  Definition neutral (o : obs) : Prop :=
    match o with Discarded _ | Disp _ => True | _ => False end.

  Lemma Inv_put_neutral st o : neutral o -> Inv st -> Inv (put_log st o).
  Proof.
    intros Hn [Hg Hw Hh Hd Ht Ho]. constructor; simpl.
    - rewrite Hg. destruct o; try contradiction; destruct (holder st); reflexivity.
    - intros k cl d H1 H2. destruct (Hw k cl d H1 H2) as [A [B [f Hf]]]. repeat split; auto. exists f. right. exact Hf.
    - exact Hh.
    - intros t k m [H|H]; [destruct o; try contradiction; discriminate | apply (Hd t k m H)].
    - intros k cl t H1 H2. destruct (Ht k cl t H1 H2) as [f Hf]. exists f. right. exact Hf.
    - intros k cl o' t H1 H2 H3. destruct (Ho k cl o' t H1 H2 H3) as [m [Hm He]]. exists m. split; [right; exact Hm | exact He].
  Qed.

  Lemma Inv_set_queue st q : Inv st -> Inv (set_queue st q).
  Proof. intros [Hg Hw Hh Hd Ht Ho]. constructor; simpl; assumption. Qed.
  Lemma Inv_set_waiters st w : Inv st -> Inv (set_waiters st w).
  Proof. intros [Hg Hw Hh Hd Ht Ho]. constructor; simpl; assumption. Qed.

  (* --- the holder k finishes (reply matched, timeout at its deadline, cancellation) --- *)
  Lemma Inv_release st k cl o w :
    Inv st -> holder st = Some k -> get_caller k (callers st) = Some cl ->
    (w = WTimeout -> o = OTimeout /\ exists d, cl_phase cl = PWaiting d /\ now st = d) ->
    (w <> WTimeout -> o <> OTimeout) ->
    (reply_outcome o = true -> exists m, In (now st, Delivered k m) (log st) /\ o = complete cl m) ->
    Inv (set_phase (set_holder (put_log st (Released k w)) None) k (PDone o (now st))).
  Proof.
    intros [Hg Hw Hh Hd Ht Ho] Hk Hc Htm Hntm Hrep.
    unfold set_phase. simpl. rewrite Hc. constructor; simpl.
    - rewrite Hg, Hk. rewrite Nat.eqb_refl. reflexivity.
    - intros k' cl' d H1 H2. destruct (Nat.eq_dec k k') as [<-|Hne].
      + rewrite get_set_same in H1. injection H1 as <-. simpl in H2. discriminate.
      + rewrite get_set_other in H1 by exact Hne.
        destruct (Hw k' cl' d H1 H2) as [A _]. congruence.
    - intros k' H. discriminate.
    - intros t k' m [H|H]; [discriminate|].
      destruct (Hd t k' m H) as [cl' [H1 H2]]. destruct (Nat.eq_dec k k') as [<-|Hne].
      + exists (with_phase cl (PDone o (now st))). rewrite get_set_same. split; [reflexivity|].
        rewrite H1 in Hc. injection Hc as <-. exact H2.
      + exists cl'. rewrite get_set_other by exact Hne. split; assumption.
    - intros k' cl' t H1 H2. destruct (Nat.eq_dec k k') as [<-|Hne].
      + rewrite get_set_same in H1. injection H1 as <-. simpl in H2. injection H2 as H2o H2t.
        destruct w; try (exfalso; eapply Hntm; [discriminate | exact H2o]).
        destruct (Htm eq_refl) as [_ [d [Hp Hd']]].
        destruct (Hw k cl d Hc Hp) as [_ [_ [f Hf]]]. exists f. right. subst t. rewrite Hd'. exact Hf.
      + rewrite get_set_other in H1 by exact Hne. destruct (Ht k' cl' t H1 H2) as [f Hf]. exists f. right. exact Hf.
    - intros k' cl' o' t H1 H2 H3. destruct (Nat.eq_dec k k') as [<-|Hne].
      + rewrite get_set_same in H1. injection H1 as <-. simpl in H2. injection H2 as <- <-.
        destruct (Hrep H3) as [m [Hm He]]. exists m. split; [right; exact Hm | rewrite complete_with_phase; exact He].
      + rewrite get_set_other in H1 by exact Hne. destruct (Ho k' cl' o' t H1 H2 H3) as [m [Hm He]].
        exists m. split; [right; exact Hm | exact He].
  Qed.

  (* --- a reply is handed to the holder --- *)
  Lemma Inv_deliver st k cl m :
    Inv st -> holder st = Some k -> get_caller k (callers st) = Some cl ->
    py_eqb (msg_id m) (cl_uid cl) = true -> complete cl m <> OTimeout ->
    Inv (set_phase (set_holder (put_log (put_log st (Delivered k m)) (Released k WMatched)) None) k
                   (PDone (complete cl m) (now st))).
  Proof.
    intros HI Hk Hc Heq Hnt.
    assert (HI1 : Inv (put_log st (Delivered k m))).
    { destruct HI as [Hg Hw Hh Hd Ht Ho]. constructor; simpl.
      - rewrite Hg. destruct (holder st); reflexivity.
      - intros k' cl' d H1 H2. destruct (Hw k' cl' d H1 H2) as [A [B [f Hf]]]. repeat split; auto. exists f. right. exact Hf.
      - exact Hh.
      - intros t k' m' [H|H]; [injection H as _ <- <-; exists cl; split; assumption | apply (Hd t k' m' H)].
      - intros k' cl' t H1 H2. destruct (Ht k' cl' t H1 H2) as [f Hf]. exists f. right. exact Hf.
      - intros k' cl' o' t H1 H2 H3. destruct (Ho k' cl' o' t H1 H2 H3) as [m' [Hm He]]. exists m'. split; [right; exact Hm | exact He]. }
    apply (Inv_release (put_log st (Delivered k m)) k cl (complete cl m) WMatched HI1); simpl; auto.
    - discriminate.
    - intros _. exists m. split; [left; reflexivity | reflexivity].
  Qed.

  (* complete never yields OTimeout *)
  Lemma complete_not_timeout cl m : complete cl m <> OTimeout.
  Proof.
    unfold Endpoint.complete. destruct m as [i a p|i p a|i cd d x].
    - discriminate.
    - destruct (if cl_skip cl then _ else _) as [p'|codes mc| |]; try discriminate.
      + destruct (construct _ _ _ _); discriminate.
      + destruct mc; discriminate.
    - destruct (cl_suppress cl); [discriminate|]. unfold to_exception.
      destruct cd; try discriminate. destruct (find _ errors) as [[[a b] d0]|]; discriminate.
  Qed.

  (* --- a caller that got the gate writes its CALL (or fails to) --- *)
  Lemma Inv_do_send st k : Inv st -> holder st = None -> Inv (do_send st k).
  Proof.
    intros HI Hk. unfold Endpoint.do_send. destruct (get_caller k (callers st)) as [cl|] eqn:Hc; [|exact HI].
    destruct HI as [Hg Hw Hh Hd Ht Ho].
    destruct (cl_send_ok cl).
    - unfold set_phase. simpl. rewrite Hc. constructor; simpl.
      + rewrite Hg, Hk. reflexivity.
      + intros k' cl' d H1 H2. destruct (Nat.eq_dec k k') as [<-|Hne].
        * rewrite get_set_same in H1. injection H1 as <-. simpl in H2. injection H2 as <-.
          repeat split; [lia|]. eexists. left. f_equal. lia.
        * rewrite get_set_other in H1 by exact Hne. destruct (Hw k' cl' d H1 H2) as [A _]. congruence.
      + intros k' H. injection H as <-. exists (with_phase cl (PWaiting (now st + timeout))), (now st + timeout).
        rewrite get_set_same. split; reflexivity.
      + intros t k' m [H|H]; [discriminate|]. destruct (Hd t k' m H) as [cl' [H1 H2]].
        destruct (Nat.eq_dec k k') as [<-|Hne].
        * exists (with_phase cl (PWaiting (now st + timeout))). rewrite get_set_same. split; [reflexivity|].
          rewrite H1 in Hc. injection Hc as <-. exact H2.
        * exists cl'. rewrite get_set_other by exact Hne. split; assumption.
      + intros k' cl' t H1 H2. destruct (Nat.eq_dec k k') as [<-|Hne].
        * rewrite get_set_same in H1. injection H1 as <-. simpl in H2. discriminate.
        * rewrite get_set_other in H1 by exact Hne. destruct (Ht k' cl' t H1 H2) as [f Hf]. exists f. right. exact Hf.
      + intros k' cl' o' t H1 H2 H3. destruct (Nat.eq_dec k k') as [<-|Hne].
        * rewrite get_set_same in H1. injection H1 as <-. simpl in H2. discriminate.
        * rewrite get_set_other in H1 by exact Hne. destruct (Ho k' cl' o' t H1 H2 H3) as [m [Hm He]].
          exists m. split; [right; exact Hm | exact He].
    - unfold set_phase. simpl. rewrite Hc. constructor; simpl.
      + rewrite Hg, Hk. reflexivity.
      + intros k' cl' d H1 H2. destruct (Nat.eq_dec k k') as [<-|Hne].
        * rewrite get_set_same in H1. injection H1 as <-. simpl in H2. discriminate.
        * rewrite get_set_other in H1 by exact Hne. destruct (Hw k' cl' d H1 H2) as [A _]. congruence.
      + intros k' H. discriminate.
      + intros t k' m [H|H]; [discriminate|]. destruct (Hd t k' m H) as [cl' [H1 H2]].
        destruct (Nat.eq_dec k k') as [<-|Hne].
        * exists (with_phase cl (PDone OSendFail (now st))). rewrite get_set_same. split; [reflexivity|].
          rewrite H1 in Hc. injection Hc as <-. exact H2.
        * exists cl'. rewrite get_set_other by exact Hne. split; assumption.
      + intros k' cl' t H1 H2. destruct (Nat.eq_dec k k') as [<-|Hne].
        * rewrite get_set_same in H1. injection H1 as <-. simpl in H2. discriminate.
        * rewrite get_set_other in H1 by exact Hne. destruct (Ht k' cl' t H1 H2) as [f Hf]. exists f. right. exact Hf.
      + intros k' cl' o' t H1 H2 H3. destruct (Nat.eq_dec k k') as [<-|Hne].
        * rewrite get_set_same in H1. injection H1 as <-. simpl in H2. injection H2 as <- <-. discriminate.
        * rewrite get_set_other in H1 by exact Hne. destruct (Ho k' cl' o' t H1 H2 H3) as [m [Hm He]].
          exists m. split; [right; exact Hm | exact He].
  Qed.

  (* --- quiescence --- *)
  Lemma Inv_settle fuel : forall st, Inv st -> Inv (settle fuel st).
  Proof.
    induction fuel as [|f IH]; intros st HI; [exact HI|]. simpl.
    destruct (holder st) as [k|] eqn:Hk.
    - destruct (get_caller k (callers st)) as [cl|] eqn:Hc; [|exact HI].
      destruct (cl_phase cl) as [|d|o t] eqn:Hp; try exact HI.
      destruct (queue st) as [|m q] eqn:Hq; [exact HI|].
      pose proof (Inv_set_queue st q HI) as HI1.
      destruct (py_eqb (msg_id m) (cl_uid cl)) eqn:Heq.
      + apply IH. apply (Inv_deliver (set_queue st q) k cl m HI1 Hk Hc Heq). apply complete_not_timeout.
      + pose proof (Inv_put_neutral (set_queue st q) (Discarded m) I HI1) as HI2.
        destruct (d - now st <=? 0) eqn:Ed.
        * exfalso. apply Z.leb_le in Ed. destruct (inv_wait st HI k cl d Hc Hp) as [_ [Hlt _]]. lia.
        * apply IH. exact HI2.
    - destruct (waiters st) as [|k ws] eqn:Hw; [exact HI|].
      apply IH. apply Inv_do_send; [apply Inv_set_waiters; exact HI | exact Hk].
  Qed.

  Lemma Inv_quiesce st : Inv st -> Inv (quiesce st).
  Proof. apply Inv_settle. Qed.

  (* --- the clock --- *)
  Lemma no_waiting_without_holder st : Inv st -> holder st = None ->
    forall k cl d, get_caller k (callers st) = Some cl -> cl_phase cl <> PWaiting d.
  Proof. intros HI Hk k cl d H1 H2. destruct (inv_wait st HI k cl d H1 H2) as [A _]. congruence. Qed.

  Lemma Inv_set_now st t :
    Inv st -> (forall k cl d, holder st = Some k -> get_caller k (callers st) = Some cl ->
                              cl_phase cl = PWaiting d -> t < d) ->
    Inv (set_now st t).
  Proof.
    intros [Hg Hw Hh Hd Ht Ho] Hlt. constructor; simpl; try assumption.
    intros k cl d H1 H2. destruct (Hw k cl d H1 H2) as [A [B C]]. repeat split; auto. eapply Hlt; eassumption.
  Qed.

  Lemma Inv_timeout st k cl d :
    Inv st -> holder st = Some k -> get_caller k (callers st) = Some cl -> cl_phase cl = PWaiting d ->
    Inv (set_phase (set_holder (put_log (set_now st d) (Released k WTimeout)) None) k (PDone OTimeout d)).
  Proof.
    intros [Hg Hw Hh Hd Ht Ho] Hk Hc Hp. unfold set_phase. simpl. rewrite Hc. constructor; simpl.
    - rewrite Hg, Hk. rewrite Nat.eqb_refl. reflexivity.
    - intros k' cl' d' H1 H2. destruct (Nat.eq_dec k k') as [<-|Hne].
      + rewrite get_set_same in H1. injection H1 as <-. simpl in H2. discriminate.
      + rewrite get_set_other in H1 by exact Hne. destruct (Hw k' cl' d' H1 H2) as [A _]. congruence.
    - intros k' H. discriminate.
    - intros t k' m [H|H]; [discriminate|].
      destruct (Hd t k' m H) as [cl' [H1 H2]]. destruct (Nat.eq_dec k k') as [<-|Hne].
      + exists (with_phase cl (PDone OTimeout d)). rewrite get_set_same. split; [reflexivity|].
        rewrite H1 in Hc. injection Hc as <-. exact H2.
      + exists cl'. rewrite get_set_other by exact Hne. split; assumption.
    - intros k' cl' t H1 H2. destruct (Nat.eq_dec k k') as [<-|Hne].
      + rewrite get_set_same in H1. injection H1 as <-. simpl in H2. injection H2 as <-.
        destruct (Hw k cl d Hc Hp) as [_ [_ [f Hf]]]. exists f. right. exact Hf.
      + rewrite get_set_other in H1 by exact Hne. destruct (Ht k' cl' t H1 H2) as [f Hf]. exists f. right. exact Hf.
    - intros k' cl' o' t H1 H2 H3. destruct (Nat.eq_dec k k') as [<-|Hne].
      + rewrite get_set_same in H1. injection H1 as <-. simpl in H2. injection H2 as <- <-. discriminate.
      + rewrite get_set_other in H1 by exact Hne. destruct (Ho k' cl' o' t H1 H2 H3) as [m [Hm He]].
        exists m. split; [right; exact Hm | exact He].
  Qed.

  Lemma Inv_advance fuel target : forall st, Inv st -> Inv (advance fuel target st).
  Proof.
    induction fuel as [|f IH]; intros st HI; simpl; [exact HI|].
    destruct (holder st) as [k|] eqn:Hk.
    - destruct (get_caller k (callers st)) as [cl|] eqn:Hc.
      + destruct (cl_phase cl) as [|d|o t] eqn:Hp.
        * apply Inv_set_now; [exact HI|]. intros k' cl' d' H1 H2 H3. congruence.
        * destruct (d <=? target) eqn:Ed.
          -- destruct (inv_wait st HI k cl d Hc Hp) as [_ [Hlt _]].
             replace (Z.max d (now st)) with d by lia.
             apply IH. apply Inv_quiesce. simpl. apply (Inv_timeout st k cl d HI Hk Hc Hp).
          -- apply Z.leb_gt in Ed. apply Inv_set_now; [exact HI|].
             intros k' cl' d' H1 H2 H3. rewrite Hk in H1. injection H1 as <-. rewrite Hc in H2.
             injection H2 as <-. rewrite Hp in H3. injection H3 as <-. exact Ed.
        * apply Inv_set_now; [exact HI|]. intros k' cl' d' H1 H2 H3. congruence.
      + apply Inv_set_now; [exact HI|]. intros k' cl' d' H1 H2 H3. congruence.
    - apply Inv_set_now; [exact HI|]. intros k' cl' d' H1. congruence.
  Qed.

  (* --- a new caller --- *)
  Lemma Inv_add st k cl :
    Inv st -> get_caller k (callers st) = None ->
    (forall d, cl_phase cl <> PWaiting d) -> (forall t, cl_phase cl <> PDone OTimeout t) ->
    (forall o t, cl_phase cl = PDone o t -> reply_outcome o = false) ->
    Inv (add_caller st k cl).
  Proof.
    intros [Hg Hw Hh Hd Ht Ho] Hnone Hnw Hnt Hnr. constructor; simpl.
    - exact Hg.
    - intros k' cl' d H1 H2. destruct (Nat.eq_dec k k') as [<-|Hne].
      + rewrite get_set_same in H1. injection H1 as <-. exfalso. eapply Hnw. exact H2.
      + rewrite get_set_other in H1 by exact Hne. apply (Hw k' cl' d H1 H2).
    - intros k' H. destruct (Hh k' H) as [cl' [d [H1 H2]]]. exists cl', d.
      destruct (Nat.eq_dec k k') as [<-|Hne]; [congruence|]. rewrite get_set_other by exact Hne. split; assumption.
    - intros t k' m H. destruct (Hd t k' m H) as [cl' [H1 H2]]. exists cl'.
      destruct (Nat.eq_dec k k') as [<-|Hne]; [congruence|]. rewrite get_set_other by exact Hne. split; assumption.
    - intros k' cl' t H1 H2. destruct (Nat.eq_dec k k') as [<-|Hne].
      + rewrite get_set_same in H1. injection H1 as <-. exfalso. eapply Hnt. exact H2.
      + rewrite get_set_other in H1 by exact Hne. apply (Ht k' cl' t H1 H2).
    - intros k' cl' o' t H1 H2 H3. destruct (Nat.eq_dec k k') as [<-|Hne].
      + rewrite get_set_same in H1. injection H1 as <-. rewrite (Hnr o' t H2) in H3. discriminate.
      + rewrite get_set_other in H1 by exact Hne. apply (Ho k' cl' o' t H1 H2 H3).
  Qed.

  Lemma Inv_bump st : Inv st -> Inv (bump_fresh st).
  Proof. intros [Hg Hw Hh Hd Ht Ho]. constructor; simpl; assumption. Qed.

  Lemma Inv_start_with st k uid action snake skip suppress send_ok :
    Inv st -> get_caller k (callers st) = None ->
    Inv (start_with tbl errors results timeout c st k uid action snake skip suppress send_ok).
  Proof.
    intros HI Hc. unfold start_with.
    destruct (if skip then _ else _) as [w|codes mc| |].
    - destruct (holder st) as [h|] eqn:Hh; [|destruct (waiters st) eqn:Hw].
      + apply Inv_set_waiters. apply Inv_add; [exact HI | exact Hc | discriminate | discriminate | discriminate].
      + apply Inv_quiesce. apply Inv_do_send; [|exact Hh].
        apply Inv_add; [exact HI | exact Hc | discriminate | discriminate | discriminate].
      + apply Inv_set_waiters. apply Inv_add; [exact HI | exact Hc | discriminate | discriminate | discriminate].
    - destruct mc; apply Inv_add; try assumption; try discriminate;
        intros o t H; injection H as <- _; reflexivity.
    - apply Inv_add; try assumption; try discriminate; intros o t H; injection H as <- _; reflexivity.
    - apply Inv_add; try assumption; try discriminate; intros o t H; injection H as <- _; reflexivity.
  Qed.

  (* --- a waiting (not holding) caller is cancelled --- *)
  Lemma Inv_cancel_waiter st k cl :
    Inv st -> get_caller k (callers st) = Some cl -> cl_phase cl = PWaitLock ->
    Inv (set_phase st k (PDone OCancelled (now st))).
  Proof.
    intros [Hg Hw Hh Hd Ht Ho] Hc Hp. unfold set_phase. rewrite Hc. constructor; simpl.
    - exact Hg.
    - intros k' cl' d H1 H2. destruct (Nat.eq_dec k k') as [<-|Hne].
      + rewrite get_set_same in H1. injection H1 as <-. simpl in H2. discriminate.
      + rewrite get_set_other in H1 by exact Hne. apply (Hw k' cl' d H1 H2).
    - intros k' H. destruct (Hh k' H) as [cl' [d [H1 H2]]].
      destruct (Nat.eq_dec k k') as [<-|Hne].
      + rewrite H1 in Hc. injection Hc as <-. congruence.
      + exists cl', d. rewrite get_set_other by exact Hne. split; assumption.
    - intros t k' m H. destruct (Hd t k' m H) as [cl' [H1 H2]]. destruct (Nat.eq_dec k k') as [<-|Hne].
      + exists (with_phase cl (PDone OCancelled (now st))). rewrite get_set_same. split; [reflexivity|].
        rewrite H1 in Hc. injection Hc as <-. exact H2.
      + exists cl'. rewrite get_set_other by exact Hne. split; assumption.
    - intros k' cl' t H1 H2. destruct (Nat.eq_dec k k') as [<-|Hne].
      + rewrite get_set_same in H1. injection H1 as <-. simpl in H2. discriminate.
      + rewrite get_set_other in H1 by exact Hne. apply (Ht k' cl' t H1 H2).
    - intros k' cl' o' t H1 H2 H3. destruct (Nat.eq_dec k k') as [<-|Hne].
      + rewrite get_set_same in H1. injection H1 as <-. simpl in H2. injection H2 as <- <-. discriminate.
      + rewrite get_set_other in H1 by exact Hne. apply (Ho k' cl' o' t H1 H2 H3).
  Qed.

  Lemma Inv_fold_disp evs : forall st, Inv st -> Inv (fold_left (fun s e => put_log s (Disp e)) evs st).
  Proof.
    induction evs as [|e r IH]; intros st HI; simpl; [exact HI|].
    apply IH. apply Inv_put_neutral; [exact I | exact HI].
  Qed.

  (* --- every operation preserves the invariant --- *)
  Theorem Inv_step st o : Inv st -> Inv (step st o).
  Proof.
    intros HI. destruct o as [k uid action snake skip suppress send_ok | lo | dt | k]; unfold Endpoint.step; cbv beta iota.
    - destruct (get_caller k (callers st)) as [cl0|] eqn:Hc; [exact HI|].
      destruct uid as [u|].
      + apply Inv_start_with; assumption.
      + apply Inv_start_with; [apply Inv_bump; exact HI | exact Hc].
    - destruct (unpack lo) as [m|e]; [|exact HI].
      destruct m as [i a p | i p a | i cd d x].
      + apply Inv_fold_disp. exact HI.
      + apply Inv_quiesce. apply Inv_set_queue. exact HI.
      + apply Inv_quiesce. apply Inv_set_queue. exact HI.
    - destruct (dt <=? 0); [exact HI | apply Inv_advance; exact HI].
    - destruct (get_caller k (callers st)) as [cl|] eqn:Hc; [|exact HI].
      destruct (cl_phase cl) as [|d|o t] eqn:Hp; [| |exact HI].
      + apply (Inv_cancel_waiter (set_waiters st _) k cl); [apply Inv_set_waiters; exact HI | exact Hc | exact Hp].
      + apply Inv_quiesce. destruct (inv_wait st HI k cl d Hc Hp) as [Hk _].
        apply (Inv_release st k cl OCancelled WCancelled HI Hk Hc); [discriminate | discriminate | discriminate].
  Qed.

  Theorem Inv_run ops : Inv (run ops).
  Proof.
    unfold Endpoint.run. assert (H : forall st, Inv st -> Inv (fold_left step ops st)).
    { induction ops as [|o r IH]; intros st HI; simpl; [exact HI | apply IH; apply Inv_step; exact HI]. }
    apply H. apply Inv_init.
  Qed.

  (* ---------- only replies that actually arrived are ever delivered ---------- *)
  Definition arrived (ops : list op) : list msg :=
    flat_map (fun o => match o with
                       | OInbound lo => match unpack lo with UMsg m => [m] | UErr _ => [] end
                       | _ => []
                       end) ops.

  Definition Arr (A : list msg) (st : state) : Prop :=
    (forall m, In m (queue st) -> In m A) /\
    (forall t k m, In (t, Delivered k m) (log st) -> In m A).

  Lemma Arr_settle A fuel : forall st, Arr A st -> Arr A (settle fuel st).
  Proof.
    induction fuel as [|f IH]; intros st [Hq Hl]; [split; assumption|]. simpl.
    destruct (holder st) as [k|].
    - destruct (get_caller k (callers st)) as [cl|]; [|split; assumption].
      destruct (cl_phase cl) as [|d|o t]; try (split; assumption).
      destruct (queue st) as [|m q] eqn:Eq; [split; [rewrite Eq; exact Hq | exact Hl]|].
      destruct (py_eqb (msg_id m) (cl_uid cl)).
      + apply IH. unfold set_phase. simpl. destruct (get_caller k (callers st)); split; simpl.
        * intros m' H. apply Hq. right. exact H.
        * intros t k' m' [H|[H|H]]; [discriminate | injection H as _ _ <-; apply Hq; left; reflexivity | eapply Hl; exact H].
        * intros m' H. apply Hq. right. exact H.
        * intros t k' m' [H|[H|H]]; [discriminate | injection H as _ _ <-; apply Hq; left; reflexivity | eapply Hl; exact H].
      + destruct (d - now st <=? 0).
        * apply IH. unfold set_phase. simpl. destruct (get_caller k (callers st)); split; simpl.
          -- intros m' H. apply Hq. right. exact H.
          -- intros t k' m' [H|[H|H]]; [discriminate | discriminate | eapply Hl; exact H].
          -- intros m' H. apply Hq. right. exact H.
          -- intros t k' m' [H|[H|H]]; [discriminate | discriminate | eapply Hl; exact H].
        * apply IH. split; simpl.
          -- intros m' H. apply Hq. right. exact H.
          -- intros t k' m' [H|H]; [discriminate | eapply Hl; exact H].
    - destruct (waiters st) as [|k ws]; [split; assumption|].
      apply IH. unfold Endpoint.do_send. simpl. destruct (get_caller k (callers st)) as [cl|]; [|split; assumption].
      destruct (cl_send_ok cl); unfold set_phase; simpl; destruct (get_caller k (callers st)); split; simpl;
        try exact Hq; intros t k' m' [H|H]; try discriminate; eapply Hl; exact H.
  Qed.

  Lemma Arr_mono A B st : (forall m, In m A -> In m B) -> Arr A st -> Arr B st.
  Proof. intros HAB [Hq Hl]. split; intros; apply HAB; eauto. Qed.

  Lemma Arr_advance A fuel target : forall st, Arr A st -> Arr A (advance fuel target st).
  Proof.
    induction fuel as [|f IH]; intros st HA; simpl; [exact HA|].
    destruct (holder st) as [k|]; [|exact HA].
    destruct (get_caller k (callers st)) as [cl|] eqn:Hc; [|exact HA].
    destruct (cl_phase cl) as [|d|o t]; try exact HA.
    destruct (d <=? target); [|exact HA].
    apply IH. apply Arr_settle. destruct HA as [Hq Hl]. unfold set_phase. simpl. rewrite Hc. split; simpl.
    - exact Hq.
    - intros t k' m' [H|H]; [discriminate | eapply Hl; exact H].
  Qed.

  Lemma Arr_start_with A st k uid action snake skip suppress send_ok :
    Arr A st -> Arr A (start_with tbl errors results timeout c st k uid action snake skip suppress send_ok).
  Proof.
    intros HA. unfold start_with. destruct (if skip then _ else _) as [w|codes mc| |]; try (destruct mc); try exact HA.
    destruct (holder st); [exact HA|]. destruct (waiters st); [|exact HA].
    apply Arr_settle. destruct HA as [Hq Hl]. unfold Endpoint.do_send. simpl. rewrite get_set_same.
    destruct send_ok; unfold set_phase; simpl; rewrite get_set_same; split; simpl;
      try exact Hq; intros t k' m' [H|H]; try discriminate; eapply Hl; exact H.
  Qed.

  Lemma Arr_step A st o :
    Arr A st -> Arr (A ++ arrived [o]) (step st o).
  Proof.
    intros HA. assert (HA' : Arr (A ++ arrived [o]) st).
    { eapply Arr_mono; [|exact HA]. intros m H. apply in_or_app. left. exact H. }
    destruct o as [k uid action snake skip suppress send_ok | lo | dt | k]; unfold Endpoint.step; cbv beta iota.
    - destruct (get_caller k (callers st)); [exact HA'|]. destruct uid; apply Arr_start_with; exact HA'.
    - destruct (unpack lo) as [m|e] eqn:Eu; [|exact HA'].
      assert (Hm : In m (A ++ arrived [OInbound lo])).
      { apply in_or_app. right. simpl. rewrite Eu. left. reflexivity. }
      destruct m as [i a p | i p a | i cd d x].
      + destruct HA' as [Hq Hl]. clear Hm. revert st Hq Hl HA.
        induction (handle_call tbl acts c i a p) as [|e r IH]; intros st Hq Hl HA; [split; assumption|].
        simpl. apply IH; simpl; try exact Hq.
        * intros t k m [H|H]; [discriminate | eapply Hl; exact H].
        * destruct HA as [Hq0 Hl0]. split; simpl; [exact Hq0 | intros t k m [H|H]; [discriminate | eapply Hl0; exact H]].
      + apply Arr_settle. destruct HA' as [Hq Hl]. split; simpl; [|exact Hl].
        intros m' H. apply in_app_or in H. destruct H as [H|[<-|[]]]; [apply Hq; exact H | exact Hm].
      + apply Arr_settle. destruct HA' as [Hq Hl]. split; simpl; [|exact Hl].
        intros m' H. apply in_app_or in H. destruct H as [H|[<-|[]]]; [apply Hq; exact H | exact Hm].
    - destruct (dt <=? 0); [exact HA' | apply Arr_advance; exact HA'].
    - destruct (get_caller k (callers st)) as [cl|] eqn:Hc; [|exact HA'].
      destruct (cl_phase cl) as [|d|o t]; [| |exact HA'].
      + destruct HA' as [Hq Hl]. unfold set_phase. simpl. rewrite Hc. split; simpl; assumption.
      + apply Arr_settle. destruct HA' as [Hq Hl]. unfold set_phase. simpl. rewrite Hc. split; simpl; [exact Hq|].
        intros t k' m' [H|H]; [discriminate | eapply Hl; exact H].
  Qed.

  Lemma arrived_app a b : arrived (a ++ b) = arrived a ++ arrived b.
  Proof. unfold arrived. apply flat_map_app. Qed.

  Theorem Arr_run ops : Arr (arrived ops) (run ops).
  Proof.
    unfold Endpoint.run.
    assert (H : forall pre st, Arr (arrived pre) st -> Arr (arrived (pre ++ ops)) (fold_left step ops st)).
    { induction ops as [|o r IH]; intros pre st HA; simpl.
      - rewrite app_nil_r. exact HA.
      - replace (pre ++ o :: r) with ((pre ++ [o]) ++ r) by (rewrite <- app_assoc; reflexivity).
        apply IH. rewrite arrived_app. apply Arr_step. exact HA. }
    apply (H [] init). split; simpl; intros; contradiction.
  Qed.

  (* ---------- generated ids ---------- *)
  Lemma fresh_n_settle fuel : forall st, fresh_n (settle fuel st) = fresh_n st.
  Proof.
    induction fuel as [|f IH]; intros st; [reflexivity|]. simpl.
    destruct (holder st) as [k|].
    - destruct (get_caller k (callers st)) as [cl|] eqn:Hc; [|reflexivity].
      destruct (cl_phase cl) as [|d|o t]; try reflexivity.
      destruct (queue st) as [|m q]; [reflexivity|].
      destruct (py_eqb _ _); [rewrite IH; unfold set_phase; simpl; rewrite Hc; reflexivity|].
      destruct (_ <=? 0); rewrite IH; unfold set_phase; simpl; rewrite ?Hc; reflexivity.
    - destruct (waiters st) as [|k ws]; [reflexivity|]. rewrite IH. unfold Endpoint.do_send. simpl.
      destruct (get_caller k (callers st)) as [cl|] eqn:Hc; [|reflexivity].
      destruct (cl_send_ok cl); unfold set_phase; simpl; rewrite Hc; reflexivity.
  Qed.

  (* ---------- C04 / C16: the outbound guard ---------- *)
  Lemma log_put st o : log (put_log st o) = (now st, o) :: log st.
  Proof. reflexivity. Qed.

  Definition ext (l1 l2 : list (Z * obs)) : Prop := exists pre, l1 = pre ++ l2.
  Lemma ext_refl l : ext l l. Proof. exists []. reflexivity. Qed.
  Lemma ext_trans a b d : ext a b -> ext b d -> ext a d.
  Proof. intros [p Hp] [q Hq]. exists (p ++ q). rewrite Hp, Hq, app_assoc. reflexivity. Qed.
  Lemma ext_cons x l : ext (x :: l) l. Proof. exists [x]. reflexivity. Qed.

  Lemma log_set_phase st k p : log (set_phase st k p) = log st.
  Proof. unfold set_phase. destruct (get_caller k (callers st)); reflexivity. Qed.

  Lemma log_do_send st k : ext (log (do_send st k)) (log st).
  Proof.
    unfold Endpoint.do_send. destruct (get_caller k (callers st)) as [cl|]; [|apply ext_refl].
    destruct (cl_send_ok cl); rewrite log_set_phase; simpl; apply ext_cons.
  Qed.

  Lemma log_settle_ext fuel : forall st, ext (log (settle fuel st)) (log st).
  Proof.
    induction fuel as [|f IH]; intros st; [apply ext_refl|]. simpl.
    destruct (holder st) as [k|].
    - destruct (get_caller k (callers st)) as [cl|] eqn:Hc; [|apply ext_refl].
      destruct (cl_phase cl) as [|d|o t]; try apply ext_refl.
      destruct (queue st) as [|m q]; [apply ext_refl|].
      destruct (py_eqb _ _).
      + eapply ext_trans; [apply IH|]. rewrite log_set_phase. simpl.
        eapply ext_trans; [apply ext_cons|]. apply ext_cons.
      + destruct (_ <=? 0).
        * eapply ext_trans; [apply IH|]. rewrite log_set_phase. simpl.
          eapply ext_trans; [apply ext_cons|]. apply ext_cons.
        * eapply ext_trans; [apply IH|]. simpl. apply ext_cons.
    - destruct (waiters st) as [|k ws]; [apply ext_refl|].
      eapply ext_trans; [apply IH|]. apply (log_do_send (set_waiters st ws) k).
  Qed.

  (* a request that violates its schema is not written: call() ends with the OCPP error, and the
     log (hence the wire) is untouched; the skip flag of THIS call is the only one consulted *)
  Theorem call_guard_reject st k uid action snake suppress send_ok codes :
    validate tbl (ver c) MCall action (remove_nones (s2c_keys snake)) = VReject codes false ->
    let st' := start_with tbl errors results timeout c st k uid action snake false suppress send_ok in
    log st' = log st /\
    get_caller k (callers st') =
      Some (mkCaller uid action (remove_nones (s2c_keys snake)) false suppress send_ok (PDone (OInvalid codes) (now st))).
  Proof.
    intros Hv. unfold start_with. cbv zeta. rewrite Hv. split; [reflexivity|]. simpl. apply get_set_same.
  Qed.

  (* a request that satisfies its schema (or whose call skips validation) is written, with exactly
     the validated payload, as soon as the gate is free *)
  Theorem call_guard_accept st k uid action snake (skip : bool) suppress w :
    get_caller k (callers st) = None -> holder st = None -> waiters st = [] ->
    (if skip then VAccept (remove_nones (s2c_keys snake))
     else validate tbl (ver c) MCall action (remove_nones (s2c_keys snake))) = VAccept w ->
    let st' := start_with tbl errors results timeout c st k uid action snake skip suppress true in
    exists pre, log st' = pre ++ (now st, CallWritten k (JArr [JNum (NInt 2); uid; JStr action; encode w])) :: log st.
  Proof.
    intros Hc Hh Hw Hv. unfold start_with. cbv zeta. rewrite Hv, Hh, Hw.
    unfold Endpoint.quiesce.
    match goal with |- context [Endpoint.settle _ _ _ _ _ ?f ?s] => destruct (log_settle_ext f s) as [pre Hp] end.
    exists pre. rewrite Hp. unfold Endpoint.do_send. simpl. rewrite get_set_same. simpl.
    unfold set_phase. simpl. rewrite get_set_same. reflexivity.
  Qed.
End Proofs.
