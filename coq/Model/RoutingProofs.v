(* RoutingProofs.v -- the route map is what attribute lookup says, whatever else was defined. *)
From Coq Require Import List ZArith Bool String Ascii Lia.
From OV.Model Require Import Json SchemaProofs Routing.
Import ListNotations.

Lemma dedup_first_aux_In seen l x : In x (dedup_first_aux seen l) <-> In x l /\ ~ In x seen.
Proof.
  revert seen. induction l as [|y r IH]; intros seen; simpl.
  - tauto.
  - destruct (mem y seen) eqn:E.
    + rewrite IH. apply mem_In in E. split.
      * intros [H1 H2]. split; [right; exact H1 | exact H2].
      * intros [[<-|H1] H2]; [contradiction | split; assumption].
    + simpl. rewrite IH. split.
      * intros [<-|[H1 H2]].
        -- split; [left; reflexivity|]. intros H. apply mem_In in H. congruence.
        -- split; [right; exact H1 | intros H; apply H2; right; exact H].
      * intros [[<-|H1] H2]; [left; reflexivity|].
        destruct (String.eqb x y) eqn:Exy.
        -- apply String.eqb_eq in Exy. left. symmetry. exact Exy.
        -- right. split; [exact H1|]. intros [H|H]; [apply String.eqb_neq in Exy; congruence | contradiction].
Qed.

Lemma dedup_first_In l x : In x (dedup_first l) <-> In x l.
Proof. unfold dedup_first. rewrite dedup_first_aux_In. simpl. tauto. Qed.

Lemma dedup_first_aux_NoDup seen l : NoDup (dedup_first_aux seen l).
Proof.
  revert seen. induction l as [|y r IH]; intros seen; simpl; [constructor|].
  destruct (mem y seen); [apply IH|]. constructor; [|apply IH].
  rewrite dedup_first_aux_In. intros [_ H]. apply H. left. reflexivity.
Qed.

Lemma routables_NoDup h : NoDup (routables h).
Proof. apply dedup_first_aux_NoDup. Qed.

Lemma find_rc_In n h c : find_rc n h = Some c -> In c h /\ rc_name c = n.
Proof.
  unfold find_rc. intros H. apply find_some in H. destruct H as [H1 H2]. apply String.eqb_eq in H2. auto.
Qed.

Lemma assoc_In_pair {A} k (l : list (string * A)) v : assoc k l = Some v -> In (k, v) l.
Proof.
  induction l as [|[k' v'] r IH]; simpl; [discriminate|].
  destruct (String.eqb k k') eqn:E.
  - intros H. injection H as <-. apply String.eqb_eq in E. subst. left. reflexivity.
  - intros H. right. apply IH. exact H.
Qed.

(* a decorated attribute that lookup finds is in the global list, wherever its class sits in the history *)
Lemma resolved_in_routables fuel h cname n o a :
  resolve fuel h cname n = Some (o, a) -> decorated a = true -> In n (routables h).
Proof.
  revert cname. induction fuel as [|f IH]; intros cname H Hd; simpl in H; [discriminate|].
  destruct (find_rc cname h) as [c|] eqn:Ec; [|discriminate].
  destruct (assoc n (rc_attrs c)) as [a'|] eqn:Ea.
  - injection H as Ho Ha. subst a'. unfold routables. apply dedup_first_In. apply in_flat_map.
    exists c. split; [apply (find_rc_In _ _ _ Ec)|].
    apply in_map_iff. exists (n, a). split; [reflexivity|]. apply filter_In. split; [|exact Hd].
    apply assoc_In_pair. exact Ea.
  - destruct (rc_base c) as [b|]; [|discriminate]. eapply IH; eassumption.
Qed.

Section Spec.
  Variable h : history.
  Variable cname a : string.
  Notation res := (resolve (depth_fuel h) h cname).

  (* the name resolves to a method that on() / after() registered for the action [a] *)
  Definition handles (n o : string) (s : bool) : Prop :=
    exists att, res n = Some (o, att) /\ on_of att = Some (a, s).
  Definition follows (n o : string) : Prop :=
    exists att, res n = Some (o, att) /\ after_of att = Some a.

  Lemma visit_e_on e n :
    e_on (visit h cname a e n) =
    match res n with
    | Some (o, att) => match on_of att with
                       | Some (a', s) => if String.eqb a' a then Some (o, n, s) else e_on e
                       | None => e_on e
                       end
    | None => e_on e
    end.
  Proof.
    unfold visit. destruct (res n) as [[o att]|]; [|reflexivity].
    destruct (on_of att) as [[a' s]|]; [destruct (String.eqb a' a)|];
      (destruct (after_of att) as [a2|]; [destruct (String.eqb a2 a)|]; reflexivity).
  Qed.

  Lemma visit_e_after e n :
    e_after (visit h cname a e n) =
    match res n with
    | Some (o, att) => match after_of att with
                       | Some a' => if String.eqb a' a then Some (o, n) else e_after e
                       | None => e_after e
                       end
    | None => e_after e
    end.
  Proof.
    unfold visit. destruct (res n) as [[o att]|]; [|reflexivity].
    destruct (on_of att) as [[a' s]|]; [destruct (String.eqb a' a)|];
      (destruct (after_of att) as [a2|]; [destruct (String.eqb a2 a)|]; reflexivity).
  Qed.

  (* folding [visit] over names none of which is an on-handler for [a] leaves the on-entry alone *)
  Lemma fold_visit_on_untouched l e :
    (forall n, In n l -> forall o s, ~ handles n o s) ->
    e_on (fold_left (visit h cname a) l e) = e_on e.
  Proof.
    revert e. induction l as [|n r IH]; intros e H; simpl; [reflexivity|].
    rewrite IH by (intros n' Hn'; apply H; right; exact Hn').
    rewrite visit_e_on. destruct (res n) as [[o att]|] eqn:E; [|reflexivity].
    destruct (on_of att) as [[a' s]|] eqn:Eo; [|reflexivity].
    destruct (String.eqb a' a) eqn:Ea; [|reflexivity]. apply String.eqb_eq in Ea. subst a'.
    exfalso. apply (H n (or_introl eq_refl) o s). exists att. split; [exact E | exact Eo].
  Qed.

  Lemma fold_visit_after_untouched l e :
    (forall n, In n l -> forall o, ~ follows n o) ->
    e_after (fold_left (visit h cname a) l e) = e_after e.
  Proof.
    revert e. induction l as [|n r IH]; intros e H; simpl; [reflexivity|].
    rewrite IH by (intros n' Hn'; apply H; right; exact Hn').
    rewrite visit_e_after. destruct (res n) as [[o att]|] eqn:E; [|reflexivity].
    destruct (after_of att) as [a'|] eqn:Eo; [|reflexivity].
    destruct (String.eqb a' a) eqn:Ea; [|reflexivity]. apply String.eqb_eq in Ea. subst a'.
    exfalso. apply (H n (or_introl eq_refl) o). exists att. split; [exact E | exact Eo].
  Qed.

  Lemma on_of_decorated att x : on_of att = Some x -> decorated att = true.
  Proof. destruct att; simpl; congruence. Qed.
  Lemma after_of_decorated att x : after_of att = Some x -> decorated att = true.
  Proof. destruct att; simpl; congruence. Qed.

  (* the method registered with on() for [a] that lookup on the instance resolves to -- unique *)
  Theorem route_on_handles n o s :
    handles n o s ->
    (forall n' o' s', handles n' o' s' -> n' = n) ->
    e_on (route_entry h cname a) = Some (o, n, s).
  Proof.
    intros [att [Hn Ho]] Huniq. unfold route_entry.
    assert (Hin : In n (routables h)) by (eapply resolved_in_routables; [exact Hn | eapply on_of_decorated; exact Ho]).
    apply in_split in Hin. destruct Hin as [l1 [l2 Hl]]. rewrite Hl.
    rewrite fold_left_app. simpl.
    rewrite fold_visit_on_untouched.
    - rewrite visit_e_on, Hn, Ho, String.eqb_refl. reflexivity.
    - intros n' Hn' o' s' E. pose proof (Huniq _ _ _ E) as ->.
      pose proof (routables_NoDup h) as ND. rewrite Hl in ND. apply NoDup_remove_2 in ND.
      apply ND. apply in_or_app. right. exact Hn'.
  Qed.

  Theorem route_on_none :
    (forall n o s, ~ handles n o s) -> e_on (route_entry h cname a) = None.
  Proof. intros H. unfold route_entry. rewrite fold_visit_on_untouched; [reflexivity|]. intros n _. apply H. Qed.

  Theorem route_after_follows n o :
    follows n o ->
    (forall n' o', follows n' o' -> n' = n) ->
    e_after (route_entry h cname a) = Some (o, n).
  Proof.
    intros [att [Hn Ho]] Huniq. unfold route_entry.
    assert (Hin : In n (routables h)) by (eapply resolved_in_routables; [exact Hn | eapply after_of_decorated; exact Ho]).
    apply in_split in Hin. destruct Hin as [l1 [l2 Hl]]. rewrite Hl.
    rewrite fold_left_app. simpl.
    rewrite fold_visit_after_untouched.
    - rewrite visit_e_after, Hn, Ho, String.eqb_refl. reflexivity.
    - intros n' Hn' o' E. pose proof (Huniq _ _ E) as ->.
      pose proof (routables_NoDup h) as ND. rewrite Hl in ND. apply NoDup_remove_2 in ND.
      apply ND. apply in_or_app. right. exact Hn'.
  Qed.

  Theorem route_after_none :
    (forall n o, ~ follows n o) -> e_after (route_entry h cname a) = None.
  Proof. intros H. unfold route_entry. rewrite fold_visit_after_untouched; [reflexivity|]. intros n _. apply H. Qed.
End Spec.

Lemma handles_iff h cname a n o s :
  handles h cname a n o s <->
  (resolve (depth_fuel h) h cname n = Some (o, AOn a s) \/
   exists a2, resolve (depth_fuel h) h cname n = Some (o, ABoth a s a2)).
Proof.
  unfold handles. split.
  - intros [att [H1 H2]]. destruct att; simpl in H2; try discriminate; injection H2 as -> ->;
      [left; exact H1 | right; eexists; exact H1].
  - intros [H|[a2 H]]; eexists; (split; [exact H | reflexivity]).
Qed.

Lemma follows_iff h cname a n o :
  follows h cname a n o <->
  (resolve (depth_fuel h) h cname n = Some (o, AAfter a) \/
   exists a1 s, resolve (depth_fuel h) h cname n = Some (o, ABoth a1 s a)).
Proof.
  unfold follows. split.
  - intros [att [H1 H2]]. destruct att; simpl in H2; try discriminate; injection H2 as ->;
      [left; exact H1 | right; do 2 eexists; exact H1].
  - intros [H|[a1 [s H]]]; eexists; (split; [exact H | reflexivity]).
Qed.

Theorem no_getters h cname : getters_evaluated h cname = [].
Proof.
  unfold getters_evaluated. induction (routables h) as [|n r IH]; [reflexivity|]. cbn [filter].
  destruct (resolve (depth_fuel h) h cname n) as [[o att]|]; [destruct att|]; exact IH.
Qed.
