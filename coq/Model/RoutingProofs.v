(* RoutingProofs.v -- the route map is what attribute lookup says, whatever else was defined. *)
From Coq Require Import List ZArith Bool String Ascii Lia.
From OV.Model Require Import Json SchemaProofs Routing.
Import ListNotations.

Lemma dedup_first_aux_In seen l x : In x (dedup_first_aux seen l) <-> In x l /\ ~ In x seen.
Proof.
  revert seen. induction l as [|y r IH]; intros seen; simpl.
  - tauto.
  - destruct (mem y seen) eqn:E.
    + rewrite IH. apply mem_In in E. split.
      * intros [H1 H2]. split; [right; exact H1 | exact H2].
      * intros [[<-|H1] H2]; [contradiction | split; assumption].
    + simpl. rewrite IH. split.
      * intros [<-|[H1 H2]].
        -- split; [left; reflexivity|]. intros H. apply mem_In in H. congruence.
        -- split; [right; exact H1 | intros H; apply H2; right; exact H].
      * intros [[<-|H1] H2]; [left; reflexivity|].
        destruct (String.eqb x y) eqn:Exy.
        -- apply String.eqb_eq in Exy. left. symmetry. exact Exy.
        -- right. split; [exact H1|]. intros [H|H]; [apply String.eqb_neq in Exy; congruence | contradiction].
Qed.

Lemma dedup_first_In l x : In x (dedup_first l) <-> In x l.
Proof. unfold dedup_first. rewrite dedup_first_aux_In. simpl. tauto. Qed.

Lemma dedup_first_aux_NoDup seen l : NoDup (dedup_first_aux seen l).
Proof.
  revert seen. induction l as [|y r IH]; intros seen; simpl; [constructor|].
  destruct (mem y seen); [apply IH|]. constructor; [|apply IH].
  rewrite dedup_first_aux_In. intros [_ H]. apply H. left. reflexivity.
Qed.

Lemma routables_NoDup h : NoDup (routables h).
Proof. apply dedup_first_aux_NoDup. Qed.

Lemma find_rc_In n h c : find_rc n h = Some c -> In c h /\ rc_name c = n.
Proof.
  unfold find_rc. intros H. apply find_some in H. destruct H as [H1 H2]. apply String.eqb_eq in H2. auto.
Qed.

Lemma assoc_In_pair {A} k (l : list (string * A)) v : assoc k l = Some v -> In (k, v) l.
Proof.
  induction l as [|[k' v'] r IH]; simpl; [discriminate|].
  destruct (String.eqb k k') eqn:E.
  - intros H. injection H as <-. apply String.eqb_eq in E. subst. left. reflexivity.
  - intros H. right. apply IH. exact H.
Qed.

(* a decorated attribute that lookup finds is in the global list, wherever its class sits in the history *)
Lemma resolved_in_routables fuel h cname n o a :
  resolve fuel h cname n = Some (o, a) -> decorated a = true -> In n (routables h).
Proof.
  revert cname. induction fuel as [|f IH]; intros cname H Hd; simpl in H; [discriminate|].
  destruct (find_rc cname h) as [c|] eqn:Ec; [|discriminate].
  destruct (assoc n (rc_attrs c)) as [a'|] eqn:Ea.
  - injection H as Ho Ha. subst a'. unfold routables. apply dedup_first_In. apply in_flat_map.
    exists c. split; [apply (find_rc_In _ _ _ Ec)|].
    apply in_map_iff. exists (n, a). split; [reflexivity|]. apply filter_In. split; [|exact Hd].
    apply assoc_In_pair. exact Ea.
  - destruct (rc_base c) as [b|]; [|discriminate]. eapply IH; eassumption.
Qed.

Section Spec.
  Variable h : history.
  Variable cname a : string.
  Notation res := (resolve (depth_fuel h) h cname).

  (* folding [visit] over names none of which is an on-handler for [a] leaves the on-entry alone *)
  Lemma fold_visit_on_untouched l e :
    (forall n, In n l -> forall o s, res n <> Some (o, AOn a s)) ->
    e_on (fold_left (visit h cname a) l e) = e_on e.
  Proof.
    revert e. induction l as [|n r IH]; intros e H; simpl; [reflexivity|].
    rewrite IH by (intros n' Hn'; apply H; right; exact Hn').
    unfold visit. destruct (res n) as [[o att]|] eqn:E; [|reflexivity].
    destruct att as [a' s| a' | |]; try reflexivity.
    - destruct (String.eqb a' a) eqn:Ea; [|reflexivity]. apply String.eqb_eq in Ea. subst a'.
      exfalso. eapply (H n (or_introl eq_refl)). exact E.
    - destruct (String.eqb a' a); reflexivity.
  Qed.

  Lemma fold_visit_after_untouched l e :
    (forall n, In n l -> forall o, res n <> Some (o, AAfter a)) ->
    e_after (fold_left (visit h cname a) l e) = e_after e.
  Proof.
    revert e. induction l as [|n r IH]; intros e H; simpl; [reflexivity|].
    rewrite IH by (intros n' Hn'; apply H; right; exact Hn').
    unfold visit. destruct (res n) as [[o att]|] eqn:E; [|reflexivity].
    destruct att as [a' s| a' | |]; try reflexivity.
    - destruct (String.eqb a' a); reflexivity.
    - destruct (String.eqb a' a) eqn:Ea; [|reflexivity]. apply String.eqb_eq in Ea. subst a'.
      exfalso. eapply (H n (or_introl eq_refl)). exact E.
  Qed.

  (* the method decorated with on() for [a] that lookup on the instance resolves to -- unique *)
  Theorem route_on_is_resolved n o s :
    res n = Some (o, AOn a s) ->
    (forall n' o' s', res n' = Some (o', AOn a s') -> n' = n) ->
    e_on (route_entry h cname a) = Some (o, n, s).
  Proof.
    intros Hn Huniq. unfold route_entry.
    assert (Hin : In n (routables h)) by (eapply resolved_in_routables; [exact Hn | reflexivity]).
    apply in_split in Hin. destruct Hin as [l1 [l2 Hl]]. rewrite Hl.
    rewrite fold_left_app. simpl.
    rewrite fold_visit_on_untouched.
    - unfold visit. rewrite Hn, String.eqb_refl. reflexivity.
    - intros n' Hn' o' s' E. pose proof (Huniq _ _ _ E) as ->.
      pose proof (routables_NoDup h) as ND. rewrite Hl in ND. apply NoDup_remove_2 in ND.
      apply ND. apply in_or_app. right. exact Hn'.
  Qed.

  Theorem route_on_absent :
    (forall n o s, res n <> Some (o, AOn a s)) -> e_on (route_entry h cname a) = None.
  Proof. intros H. unfold route_entry. rewrite fold_visit_on_untouched; [reflexivity|]. intros n _. apply H. Qed.

  Theorem route_after_is_resolved n o :
    res n = Some (o, AAfter a) ->
    (forall n' o', res n' = Some (o', AAfter a) -> n' = n) ->
    e_after (route_entry h cname a) = Some (o, n).
  Proof.
    intros Hn Huniq. unfold route_entry.
    assert (Hin : In n (routables h)) by (eapply resolved_in_routables; [exact Hn | reflexivity]).
    apply in_split in Hin. destruct Hin as [l1 [l2 Hl]]. rewrite Hl.
    rewrite fold_left_app. simpl.
    rewrite fold_visit_after_untouched.
    - unfold visit. rewrite Hn, String.eqb_refl. reflexivity.
    - intros n' Hn' o' E. pose proof (Huniq _ _ E) as ->.
      pose proof (routables_NoDup h) as ND. rewrite Hl in ND. apply NoDup_remove_2 in ND.
      apply ND. apply in_or_app. right. exact Hn'.
  Qed.

  Theorem route_after_absent :
    (forall n o, res n <> Some (o, AAfter a)) -> e_after (route_entry h cname a) = None.
  Proof. intros H. unfold route_entry. rewrite fold_visit_after_untouched; [reflexivity|]. intros n _. apply H. Qed.
End Spec.

Theorem no_getters h cname : getters_evaluated h cname = [].
Proof.
  unfold getters_evaluated. induction (routables h) as [|n r IH]; [reflexivity|]. cbn [filter].
  destruct (resolve (depth_fuel h) h cname n) as [[o att]|]; [destruct att|]; exact IH.
Qed.
