(* CaseHistory.v -- comparison used by the `history` correspondence (call / gate / queue / clock). *)
From Coq Require Import List ZArith NArith Bool String.
From OV.Model Require Import Json Names Schema Validate Frame Classes Dispatch Endpoint Shipped CaseLib.
From OV.Gen Require Import Errors.
Import ListNotations.
Local Open Scope string_scope.

Inductive ooutcome :=
| OOResult (kw : json) | OONone | OOTimeout | OOCancelled | OOSendFail
| OOExc (cls : string) (descr details : json)
| OOOther (cls : string).

Record hobs := mkHObs {
  ho_writes : list (Z * json);
  ho_outcomes : list (nat * (ooutcome * Z));
  ho_locked : bool;
  ho_queue : nat;
  ho_escaped : bool }.

Record hcase := mkH { hc_cfg : cfg; hc_timeout : Z; hc_ops : list op; hc_obs : hobs }.

Definition model_run (h : hcase) : state :=
  run shipped actions_of errors results_of gen_id (hc_timeout h) (hc_cfg h) (hc_ops h).

Inductive mwrite := MWFrame (f : json) | MWError (id : json) (codes : list string).

Definition writes_of (st : state) : list (Z * mwrite) :=
  flat_map (fun p =>
              match snd p with
              | CallWritten _ f => [(fst p, MWFrame f)]
              | Disp (EvResult id pl) => [(fst p, MWFrame (JArr [JNum (NInt 3); id; pl]))]
              | Disp (EvError id codes _) => [(fst p, MWError id codes)]
              | _ => []
              end) (rev (log st)).

Definition is_call_write (w : Z * mwrite) : bool :=
  match snd w with MWFrame (JArr (JNum (NInt 2) :: _)) => true | _ => false end.
Definition is_call_frame (w : Z * json) : bool :=
  match snd w with JArr (t :: _) => py_eq_int t 2 | _ => false end.

Definition write_agree (m : Z * mwrite) (o : Z * json) : bool :=
  Z.eqb (fst m) (fst o) &&
  match snd m, snd o with
  | MWFrame f, g => json_sameb false f g
  | MWError id codes, JArr [t; id'; JStr c; _; _] => py_eq_int t 4 && json_sameb false id id' && mem c codes
  | _, _ => false
  end.

Fixpoint list_agree {A B} (f : A -> B -> bool) (l : list A) (m : list B) : bool :=
  match l, m with
  | [], [] => true
  | a :: r, b :: s => f a b && list_agree f r s
  | _, _ => false
  end.

Definition code_of_class (cls : string) : string :=
  match find (fun e => String.eqb (fst (fst e)) cls) errors with
  | Some (_, code, _) => code
  | None => ""
  end.

Definition outcome_agree (o : outcome) (oo : ooutcome) : bool :=
  match o, oo with
  (* the observation lists the fields of the result object that are set: a JSON null in the reply is "not set" *)
  | OResult kw, OOResult kw' => json_sameb true (remove_nones kw) (remove_nones kw')
  | ONone, OONone | OTimeout, OOTimeout | OCancelled, OOCancelled | OSendFail, OOSendFail => true
  | ORaise cls d x, OOExc cls' d' x' => String.eqb cls cls' && json_sameb false d d' && json_sameb false x x'
  | OInvalid codes, OOExc cls' _ _ => mem (code_of_class cls') (map code_name codes)
  | OUnknownCode, OOOther cls => String.eqb cls "UnknownCallErrorCodeError"
  | OCrash, OOOther _ => true
  | _, _ => false
  end.

Definition done_callers (st : state) : list (nat * (outcome * Z)) :=
  flat_map (fun kc => match cl_phase (snd kc) with PDone o t => [(fst kc, (o, t))] | _ => [] end) (callers st).

Fixpoint insert_by_key {A} (x : nat * A) (l : list (nat * A)) : list (nat * A) :=
  match l with
  | [] => [x]
  | y :: r => if Nat.leb (fst x) (fst y) then x :: l else y :: insert_by_key x r
  end.
Definition sort_by_key {A} (l : list (nat * A)) : list (nat * A) := fold_right insert_by_key [] l.

Definition outcomes_agree (st : state) (h : hobs) : bool :=
  list_agree (fun m o => Nat.eqb (fst m) (fst o) && outcome_agree (fst (snd m)) (fst (snd o))
                         && Z.eqb (snd (snd m)) (snd (snd o)))
             (sort_by_key (done_callers st)) (ho_outcomes h).

Definition escaped (st : state) : bool :=
  existsb (fun p => match snd p with Disp EvEscape => true | _ => false end) (log st).

Inductive hview := VHFull | VH02 | VH03 | VH04 | VH05 | VH16.

Definition hagree (v : hview) (h : hcase) : bool :=
  let st := model_run h in
  let o := hc_obs h in
  match v with
  | VHFull =>
      list_agree write_agree (writes_of st) (ho_writes o) && outcomes_agree st o
      && Bool.eqb (match holder st with Some _ => true | None => false end) (ho_locked o)
      && Nat.eqb (List.length (queue st)) (ho_queue o) && Bool.eqb (escaped st) (ho_escaped o)
  | VH02 =>
      (* each caller's outcome and completion time; when its CALL was written *)
      outcomes_agree st o
      && list_agree write_agree (filter is_call_write (writes_of st)) (filter is_call_frame (ho_writes o))
  | VH03 =>
      (* order and time of every write, the state of the gate, inbound CALLs answered *)
      list_agree (fun m x => Z.eqb (fst m) (fst x) &&
                             Bool.eqb (is_call_write m) (is_call_frame x) &&
                             (negb (is_call_write m) || write_agree m x))
                 (writes_of st) (ho_writes o)
      && Bool.eqb (match holder st with Some _ => true | None => false end) (ho_locked o)
      && list_agree (fun m x => Nat.eqb (fst m) (fst x)) (sort_by_key (done_callers st)) (ho_outcomes o)
  | VH16 =>
      (* per-call scope of skip_schema_validation: which CALLs are written, and for the calls that ended with
         a result or a validation error, that very outcome *)
      list_agree write_agree (filter is_call_write (writes_of st)) (filter is_call_frame (ho_writes o))
      && list_agree (fun m x => Nat.eqb (fst m) (fst x) &&
                                match fst (snd m) with
                                | OInvalid _ | OResult _ => outcome_agree (fst (snd m)) (fst (snd x))
                                | _ => true
                                end)
                    (sort_by_key (done_callers st)) (ho_outcomes o)
  | VH05 =>
      (* how each call() ended: the result handed back or the error raised *)
      outcomes_agree st o
  | VH04 =>
      (* which CALLs are written, when, with which payload *)
      list_agree write_agree (filter is_call_write (writes_of st)) (filter is_call_frame (ho_writes o))
  end.

Definition hdisagreements (v : hview) (cs : list hcase) : list N :=
  (bad (hagree v) cs 0%N ++ bad (hagree VHFull) cs 1000000%N)%list.
