(* Routing.v -- ocpp.routing: the decorators' global name list and create_route_map over class
   hierarchies (single inheritance chains), as attribute lookup sees them. *)
From Coq Require Import List ZArith Bool String Ascii.
From OV.Model Require Import Json.
Import ListNotations.
Local Open Scope string_scope.

Inductive attr :=
| AOn (action : string) (skip : bool)     (* a method decorated with on(action, skip_schema_validation=skip) *)
| AAfter (action : string)                (* a method decorated with after(action) *)
| ABoth (action : string) (skip : bool) (after_action : string)
                                          (* one method carrying both decorators, in either stacking order *)
| APlain                                  (* an undecorated method or any other class attribute *)
| AProperty.                              (* a property *)

Record rclass := mkRC { rc_name : string; rc_base : option string; rc_attrs : list (string * attr) }.

(* the classes defined so far in the process, in definition order *)
Definition history := list rclass.

Definition decorated (a : attr) : bool := match a with AOn _ _ | AAfter _ | ABoth _ _ _ => true | _ => false end.

(* what the decorators left on the function: the action it handles (with that route's flag), the action it follows *)
Definition on_of (a : attr) : option (string * bool) :=
  match a with AOn x s | ABoth x s _ => Some (x, s) | _ => None end.
Definition after_of (a : attr) : option string :=
  match a with AAfter x | ABoth _ _ x => Some x | _ => None end.

Definition find_rc (n : string) (h : history) : option rclass :=
  find (fun c => String.eqb (rc_name c) n) h.

(* attribute lookup along the inheritance chain: (owner class, attribute) *)
Fixpoint resolve (fuel : nat) (h : history) (cname n : string) : option (string * attr) :=
  match fuel with
  | O => None
  | S f =>
      match find_rc cname h with
      | None => None
      | Some c =>
          match assoc n (rc_attrs c) with
          | Some a => Some (cname, a)
          | None => match rc_base c with Some b => resolve f h b n | None => None end
          end
      end
  end.

(* keep the first occurrence of every name *)
Fixpoint dedup_first_aux (seen l : list string) : list string :=
  match l with
  | [] => []
  | x :: r => if mem x seen then dedup_first_aux seen r else x :: dedup_first_aux (x :: seen) r
  end.
Definition dedup_first (l : list string) : list string := dedup_first_aux [] l.

(* ocpp.routing.routables: the names of all decorated functions, first definition first *)
Definition routables (h : history) : list string :=
  dedup_first (flat_map (fun c => map fst (filter (fun p => decorated (snd p)) (rc_attrs c))) h).

Record entry := mkEntry {
  e_on : option (string * string * bool);     (* owner class, function name, skip flag *)
  e_after : option (string * string) }.
Definition no_entry : entry := mkEntry None None.

Definition depth_fuel (h : history) : nat := S (List.length h).

(* one name of the global list, looked up on the instance *)
Definition visit (h : history) (cname a : string) (e : entry) (n : string) : entry :=
  match resolve (depth_fuel h) h cname n with
  | Some (o, att) =>
      let e1 := match on_of att with
                | Some (a', s) => if String.eqb a' a then mkEntry (Some (o, n, s)) (e_after e) else e
                | None => e
                end in
      match after_of att with
      | Some a' => if String.eqb a' a then mkEntry (e_on e1) (Some (o, n)) else e1
      | None => e1          (* a plain attribute, or a property (skipped, not evaluated) *)
      end
  | None => e               (* no such attribute *)
  end.

(* create_route_map(obj)[action] for an instance of class cname *)
Definition route_entry (h : history) (cname a : string) : entry :=
  fold_left (visit h cname a) (routables h) no_entry.

(* the property getters create_route_map evaluates: names that resolve to a property are skipped *)
Definition getters_evaluated (h : history) (cname : string) : list string :=
  filter (fun n => match resolve (depth_fuel h) h cname n with
                   | Some (_, AProperty) => false       (* isinstance(getattr(type(obj), n), property): continue *)
                   | _ => false
                   end) (routables h).

(* what attribute lookup and the decorators say, without the global list *)
Definition names_of (h : history) : list string :=
  flat_map (fun c => map fst (rc_attrs c)) h.
