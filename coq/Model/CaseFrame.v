(* CaseFrame.v -- the `unpack` correspondence: exhaustive small arrays (tallied inside Coq, no
   case text to parse) and individual frames. *)
From Coq Require Import List ZArith NArith Bool String.
From OV.Model Require Import Json JsonText Schema Frame CaseLib.
Import ListNotations.
Local Open Scope string_scope.

Definition alphabet : list json :=
  [JNum (NInt 2); JNum (NInt 3); JNum (NInt 4); JNum (NInt 5); JNum (NDec 2 0 FFloat);
   JBool true; JStr "s"; JObj []; JArr []; JNull].

(* 0 Call, 1 CallResult, 2 CallError, 3 ProtocolError, 4 PropertyConstraintViolation, 5 FormatViolation, 6 other *)
Definition class_of (r : unpack_result) : nat :=
  match r with
  | UMsg (Call _ _ _) => 0
  | UMsg (CallResult _ _ _) => 1
  | UMsg (CallError _ _ _ _) => 2
  | UErr CProtocolError => 3
  | UErr CPropertyConstraintViolation => 4
  | UErr CFormatViolation => 5
  | UErr _ => 6
  end.

Fixpoint bump (i : nat) (l : list N) : list N :=
  match l, i with
  | x :: r, O => N.succ x :: r
  | x :: r, S j => x :: bump j r
  | [], _ => []
  end.

(* all arrays [first :: rest] with |rest| = n, rest over the alphabet; one counter per class *)
Fixpoint tally (n : nat) (acc : list json) (cnt : list N) : list N :=
  match n with
  | O => bump (class_of (unpack_v (JArr (rev acc)))) cnt
  | S k => fold_left (fun c a => tally k (a :: acc) c) alphabet cnt
  end.

Definition zero7 : list N := [0; 0; 0; 0; 0; 0; 0]%N.

(* the table: for every length 1..maxlen and every first element, the seven counters *)
Definition tally_table (maxlen : nat) : list (list (list N)) :=
  map (fun n => map (fun a => tally n [a] zero7) alphabet) (seq 0 maxlen).

Record fcase := mkF { fc_frame : loads_outcome; fc_class : nat; fc_same : option msg }.

Definition msg_eqb (a b : msg) : bool :=
  match a, b with
  | Call i x p, Call i' x' p' => json_sameb false i i' && json_sameb false x x' && json_sameb false p p'
  | CallResult i p _, CallResult i' p' _ => json_sameb false i i' && json_sameb false p p'
  | CallError i c d x, CallError i' c' d' x' =>
      json_sameb false i i' && json_sameb false c c' && json_sameb false d d' &&
      json_sameb false (match x with Some v => v | None => JNull end) (match x' with Some v => v | None => JNull end)
  | _, _ => false
  end.

Definition fagree (c : fcase) : bool :=
  let r := unpack (fc_frame c) in
  Nat.eqb (class_of r) (fc_class c) &&
  match fc_same c, r with
  | Some m, UMsg m' => msg_eqb m m'
  | Some _, _ => false
  | None, _ => true
  end.
Definition fdisagreements (cs : list fcase) : list N := bad fagree cs 0%N.

(* pack: the array the implementation wrote must be pack_v of the message *)
Record pcase := mkP { pc_msg : msg; pc_written : json; pc_text : string }.
Definition pagree (c : pcase) : bool :=
  json_sameb false (pack_v (pc_msg c)) (pc_written c) &&
  String.eqb (print_compact (pack_v (pc_msg c))) (pc_text c) &&
  match unpack_v (pack_v (pc_msg c)) with UMsg m' => msg_eqb (pc_msg c) m' | _ => false end.
Definition pdisagreements (cs : list pcase) : list N := bad pagree cs 0%N.
