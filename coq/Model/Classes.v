(* Classes.v -- what the translator records about the payload / data-type dataclasses. *)
From Coq Require Import List ZArith Bool String Ascii.
From OV.Model Require Import Json.
Import ListNotations.

Inductive shape :=
| TStr | TInt | TFloat | TBool | TAny | TDict | TListAny
| TList (s : shape)
| TEnum (n : string)
| TData (n : string)
| TUnion (l : list shape).

Inductive dflt := NoDefault | DefaultNone | DefaultOther.

Record field := mkField {
  f_name : string;
  f_shape : shape;           (* the annotation with None stripped from a Union *)
  f_optional : bool;         (* the annotation admits None *)
  f_default : dflt }.

Record classdef := mkClass { c_name : string; c_fields : list field }.

Definition find_class (n : string) (t : list classdef) : option classdef :=
  find (fun c => String.eqb (c_name c) n) t.
