(* ShippedProofs.v -- facts about the tables regenerated from the working tree that the
   general theorems need as hypotheses. *)
From Coq Require Import List String Bool.
From OV.Model Require Import Json Schema SchemaProofs Validate Frame Vocab Dispatch DispatchProofs Shipped.
Import ListNotations.

(* no shipped action has a schema whose evaluation can raise a foreign exception *)
Lemma shipped_key_ok : forall v a, In a (actions_of v) -> key_ok shipped v a = true.
Proof.
  assert (H : forall v, forallb (key_ok shipped v) (actions_of v) = true).
  { intros []; vm_compute; reflexivity. }
  intros v a Ha. specialize (H v). rewrite forallb_forall in H. apply H. exact Ha.
Qed.

(* every route key is an action of the endpoint's OCPP version *)
Definition routes_known (c : cfg) : Prop :=
  forall a r, assoc a (c_routes c) = Some r -> In a (actions_of (c_ver c)).

Lemma routes_known_ok c : routes_known c -> cfg_ok shipped c.
Proof. intros H a r Ha. apply shipped_key_ok. eapply H. exact Ha. Qed.
