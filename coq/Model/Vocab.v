(* Vocab.v -- the property-name vocabulary of a set of schemas, computed from the tables. *)
From Coq Require Import List ZArith Bool String Ascii.
From OV.Model Require Import Json Names Schema Classes.
Import ListNotations.

(* every sub-schema, the schema itself included *)
Fixpoint subschemas (s : schema) : list schema :=
  s :: match s with
       | Sch _ _ _ props _ _ items _ _ _ _ _ =>
           (fix go (ps : list (string * schema)) : list schema :=
              match ps with
              | [] => []
              | (_, sub) :: r => subschemas sub ++ go r
              end) props
           ++ match items with Some it => subschemas it | None => [] end
       end.

Definition is_object_node (s : schema) : bool :=
  match s_ty s with Some TyObject => true | _ => negb (Nat.eqb (List.length (s_props s)) 0) end.

(* the object positions of a schema table: one list of property names per position *)
Definition object_nodes (t : list (string * schema)) : list schema :=
  filter is_object_node (flat_map (fun kv => subschemas (snd kv)) t).

Definition prop_names (s : schema) : list string := keys (s_props s).

Definition vocab (t : list (string * schema)) : list string :=
  flat_map prop_names (object_nodes t).

Fixpoint nodupb (l : list string) : bool :=
  match l with [] => true | x :: r => negb (mem x r) && nodupb r end.

(* --- checkers for C10 --- *)
Definition name_ok (n : string) : bool :=
  String.eqb (s2c (c2s n)) n && lower_identifier (c2s n).

Definition node_injective (s : schema) : bool := nodupb (map c2s (prop_names s)).

Definition subset (a b : list string) : bool := forallb (fun x => mem x b) a.

(* message classes: every field's camelCase form is a top-level property of the schema *)
Definition class_fields_in (c : classdef) (s : schema) : bool :=
  subset (map (fun f => s2c (f_name f)) (c_fields c)) (prop_names s).

Definition msg_fields_ok (suffix : string) (t : list (string * schema)) (c : classdef) : bool :=
  match assoc (c_name c ++ suffix)%string t with
  | Some s => class_fields_in c s
  | None => false
  end.

(* data-type classes: some object position of the version offers all of the fields *)
Definition data_fields_ok (nodes : list schema) (c : classdef) : bool :=
  let names := map (fun f => s2c (f_name f)) (c_fields c) in
  existsb (fun s => subset names (prop_names s)) nodes.

Fixpoint dedup (l : list string) : list string :=
  match l with [] => [] | x :: r => if mem x r then dedup r else x :: dedup r end.
