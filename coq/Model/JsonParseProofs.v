(* JsonParseProofs.v -- facts about the json.loads model:
   1. every successful sub-parser consumes at least one character, and the fuel [enough s] is never
      exhausted ([loads_never_out_of_fuel]): [loads] is the function it claims to be on every text;
   2. text-level classification of [unpack_text] ([unpack_text_classified]). *)
From Coq Require Import List ZArith NArith Bool String Ascii Lia.
From OV.Model Require Import Json Digits JsonText JsonParse Schema Frame FrameText.
Import ListNotations.
Local Open Scope string_scope.

Notation len := String.length.

Lemma skip_ws_le s : len (skip_ws s) <= len s.
Proof. induction s as [|c r IH]; simpl; [lia|]. destruct (is_ws c); simpl; lia. Qed.

Lemma prefix_rest_len p s r : prefix_rest p s = Some r -> len s = len p + len r.
Proof.
  revert s r; induction p as [|a p IH]; intros s r H; simpl in *.
  - inversion H; subst; reflexivity.
  - destruct s as [|b s]; [discriminate|]. destruct (Ascii.eqb a b); [|discriminate].
    apply IH in H. simpl; lia.
Qed.

Lemma scan_digits_le s : len (snd (scan_digits s)) <= len s.
Proof.
  induction s as [|c r IH]; simpl; [lia|].
  destruct (digit_val c); simpl; [|lia]. destruct (scan_digits r); simpl in *; lia.
Qed.

Lemma scan_digits_le' s u r : scan_digits s = (u, r) -> len r <= len s.
Proof. intros H. pose proof (scan_digits_le s) as L. rewrite H in L. exact L. Qed.

Lemma scan_digits_digit c r u r' :
  is_digit c = true -> scan_digits (String c r) = (u, r') -> len r' <= len r.
Proof.
  unfold is_digit; simpl. destruct (digit_val c); [|discriminate]. intros _.
  destruct (scan_digits r) as [u0 r0] eqn:E. intros H; inversion H; subst.
  eapply scan_digits_le'; eauto.
Qed.

(* ---- the number scanner consumes at least one character ---- *)
Lemma scan_sign_le s : len (snd (scan_sign s)) <= len s.
Proof. destruct s as [|c r]; simpl; [lia|]. destruct (N.eqb (N_of_ascii c) 45); simpl; lia. Qed.

Lemma scan_int_lt s u r : scan_int s = Some (u, r) -> len r < len s.
Proof.
  destruct s as [|c r0]; [discriminate|]. unfold scan_int.
  destruct (N.eqb (N_of_ascii c) 48); [intros H; inversion H; subst; simpl; lia|].
  destruct (is_digit c) eqn:D; [|discriminate].
  intros H; inversion H as [H']. apply scan_digits_digit in H'; [simpl; lia|exact D].
Qed.

Lemma scan_frac_le s : len (snd (scan_frac s)) <= len s.
Proof.
  destruct s as [|c r0]; [simpl; lia|]. unfold scan_frac.
  destruct (N.eqb (N_of_ascii c) 46 && starts_with_digit r0)%bool; [|simpl; lia].
  pose proof (scan_digits_le r0) as Q. destruct (scan_digits r0). simpl in *; lia.
Qed.

Lemma scan_exp_le s : len (snd (scan_exp s)) <= len s.
Proof.
  destruct s as [|c r0]; [simpl; lia|]. unfold scan_exp.
  destruct (N.eqb (N_of_ascii c) 101 || N.eqb (N_of_ascii c) 69)%bool; [|simpl; lia].
  destruct r0 as [|sg r']; [simpl; lia|].
  destruct (N.eqb (N_of_ascii sg) 45 || N.eqb (N_of_ascii sg) 43)%bool.
  - destruct (starts_with_digit r'); [|simpl; lia].
    pose proof (scan_digits_le r') as Q. destruct (scan_digits r') as [u r'']. simpl in *; lia.
  - destruct (is_digit sg); [|simpl; lia].
    pose proof (scan_digits_le (String sg r')) as Q. destruct (scan_digits (String sg r')) as [u r''].
    simpl in *; lia.
Qed.

Lemma scan_number_shorter s l r : scan_number s = Some (l, r) -> len r < len s.
Proof.
  unfold scan_number. pose proof (scan_sign_le s) as L1. destruct (scan_sign s) as [neg s1]; simpl in L1.
  destruct (scan_int s1) as [[iu s2]|] eqn:E2; [|discriminate]. apply scan_int_lt in E2.
  pose proof (scan_frac_le s2) as L3. destruct (scan_frac s2) as [fp s3]; simpl in L3.
  pose proof (scan_exp_le s3) as L4. destruct (scan_exp s3) as [ex s4]; simpl in L4.
  intros H; inversion H; subst. lia.
Qed.

Definition shorter (p : pres) (s : string) : Prop :=
  match p with POk _ r => len r < len s | _ => True end.

Lemma shorter_le p s s' : shorter p s -> len s <= len s' -> shorter p s'.
Proof. destruct p; simpl; auto; lia. Qed.

Section Mode.
Variable fm : fkind.
Local Notation pnumber := (JsonParse.pnumber fm).
Local Notation pvalue := (JsonParse.pvalue fm).
Local Notation pelements := (JsonParse.pelements fm).
Local Notation pmembers := (JsonParse.pmembers fm).
Local Notation loads_mode := (JsonParse.loads_mode fm).

Lemma pnumber_shorter s : shorter (pnumber s) s /\ pnumber s <> PFuel.
Proof.
  unfold JsonParse.pnumber. destruct (scan_number s) as [[l r]|] eqn:E; [|split; [exact I|discriminate]].
  apply scan_number_shorter in E. destruct (num_of_lit fm l); simpl; split; auto; discriminate.
Qed.

Lemma lit_shorter w v s : w <> "" -> shorter (lit w v s) s /\ lit w v s <> PFuel.
Proof.
  intros Hw. unfold lit. destruct (prefix_rest w s) eqn:E; simpl; [|split; [exact I|discriminate]].
  apply prefix_rest_len in E. destruct w; [congruence|]. simpl in E. split; [lia|discriminate].
Qed.

(* ---- the string scanner: the rest is shorter than the input ---- *)
Lemma prepend_rest p r b s : prepend p r = Some (b, s) -> exists b0, r = Some (b0, s).
Proof. destruct r as [[b0 s0]|]; simpl; [|discriminate]. intros H; inversion H; subst. eauto. Qed.

Lemma pstring_shorter_n n : forall s b r, len s <= n -> pstring s = Some (b, r) -> len r < len s.
Proof.
  induction n as [|n IH]; intros s b r Hn H.
  - destruct s; [discriminate|simpl in Hn; lia].
  - destruct s as [|c s0]; [discriminate|]. simpl in Hn.
    assert (REC : forall t p, len t <= len s0 -> prepend p (pstring t) = Some (b, r) -> len r < S (len s0)).
    { intros t p Ht Hp. apply prepend_rest in Hp. destruct Hp as [b0 Hp]. apply IH in Hp; lia. }
    cbn [pstring] in H. cbv zeta in H.
    destruct (N.eqb (N_of_ascii c) 34); [inversion H; subst; simpl; lia|].
    destruct (N.eqb (N_of_ascii c) 92).
    + destruct s0 as [|e r1]; [discriminate|].
      destruct (simple_escape e); [eapply (REC r1); [simpl; lia|exact H]|].
      destruct (N.eqb (N_of_ascii e) 117); [|discriminate].
      destruct r1 as [|a [|b1 [|c0 [|d r2]]]]; try discriminate.
      destruct (hex4val a b1 c0 d) as [hi|]; [|discriminate].
      assert (FALL : prepend (utf8 hi) (pstring r2) = Some (b, r) -> len r < S (len (String e (String a (String b1 (String c0 (String d r2))))))).
      { intros Hp. pose proof (REC r2 _ ltac:(simpl; lia) Hp) as Q. simpl in Q |- *; lia. }
      destruct (is_high hi); [|exact (FALL H)].
      destruct r2 as [|bs [|u [|a' [|b' [|c' [|d' r3]]]]]]; try exact (FALL H).
      destruct (N.eqb (N_of_ascii bs) 92 && N.eqb (N_of_ascii u) 117)%bool; [|exact (FALL H)].
      destruct (hex4val a' b' c' d') as [lo|]; [|discriminate].
      destruct (is_low lo); [|exact (FALL H)].
      pose proof (REC r3 _ ltac:(simpl; lia) H) as Q. simpl in Q |- *; lia.
    + destruct (N.ltb (N_of_ascii c) 32); [discriminate|].
      simpl. eapply (REC s0); [lia|exact H].
Qed.

Lemma pstring_shorter s b r : pstring s = Some (b, r) -> len r < len s.
Proof. apply (pstring_shorter_n (len s)); lia. Qed.

(* unfolding equations (cbn does not refold the mutual fixpoint) *)
Lemma pvalue_S f depth s :
  pvalue (S f) depth s =
  match s with
  | EmptyString => PErr
  | String c r =>
      let n := N_of_ascii c in
      if N.eqb n 34 then
        match pstring r with Some (body, r') => POk (JStr body) r' | None => PErr end
      else if N.eqb n 123 then
        match depth with
        | O => PDeep
        | S d =>
            let r1 := skip_ws r in
            match r1 with
            | String c1 r2 => if N.eqb (N_of_ascii c1) 125 then POk (JObj []) r2 else pmembers f d r1 []
            | EmptyString => PErr
            end
        end
      else if N.eqb n 91 then
        match depth with
        | O => PDeep
        | S d =>
            let r1 := skip_ws r in
            match r1 with
            | String c1 r2 => if N.eqb (N_of_ascii c1) 93 then POk (JArr []) r2 else pelements f d r1 []
            | EmptyString => PErr
            end
        end
      else if N.eqb n 110 then lit "null" JNull s
      else if N.eqb n 116 then lit "true" (JBool true) s
      else if N.eqb n 102 then lit "false" (JBool false) s
      else if N.eqb n 78 then lit "NaN" (JNum NNaN) s
      else if N.eqb n 73 then lit "Infinity" (JNum (NInf false)) s
      else if (N.eqb n 45 && match r with String i _ => N.eqb (N_of_ascii i) 73 | _ => false end)%bool
      then lit "-Infinity" (JNum (NInf true)) s
      else pnumber s
  end.
Proof. reflexivity. Qed.

Lemma pelements_S f d s acc :
  pelements (S f) d s acc =
  match pvalue f d s with
  | POk v r =>
      match skip_ws r with
      | String c r' =>
          if N.eqb (N_of_ascii c) 44 then pelements f d (skip_ws r') (v :: acc)
          else if N.eqb (N_of_ascii c) 93 then POk (JArr (List.rev (v :: acc))) r'
          else PErr
      | EmptyString => PErr
      end
  | e => e
  end.
Proof. reflexivity. Qed.

Lemma pmembers_S f d s acc :
  pmembers (S f) d s acc =
  match s with
  | String q r =>
      if N.eqb (N_of_ascii q) 34 then
        match pstring r with
        | None => PErr
        | Some (k, r1) =>
            match skip_ws r1 with
            | String c r2 =>
                if N.eqb (N_of_ascii c) 58 then
                  match pvalue f d (skip_ws r2) with
                  | POk v r3 =>
                      match skip_ws r3 with
                      | String c' r4 =>
                          if N.eqb (N_of_ascii c') 44 then pmembers f d (skip_ws r4) (dict_set k v acc)
                          else if N.eqb (N_of_ascii c') 125 then POk (JObj (dict_set k v acc)) r4
                          else PErr
                      | EmptyString => PErr
                      end
                  | e => e
                  end
                else PErr
            | EmptyString => PErr
            end
        end
      else PErr
  | EmptyString => PErr
  end.
Proof. reflexivity. Qed.


(* ---- values: progress and fuel adequacy, by induction on the fuel ---- *)
Definition good_v (f : nat) : Prop :=
  forall d s, shorter (pvalue f d s) s /\ (2 * len s + 1 <= f -> pvalue f d s <> PFuel).
Definition good_e (f : nat) : Prop :=
  forall d s acc, shorter (pelements f d s acc) s /\ (2 * len s + 2 <= f -> pelements f d s acc <> PFuel).
Definition good_m (f : nat) : Prop :=
  forall d s acc, shorter (pmembers f d s acc) s /\ (2 * len s + 2 <= f -> pmembers f d s acc <> PFuel).

Lemma good_v_step f : good_e f -> good_m f -> good_v (S f).
Proof.
  intros GE GM d s. rewrite pvalue_S.
  destruct s as [|c r]; [split; [exact I|discriminate]|]. cbv zeta.
  destruct (N.eqb (N_of_ascii c) 34).
  { destruct (pstring r) as [[b r']|] eqn:E; [|split; [exact I|discriminate]].
    apply pstring_shorter in E. simpl; split; [lia|discriminate]. }
  destruct (N.eqb (N_of_ascii c) 123).
  { destruct d as [|d]; [split; [exact I|discriminate]|].
    pose proof (skip_ws_le r) as W. destruct (skip_ws r) as [|c1 r2] eqn:E; [split; [exact I|discriminate]|].
    destruct (N.eqb (N_of_ascii c1) 125); [simpl in *; split; [lia|discriminate]|].
    destruct (GM d (String c1 r2) []) as [S1 F1]. split.
    - eapply shorter_le; [exact S1|simpl in *; lia].
    - intros B. apply F1. simpl in *; lia. }
  destruct (N.eqb (N_of_ascii c) 91).
  { destruct d as [|d]; [split; [exact I|discriminate]|].
    pose proof (skip_ws_le r) as W. destruct (skip_ws r) as [|c1 r2] eqn:E; [split; [exact I|discriminate]|].
    destruct (N.eqb (N_of_ascii c1) 93); [simpl in *; split; [lia|discriminate]|].
    destruct (GE d (String c1 r2) []) as [S1 F1]. split.
    - eapply shorter_le; [exact S1|simpl in *; lia].
    - intros B. apply F1. simpl in *; lia. }
  assert (NE : forall w : string, w <> "" -> forall v, shorter (lit w v (String c r)) (String c r) /\
                (2 * len (String c r) + 1 <= S f -> lit w v (String c r) <> PFuel)).
  { intros w Hw v. destruct (lit_shorter w v (String c r) Hw). split; auto. }
  destruct (N.eqb (N_of_ascii c) 110); [apply NE; discriminate|].
  destruct (N.eqb (N_of_ascii c) 116); [apply NE; discriminate|].
  destruct (N.eqb (N_of_ascii c) 102); [apply NE; discriminate|].
  destruct (N.eqb (N_of_ascii c) 78); [apply NE; discriminate|].
  destruct (N.eqb (N_of_ascii c) 73); [apply NE; discriminate|].
  match goal with |- context [if ?b then _ else _] => destruct b end; [apply NE; discriminate|].
  destruct (pnumber_shorter (String c r)). split; auto.
Qed.

Lemma good_e_step f : good_v f -> good_e f -> good_e (S f).
Proof.
  intros GV GE d s acc. rewrite pelements_S.
  destruct (GV d s) as [S1 F1].
  destruct (pvalue f d s) as [v r| | |] eqn:E.
  - simpl in S1. pose proof (skip_ws_le r) as W.
    destruct (skip_ws r) as [|c r'] eqn:E2; [split; [exact I|discriminate]|].
    destruct (N.eqb (N_of_ascii c) 44).
    + destruct (GE d (skip_ws r') (v :: acc)) as [S2 F2]. pose proof (skip_ws_le r') as W2. split.
      * eapply shorter_le; [exact S2|simpl in *; lia].
      * intros B. apply F2. simpl in *; lia.
    + destruct (N.eqb (N_of_ascii c) 93); split; try exact I; try discriminate. simpl in *; lia.
  - split; [exact I|discriminate].
  - split; [exact I|discriminate].
  - split; [exact I|]. intros B. exfalso. apply F1; [lia|reflexivity].
Qed.

Lemma good_m_step f : good_v f -> good_m f -> good_m (S f).
Proof.
  intros GV GM d s acc. rewrite pmembers_S.
  destruct s as [|q r]; [split; [exact I|discriminate]|].
  destruct (N.eqb (N_of_ascii q) 34); [|split; [exact I|discriminate]].
  destruct (pstring r) as [[k r1]|] eqn:E; [|split; [exact I|discriminate]].
  apply pstring_shorter in E. pose proof (skip_ws_le r1) as W1.
  destruct (skip_ws r1) as [|c r2] eqn:E1; [split; [exact I|discriminate]|].
  destruct (N.eqb (N_of_ascii c) 58); [|split; [exact I|discriminate]].
  pose proof (skip_ws_le r2) as W2.
  destruct (GV d (skip_ws r2)) as [S1 F1].
  destruct (pvalue f d (skip_ws r2)) as [v r3| | |] eqn:E3.
  - simpl in S1. pose proof (skip_ws_le r3) as W3.
    destruct (skip_ws r3) as [|c' r4] eqn:E4; [split; [exact I|discriminate]|].
    destruct (N.eqb (N_of_ascii c') 44).
    + destruct (GM d (skip_ws r4) (dict_set k v acc)) as [S2 F2]. pose proof (skip_ws_le r4) as W4. split.
      * eapply shorter_le; [exact S2|simpl in *; lia].
      * intros B. apply F2. simpl in *; lia.
    + destruct (N.eqb (N_of_ascii c') 125); split; try exact I; try discriminate. simpl in *; lia.
  - split; [exact I|discriminate].
  - split; [exact I|discriminate].
  - split; [exact I|]. intros B. exfalso. apply F1; [simpl in *; lia|reflexivity].
Qed.

Lemma good_all f : good_v f /\ good_e f /\ good_m f.
Proof.
  induction f as [|f [GV [GE GM]]].
  - repeat split; try exact I; simpl; intros; lia.
  - repeat split; try (apply good_v_step; assumption); try (apply good_e_step; assumption);
      try (apply good_m_step; assumption).
Qed.

(* every text: the model's answer is a value, a ValueError or a RecursionError -- never "out of fuel" *)
Theorem loads_mode_never_out_of_fuel limit s : loads_mode limit s <> LFuel.
Proof.
  unfold JsonParse.loads_mode. destruct (prefix_rest bom s); [discriminate|].
  destruct (good_all (enough s)) as [GV _]. destruct (GV limit (skip_ws s)) as [_ F].
  pose proof (skip_ws_le s) as W.
  destruct (pvalue (enough s) limit (skip_ws s)) eqn:E; try discriminate.
  - destruct (skip_ws rest); discriminate.
  - exfalso. apply F; [unfold enough; lia|reflexivity].
Qed.

End Mode.

Theorem loads_never_out_of_fuel limit s : loads limit s <> LFuel.
Proof. apply loads_mode_never_out_of_fuel. Qed.

Theorem loads_trichotomy limit s :
  (exists v, loads limit s = LValue v) \/ loads limit s = LError \/ loads limit s = LRecursion.
Proof.
  pose proof (loads_never_out_of_fuel limit s) as F.
  destruct (loads limit s); [left; eauto|right; left; reflexivity|right; right; reflexivity|congruence].
Qed.

Lemma unpack_v_not_format j : unpack_v j <> UErr CFormatViolation.
Proof.
  destruct j as [| b | n | s | l | o]; simpl; try discriminate.
  destruct l as [|t args]; [discriminate|].
  destruct (py_eq_int t 2); [destruct args as [|a1 [|a2 [|a3 [|a4 r]]]]; discriminate|].
  destruct (py_eq_int t 3); [destruct args as [|a1 [|a2 [|a3 [|a4 r]]]]; discriminate|].
  destruct (py_eq_int t 4); [destruct args as [|a1 [|a2 [|a3 [|a4 [|a5 r]]]]]; discriminate|].
  discriminate.
Qed.

(* unpack on the text: FormatViolation exactly when json.loads raises (ValueError or RecursionError);
   otherwise the value-level classification of the decoded value *)
Theorem unpack_text_classified limit s :
  (unpack_text limit s = UErr CFormatViolation <-> (loads limit s = LError \/ loads limit s = LRecursion)) /\
  (forall j, loads limit s = LValue j -> unpack_text limit s = unpack_v j).
Proof.
  unfold unpack_text, outcome_of. pose proof (loads_never_out_of_fuel limit s) as F.
  destruct (loads limit s) as [v| | |] eqn:E; simpl; split.
  - split; [intros H; exfalso; exact (unpack_v_not_format v H)|intros [H|H]; discriminate].
  - intros j H; inversion H; reflexivity.
  - split; [auto|reflexivity].
  - intros j H; discriminate.
  - split; [auto|reflexivity].
  - intros j H; discriminate.
  - congruence.
  - congruence.
Qed.
