(* CaseDispatch.v -- comparison used by the `dispatch` correspondence case files. *)
From Coq Require Import List ZArith NArith Bool String.
From OV.Model Require Import Json Names Schema Validate Frame Dispatch Shipped CaseLib.
Import ListNotations.
Local Open Scope string_scope.

(* what the harness observed on the real endpoint for one frame, in order *)
Inductive oevent :=
| OHandler (name : string) (kwargs : json) (uid : option json)
| OAfter (name : string) (kwargs : json) (uid : option json)
| OResult (id payload : json)
| OError (id : json) (code descr : string) (details : json)
| OEnqueue (m : msg)
| OWriteFailed
| OEscape.

Definition opt_same (a b : option json) : bool :=
  match a, b with
  | None, None => true
  | Some x, Some y => json_sameb false x y
  | _, _ => false
  end.

Definition msg_same (a b : msg) : bool :=
  match a, b with
  | Call i x p, Call i' x' p' => json_sameb false i i' && json_sameb false x x' && json_sameb false p p'
  | CallResult i p a, CallResult i' p' a' => json_sameb false i i' && json_sameb false p p' && opt_same a a'
  | CallError i c d x, CallError i' c' d' x' =>
      json_sameb false i i' && json_sameb false c c' && json_sameb false d d' && opt_same x x'
  | _, _ => false
  end.

Definition event_agree (e : event) (o : oevent) : bool :=
  match e, o with
  | EvHandler n kw u, OHandler n' kw' u' => String.eqb n n' && json_sameb true kw kw' && opt_same u u'
  | EvAfter n kw u, OAfter n' kw' u' => String.eqb n n' && json_sameb true kw kw' && opt_same u u'
  | EvResult i p, OResult i' p' => json_sameb false i i' && json_sameb false p p'
  | EvError i codes exact, OError i' c d x =>
      json_sameb false i i' && mem c codes &&
      match exact with
      | None => true
      | Some (d0, x0) => String.eqb d0 d && json_sameb false x0 x
      end
  | EvEnqueue m, OEnqueue m' => msg_same m m'
  | EvEscape, OEscape => true
  | EvWriteFailed, OWriteFailed => true
  | _, _ => false
  end.

Fixpoint events_agree (es : list event) (os : list oevent) : bool :=
  match es, os with
  | [], [] => true
  | e :: er, o :: or => event_agree e o && events_agree er or
  | _, _ => false
  end.

(* ---- per-property views: only the observables the property speaks about are compared, so
   that a change which breaks another property does not disturb this one's correspondence ---- *)
Inductive view := VFull | VC01 | VC05 | VC07 | VC16 | VC17.

Definition keep_e (v : view) (e : event) : bool :=
  match v, e with
  | VFull, _ => true
  | VC01, (EvResult _ _ | EvError _ _ _ | EvEscape) => true
  | VC05, (EvHandler _ _ _ | EvResult _ _ | EvError _ _ _ | EvEscape) => true
  | VC07, (EvHandler _ _ _ | EvAfter _ _ _ | EvResult _ _ | EvWriteFailed) => true
  | VC16, (EvHandler _ _ _ | EvResult _ _ | EvError _ _ _) => true
  | VC17, (EvHandler _ _ _ | EvResult _ _ | EvError _ _ _) => true
  | _, _ => false
  end.
Definition keep_o (v : view) (o : oevent) : bool :=
  match v, o with
  | VFull, _ => true
  | VC01, (OResult _ _ | OError _ _ _ _ | OEscape) => true
  | VC05, (OHandler _ _ _ | OResult _ _ | OError _ _ _ _ | OEscape) => true
  | VC07, (OHandler _ _ _ | OAfter _ _ _ | OResult _ _ | OWriteFailed) => true
  | VC16, (OHandler _ _ _ | OResult _ _ | OError _ _ _ _) => true
  | VC17, (OHandler _ _ _ | OResult _ _ | OError _ _ _ _) => true
  | _, _ => false
  end.

Definition oreply_id (o : oevent) : option json :=
  match o with OResult i _ | OError i _ _ _ => Some i | _ => None end.

Definition agree1 (v : view) (e : event) (o : oevent) : bool :=
  match v with
  | VFull => event_agree e o
  | VC01 =>
      match e, o with
      | EvEscape, OEscape => true
      | (EvResult _ _ | EvError _ _ _), (OResult _ _ | OError _ _ _ _) => opt_same (reply_id e) (oreply_id o)
      | _, _ => false
      end
  | VC05 =>
      match e, o with
      | EvHandler n _ _, OHandler n' _ _ => String.eqb n n'
      | EvResult _ _, OResult _ _ => true
      | EvError _ codes _, OError _ c _ _ => mem c codes
      | EvEscape, OEscape => true
      | _, _ => false
      end
  | VC07 =>
      match e, o with
      | EvResult _ _, OResult _ _ => true
      | _, _ => event_agree e o
      end
  | VC16 =>
      match e, o with
      | EvError _ codes _, OError _ c _ _ => mem c codes
      | _, _ => event_agree e o
      end
  | VC17 =>
      match e, o with
      | EvHandler _ _ _, OHandler _ _ _ => true
      | EvResult _ _, OResult _ _ => true
      | EvError _ codes _, OError _ c _ _ => mem c codes
      | _, _ => false
      end
  end.

Fixpoint agree_list (v : view) (es : list event) (os : list oevent) : bool :=
  match es, os with
  | [], [] => true
  | e :: er, o :: or => agree1 v e o && agree_list v er or
  | _, _ => false
  end.

Record dcase := mkD { dc_cfg : cfg; dc_send_ok : bool; dc_frame : loads_outcome; dc_obs : list oevent }.

Definition dispatch_model (c : dcase) : list event :=
  route_message_io shipped actions_of (dc_send_ok c) (dc_cfg c) (dc_frame c).

Definition dagree (v : view) (c : dcase) : bool :=
  agree_list v (filter (keep_e v) (dispatch_model c)) (filter (keep_o v) (dc_obs c)).

(* indices disagreeing in the property's view, then (offset 1000000) those disagreeing in full *)
Definition ddisagreements (v : view) (cs : list dcase) : list N :=
  (bad (dagree v) cs 0%N ++ bad (dagree VFull) cs 1000000%N)%list.


(* ---- the receive loop ---- *)
Inductive lobs :=
| LORecv (i : nat)
| LOSend (id : json)              (* a reply frame written, with the id it carries *)
| LOEndSame                       (* start() ended by raising the very exception recv raised *)
| LOEndOther.                     (* start() returned or raised something else *)

Record lcase := mkL { lc_cfg : cfg; lc_frames : list loads_outcome; lc_obs : list lobs }.

Definition loop_view (l : list (loop_event)) : list lobs :=
  flat_map (fun e => match e with
                     | LRecv i => [LORecv i]
                     | LEv (EvResult id _) | LEv (EvError id _ _) => [LOSend id]
                     | LEv _ => []
                     | LEnd true => [LOEndSame]
                     | LEnd false => [LOEndOther]
                     end) l.

Definition lobs_eqb (a b : lobs) : bool :=
  match a, b with
  | LORecv i, LORecv j => Nat.eqb i j
  | LOSend x, LOSend y => json_sameb false x y
  | LOEndSame, LOEndSame | LOEndOther, LOEndOther => true
  | _, _ => false
  end.

Fixpoint lobs_list_eqb (a b : list lobs) : bool :=
  match a, b with
  | [], [] => true
  | x :: r, y :: s => lobs_eqb x y && lobs_list_eqb r s
  | _, _ => false
  end.

Definition lagree (c : lcase) : bool :=
  lobs_list_eqb (loop_view (start shipped actions_of (lc_cfg c) (lc_frames c))) (lc_obs c).
Definition ldisagreements (cs : list lcase) : list N := bad lagree cs 0%N.
