(* Schema.v -- Draft-04 validation over exactly the keyword subset the shipped OCPP
   schemas use.  [violations] is the executable evaluator (all violated constraint
   kinds); [Valid] is a declarative reading of the Draft-04 text; SchemaProofs.v
   relates the two. *)
From Coq Require Import List ZArith Bool String Ascii Lia.
From OV.Model Require Import Json.
From OV.Gen Require Import ValidateRules.
Import ListNotations.
Local Open Scope Z_scope.

Inductive stype := TyString | TyInteger | TyNumber | TyBoolean | TyObject | TyArray | TyNull.

Inductive schema :=
| Sch (ty : option stype)
      (enum : option (list string))
      (maxLength : option Z)
      (props : list (string * schema))
      (required : list string)
      (closed : bool)                      (* additionalProperties: false *)
      (items : option schema)
      (minItems maxItems : option Z)
      (minimum maximum : option num)
      (multipleOf : option num).

Definition s_ty s := match s with Sch a _ _ _ _ _ _ _ _ _ _ _ => a end.
Definition s_enum s := match s with Sch _ a _ _ _ _ _ _ _ _ _ _ => a end.
Definition s_maxLength s := match s with Sch _ _ a _ _ _ _ _ _ _ _ _ => a end.
Definition s_props s := match s with Sch _ _ _ a _ _ _ _ _ _ _ _ => a end.
Definition s_required s := match s with Sch _ _ _ _ a _ _ _ _ _ _ _ => a end.
Definition s_closed s := match s with Sch _ _ _ _ _ a _ _ _ _ _ _ => a end.
Definition s_items s := match s with Sch _ _ _ _ _ _ a _ _ _ _ _ => a end.
Definition s_minItems s := match s with Sch _ _ _ _ _ _ _ a _ _ _ _ => a end.
Definition s_maxItems s := match s with Sch _ _ _ _ _ _ _ _ a _ _ _ => a end.
Definition s_minimum s := match s with Sch _ _ _ _ _ _ _ _ _ a _ _ => a end.
Definition s_maximum s := match s with Sch _ _ _ _ _ _ _ _ _ _ a _ => a end.
Definition s_multipleOf s := match s with Sch _ _ _ _ _ _ _ _ _ _ _ a => a end.

(* convenient constructors used by the generated tables *)
Definition s_any : schema := Sch None None None [] [] false None None None None None None.
Definition s_string (enum : option (list string)) (mx : option Z) : schema :=
  Sch (Some TyString) enum mx [] [] false None None None None None None.
Definition s_integer (mn mx : option num) : schema :=
  Sch (Some TyInteger) None None [] [] false None None None mn mx None.
Definition s_number (mn mx mo : option num) : schema :=
  Sch (Some TyNumber) None None [] [] false None None None mn mx mo.
Definition s_boolean : schema :=
  Sch (Some TyBoolean) None None [] [] false None None None None None None.
Definition s_object (props : list (string * schema)) (req : list string) (closed : bool) : schema :=
  Sch (Some TyObject) None None props req closed None None None None None None.
Definition s_array (items : option schema) (mn mx : option Z) : schema :=
  Sch (Some TyArray) None None [] [] false items mn mx None None None.

Definition opt_all (P : schema -> Prop) (o : option schema) : Prop :=
  match o with Some it => P it | None => True end.

Section SchemaInd.
  Variable P : schema -> Prop.
  Hypothesis H : forall ty en mxl props req cl items mni mxi mn mx mo,
      Forall (fun kv => P (snd kv)) props ->
      opt_all P items ->
      P (Sch ty en mxl props req cl items mni mxi mn mx mo).
  Fixpoint schema_ind' (s : schema) : P s :=
    match s with
    | Sch ty en mxl props req cl items mni mxi mn mx mo =>
        H ty en mxl props req cl items mni mxi mn mx mo
          ((fix go (l : list (string * schema)) : Forall (fun kv => P (snd kv)) l :=
              match l with
              | [] => Forall_nil _
              | x :: r => Forall_cons _ (schema_ind' (snd x)) (go r)
              end) props)
          (match items as o return opt_all P o with
           | Some it0 => schema_ind' it0
           | None => I
           end)
    end.
End SchemaInd.

(* ------------------------------------------------------------------------- *)
(* Evaluation                                                                 *)

(* how json.loads parsed the numbers: float() or decimal.Decimal() *)
Inductive mode := MFloat | MDecimal.
Definition mode_eqb a b := match a, b with MFloat, MFloat | MDecimal, MDecimal => true | _, _ => false end.

Inductive kind :=
| KType | KRequired | KAdditional | KEnum | KMaxLength | KMinItems | KMaxItems
| KMinimum | KMaximum | KMultipleOf
| KOutOfRange      (* decimal.InvalidOperation inside a keyword; reported as FormatViolation *)
| KCrash.          (* an exception that _validate_payload does not turn into an OCPP error *)

Definition kind_eqb (a b : kind) : bool :=
  match a, b with
  | KType, KType | KRequired, KRequired | KAdditional, KAdditional | KEnum, KEnum
  | KMaxLength, KMaxLength | KMinItems, KMinItems | KMaxItems, KMaxItems
  | KMinimum, KMinimum | KMaximum, KMaximum | KMultipleOf, KMultipleOf
  | KOutOfRange, KOutOfRange | KCrash, KCrash => true
  | _, _ => false
  end.

Definition has_type (t : stype) (j : json) : bool :=
  match t, j with
  | TyString, JStr _ => true
  | TyInteger, JNum (NInt _) => true
  | TyNumber, JNum _ => true
  | TyBoolean, JBool _ => true
  | TyObject, JObj _ => true
  | TyArray, JArr _ => true
  | TyNull, JNull => true
  | _, _ => false
  end.

Definition v_type (ty : option stype) (j : json) : list kind :=
  match ty with Some t => if has_type t j then [] else [KType] | None => [] end.

Definition v_enum (en : option (list string)) (j : json) : list kind :=
  match en with
  | Some l => match j with JStr s => if mem s l then [] else [KEnum] | _ => [KEnum] end
  | None => []
  end.

Definition v_maxlen (mxl : option Z) (j : json) : list kind :=
  match mxl, j with
  | Some n, JStr s => if cp_length s >? n then [KMaxLength] else []
  | _, _ => []
  end.

Definition v_required (req : list string) (o : list (string * json)) : list kind :=
  flat_map (fun k => if mem k (keys o) then [] else [KRequired]) req.

Definition v_additional (closed : bool) (pnames : list string) (o : list (string * json)) : list kind :=
  if closed && existsb (fun k => negb (mem k pnames)) (keys o) then [KAdditional] else [].

Definition v_minitems (mn : option Z) (l : list json) : list kind :=
  match mn with Some n => if Z.of_nat (List.length l) <? n then [KMinItems] else [] | None => [] end.
Definition v_maxitems (mx : option Z) (l : list json) : list kind :=
  match mx with Some n => if Z.of_nat (List.length l) >? n then [KMaxItems] else [] | None => [] end.

(* instance < minimum ; a Decimal NaN makes the ordering signal InvalidOperation *)
Definition v_minimum (pm : mode) (mn : option num) (n : num) : list kind :=
  match mn with
  | Some b =>
      match n, pm with
      | NNaN, MDecimal => [KOutOfRange]
      | _, _ => if num_ltb n b then [KMinimum] else []
      end
  | None => []
  end.
Definition v_maximum (pm : mode) (mx : option num) (n : num) : list kind :=
  match mx with
  | Some b =>
      match n, pm with
      | NNaN, MDecimal => [KOutOfRange]
      | _, _ => if num_ltb b n then [KMaximum] else []
      end
  | None => []
  end.

Definition prec_bound : Z := 10 ^ 28.

(* instance % dB on decimal.Decimal, default context (28 digits) *)
Definition mult_dec (m e mb eb : Z) : list kind :=
  let c := Z.min e eb in
  let A := m * 10 ^ (e - c) in
  let B := mb * 10 ^ (eb - c) in
  if B =? 0 then [KCrash]
  else if Z.abs A <? prec_bound * Z.abs B
       then (if A mod B =? 0 then [] else [KMultipleOf])
       else [KOutOfRange].

Definition v_multiple (sm pm : mode) (mo : option num) (n : num) : list kind :=
  match mo with
  | None => []
  | Some b =>
      match sm, b with
      | MDecimal, NDec mb eb _ =>
          match n with
          | NInt z => mult_dec z 0 mb eb
          | NDec m e _ => match pm with MDecimal => mult_dec m e mb eb | MFloat => [KCrash] end
          | NNaN => match pm with MDecimal => [KMultipleOf] | MFloat => [KCrash] end
          | NInf _ => match pm with MDecimal => [KOutOfRange] | MFloat => [KCrash] end
          end
      | MDecimal, NInt zb =>
          match n with
          | NInt z => if zb =? 0 then [KCrash] else if z mod zb =? 0 then [] else [KMultipleOf]
          | _ => [KCrash]
          end
      | _, _ => [KCrash]    (* binary floating point multipleOf: not modelled, never reached *)
      end
  end.

Fixpoint violations (sm pm : mode) (s : schema) (j : json) {struct s} : list kind :=
  match s with
  | Sch ty en mxl props req cl items mni mxi mn mx mo =>
      v_type ty j ++ v_enum en j ++ v_maxlen mxl j ++
      match j with
      | JObj o =>
          (fix go (ps : list (string * schema)) : list kind :=
             match ps with
             | [] => []
             | (k, sub) :: r =>
                 match assoc k o with
                 | Some v => violations sm pm sub v
                 | None => []
                 end ++ go r
             end) props
          ++ v_required req o ++ v_additional cl (keys props) o
      | JArr l =>
          match items with
          | Some it => flat_map (violations sm pm it) l
          | None => []
          end ++ v_minitems mni l ++ v_maxitems mxi l
      | JNum n => v_minimum pm mn n ++ v_maximum pm mx n ++ v_multiple sm pm mo n
      | _ => []
      end
  end.

(* ------------------------------------------------------------------------- *)
(* Declarative reading of Draft-04 for these keywords                         *)

Definition MultOK (sm pm : mode) (b n : num) : Prop :=
  match sm, b with
  | MDecimal, NDec mb eb _ =>
      let ok m e :=
        let c := Z.min e eb in
        let A := m * 10 ^ (e - c) in
        let B := mb * 10 ^ (eb - c) in
        B <> 0 /\ Z.abs A < prec_bound * Z.abs B /\ exists q, A = q * B in
      match n with
      | NInt z => ok z 0
      | NDec m e _ => pm = MDecimal /\ ok m e
      | _ => False
      end
  | MDecimal, NInt zb =>
      match n with NInt z => zb <> 0 /\ exists q, z = q * zb | _ => False end
  | _, _ => False
  end.

Definition MinOK (pm : mode) (b n : num) : Prop :=
  match n, pm with NNaN, MDecimal => False | _, _ => num_ltb n b = false end.
Definition MaxOK (pm : mode) (b n : num) : Prop :=
  match n, pm with NNaN, MDecimal => False | _, _ => num_ltb b n = false end.

Inductive Valid (sm pm : mode) : schema -> json -> Prop :=
| Valid_intro : forall ty en mxl props req cl items mni mxi mn mx mo j,
    (* type *)
    (forall t, ty = Some t -> has_type t j = true) ->
    (* enum: the instance is one of the listed (string) values *)
    (forall l, en = Some l -> exists s, j = JStr s /\ In s l) ->
    (* maxLength constrains strings only, counts characters *)
    (forall n s, mxl = Some n -> j = JStr s -> cp_length s <= n) ->
    (* properties: each present member satisfies the sub-schema of its name *)
    (forall o k sub v, j = JObj o -> In (k, sub) props -> assoc k o = Some v ->
                       Valid sm pm sub v) ->
    (* required *)
    (forall o k, j = JObj o -> In k req -> exists v, assoc k o = Some v) ->
    (* additionalProperties: false *)
    (cl = true -> forall o k, j = JObj o -> In k (keys o) -> In k (keys props)) ->
    (* items *)
    (forall l it x, j = JArr l -> items = Some it -> In x l -> Valid sm pm it x) ->
    (forall l n, j = JArr l -> mni = Some n -> n <= Z.of_nat (List.length l)) ->
    (forall l n, j = JArr l -> mxi = Some n -> Z.of_nat (List.length l) <= n) ->
    (* numeric keywords *)
    (forall n b, j = JNum n -> mn = Some b -> MinOK pm b n) ->
    (forall n b, j = JNum n -> mx = Some b -> MaxOK pm b n) ->
    (forall n b, j = JNum n -> mo = Some b -> MultOK sm pm b n) ->
    Valid sm pm (Sch ty en mxl props req cl items mni mxi mn mx mo) j.

(* ------------------------------------------------------------------------- *)
(* _validate_payload's mapping from the failing keyword to the OCPP error     *)

Inductive ocode :=
| CNotImplemented | CNotSupported | CInternalError | CProtocolError | CSecurityError
| CFormatViolation | CFormationViolation | CPropertyConstraintViolation
| COccurenceConstraintViolation | COccurrenceConstraintViolation
| CTypeConstraintViolation | CGenericError.

Definition ocode_eqb (a b : ocode) : bool :=
  match a, b with
  | CNotImplemented, CNotImplemented | CNotSupported, CNotSupported
  | CInternalError, CInternalError | CProtocolError, CProtocolError
  | CSecurityError, CSecurityError | CFormatViolation, CFormatViolation
  | CFormationViolation, CFormationViolation
  | CPropertyConstraintViolation, CPropertyConstraintViolation
  | COccurenceConstraintViolation, COccurenceConstraintViolation
  | COccurrenceConstraintViolation, COccurrenceConstraintViolation
  | CTypeConstraintViolation, CTypeConstraintViolation | CGenericError, CGenericError => true
  | _, _ => false
  end.

Definition code_name (c : ocode) : string :=
  match c with
  | CNotImplemented => "NotImplemented" | CNotSupported => "NotSupported"
  | CInternalError => "InternalError" | CProtocolError => "ProtocolError"
  | CSecurityError => "SecurityError" | CFormatViolation => "FormatViolation"
  | CFormationViolation => "FormationViolation"
  | CPropertyConstraintViolation => "PropertyConstraintViolation"
  | COccurenceConstraintViolation => "OccurenceConstraintViolation"
  | COccurrenceConstraintViolation => "OccurrenceConstraintViolation"
  | CTypeConstraintViolation => "TypeConstraintViolation" | CGenericError => "GenericError"
  end%string.

(* the jsonschema keyword a violated constraint kind is reported under (SchemaValidationError.validator) *)
Definition kind_keyword (k : kind) : string :=
  match k with
  | KType => "type" | KRequired => "required" | KAdditional => "additionalProperties" | KEnum => "enum"
  | KMaxLength => "maxLength" | KMinItems => "minItems" | KMaxItems => "maxItems"
  | KMinimum => "minimum" | KMaximum => "maximum" | KMultipleOf => "multipleOf"
  | KOutOfRange | KCrash => ""
  end%string.

Definition all_ocodes : list ocode :=
  [CNotImplemented; CNotSupported; CInternalError; CProtocolError; CSecurityError; CFormatViolation;
   CFormationViolation; CPropertyConstraintViolation; COccurenceConstraintViolation;
   COccurrenceConstraintViolation; CTypeConstraintViolation; CGenericError].

Definition ocode_of_name (s : string) : option ocode :=
  find (fun c => String.eqb (code_name c) s) all_ocodes.

(* _validate_payload's mapping from the failing keyword to the OCPP error: the table is regenerated from
   the source of that function on every run (Gen/ValidateRules.v) *)
Definition code_of (k : kind) : ocode :=
  let name := match k with
              | KOutOfRange => invalid_operation_code
              | _ => match assoc (kind_keyword k) keyword_codes with
                     | Some c => c
                     | None => other_keyword_code
                     end
              end in
  match ocode_of_name name with Some c => c | None => CInternalError end.
