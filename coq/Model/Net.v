(* Net.v -- endpoints composed: a frame written by one is the inbound frame of the other.
   A calls, B handles (loopback); A calls B whose handler forwards to C and returns C's result
   (relay). *)
From Coq Require Import List ZArith Bool String Ascii.
From OV.Model Require Import Json Names Schema Validate Frame Vocab Classes Dispatch Endpoint.
Import ListNotations.
Local Open Scope string_scope.
Local Open Scope Z_scope.

Section Net.
  Variable tbl : version -> list (string * schema).
  Variable acts : version -> list string.
  Variable errors : list (string * string * string).
  Variable results : version -> list classdef.
  Variable fresh : nat -> string.

  Definition default_descr (code : string) : string :=
    match find (fun e => String.eqb (snd (fst e)) code) errors with
    | Some (_, _, d) => d
    | None => ""
    end.

  (* the frame an endpoint writes for a reply event *)
  Definition reply_frame (e : event) : option json :=
    match e with
    | EvResult id pl => Some (JArr [JNum (NInt 3); id; pl])
    | EvError id (code :: _) (Some (d, x)) => Some (JArr [JNum (NInt 4); id; JStr code; JStr d; x])
    | EvError id (code :: _) None => Some (JArr [JNum (NInt 4); id; JStr code; JStr (default_descr code); JObj []])
    | _ => None
    end.

  Fixpoint first_some {A B} (f : A -> option B) (l : list A) : option B :=
    match l with [] => None | x :: r => match f x with Some y => Some y | None => first_some f r end end.

  Definition call_frame_of (st : state) (k : nat) : option json :=
    first_some (fun p => match snd p with CallWritten k' f => if Nat.eqb k k' then Some f else None | _ => None end) (log st).

  Definition outcome_of (st : state) (k : nat) : option outcome :=
    match get_caller k (callers st) with
    | Some cl => match cl_phase cl with PDone o _ => Some o | _ => None end
    | None => None
    end.

  Record exchange := mkX {
    x_call : option json;            (* the CALL frame on the wire *)
    x_events : list event;           (* what the handling endpoint did with it *)
    x_reply : option json;           (* the reply frame on the wire *)
    x_outcome : option outcome }.    (* how call() ended at the caller *)

  (* A (routes cA) calls; B (routes cB) handles; nothing else happens *)
  Definition loopback (cA cB : cfg) (uid : json) (action : string) (snake : json) (skip suppress : bool) : exchange :=
    let stA := step tbl acts errors results fresh 120 cA init (OStart 0 (Some uid) action snake skip suppress true) in
    match call_frame_of stA 0 with
    | None => mkX None [] None (outcome_of stA 0)
    | Some f =>
        let evs := route_message tbl acts cB (Loaded f) in
        match first_some reply_frame evs with
        | None => mkX (Some f) evs None (outcome_of stA 0)
        | Some g =>
            let stA' := step tbl acts errors results fresh 120 cA stA (OInbound (Loaded g)) in
            mkX (Some f) evs (Some g) (outcome_of stA' 0)
        end
    end.

  (* the relaying handler of B: forward the keywords it was given to C with call(), return C's result
     object as its own result; any failure of that call() is an exception in the handler *)
  Definition relay_handler (cB cC : cfg) (action : string) (name : string) : handler :=
    mkHandler name (mkSig [] [] true false)
              (fun kw _ =>
                 match x_outcome (loopback cB cC (JStr "relay-id") action kw false false) with
                 | Some (OResult kw') => HRet kw'
                 | Some (ORaise cls d x) => HRaiseOther
                 | _ => HRaiseOther
                 end).

  Definition relay (cA cC : cfg) (verB : version) (uid : json) (action : string) (snake : json) : exchange * exchange :=
    let cB0 := mkCfg verB [] in
    let cB := mkCfg verB [(action, mkRoute (Some (relay_handler cB0 cC action "relay")) None false)] in
    (loopback cA cB uid action snake false false,
     (* the second hop as B performs it with the keywords its handler received *)
     match first_some (fun e => match e with EvHandler _ kw _ => Some kw | _ => None end)
                      (x_events (loopback cA cB uid action snake false false)) with
     | Some kw => loopback cB0 cC (JStr "relay-id") action kw false false
     | None => mkX None [] None None
     end).
End Net.
