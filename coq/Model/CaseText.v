(* CaseText.v -- the `text` correspondence: JsonParse.loads against json.loads, FrameText.unpack_text
   against ocpp.messages.unpack, on the same texts. *)
From Coq Require Import List ZArith NArith Bool String.
From OV.Model Require Import Json JsonText JsonParse Schema Frame FrameText CaseLib CaseFrame.
Import ListNotations.
Local Open Scope string_scope.

(* exact: same constructors, same digits, same key order *)
Fixpoint json_exact (a b : json) {struct a} : bool :=
  match a, b with
  | JNull, JNull => true
  | JBool x, JBool y => Bool.eqb x y
  | JNum x, JNum y => num_eqb_strict x y
  | JStr x, JStr y => String.eqb x y
  | JArr la, JArr lb =>
      (fix go (la lb : list json) : bool :=
         match la, lb with
         | [], [] => true
         | x :: ra, y :: rb => json_exact x y && go ra rb
         | _, _ => false
         end) la lb
  | JObj la, JObj lb =>
      (fix go (la lb : list (string * json)) : bool :=
         match la, lb with
         | [], [] => true
         | (k, x) :: ra, (k', y) :: rb => String.eqb k k' && json_exact x y && go ra rb
         | _, _ => false
         end) la lb
  | _, _ => false
  end.

Inductive texp := TValue (j : json) | TError | TRecursion.

(* tc_class: what the real unpack did with the text (classes of CaseFrame.class_of) *)
Record tcase := mkT { tc_limit : nat; tc_text : string; tc_exp : texp; tc_class : nat }.

Definition tagree (c : tcase) : bool :=
  (match loads (tc_limit c) (tc_text c), tc_exp c with
   | LValue v, TValue w => json_exact v w
   | LError, TError => true
   | LRecursion, TRecursion => true
   | _, _ => false
   end) && Nat.eqb (class_of (unpack_text (tc_limit c) (tc_text c))) (tc_class c).
Definition tdisagreements (cs : list tcase) : list N := bad tagree cs 0%N.

(* printing: json.dumps(value, separators=(",", ":")) against print_compact, and back through loads *)
Record dcase := mkD { dc_value : json; dc_text : string }.
Definition dagree (c : dcase) : bool :=
  String.eqb (print_compact (dc_value c)) (dc_text c) &&
  match loads 1000 (dc_text c) with LValue v => json_exact v (dc_value c) | _ => false end.
Definition ddisagreements (cs : list dcase) : list N := bad dagree cs 0%N.

(* Decimal mode: json.loads(text, parse_float=Decimal, parse_constant=Decimal) *)
Record mcase := mkM { mc_limit : nat; mc_text : string; mc_exp : texp }.
Definition magree (c : mcase) : bool :=
  match loads_mode FDecimal (mc_limit c) (mc_text c), mc_exp c with
  | LValue v, TValue w => json_exact v w
  | LError, TError => true
  | LRecursion, TRecursion => true
  | _, _ => false
  end.
Definition mdisagreements (cs : list mcase) : list N := bad magree cs 0%N.
