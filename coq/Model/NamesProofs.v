(* NamesProofs.v -- renaming the keys of a payload tree there and back. *)
From Coq Require Import List ZArith Bool String Ascii Lia.
From OV.Model Require Import Json Names SchemaProofs.
Import ListNotations.

(* every object of the tree has pairwise different keys (true of anything json.loads or asdict produced) *)
Fixpoint wf_keys (j : json) : Prop :=
  match j with
  | JArr l => (fix all (l : list json) : Prop := match l with [] => True | x :: r => wf_keys x /\ all r end) l
  | JObj l => NoDup (keys l) /\
              (fix all (l : list (string * json)) : Prop :=
                 match l with [] => True | (_, x) :: r => wf_keys x /\ all r end) l
  | _ => True
  end.

Lemma dict_set_fresh k v acc : ~ In k (keys acc) -> dict_set k v acc = acc ++ [(k, v)].
Proof.
  induction acc as [|[k' v'] r IH]; simpl; intros H; [reflexivity|].
  destruct (String.eqb k k') eqn:E.
  - apply String.eqb_eq in E. subst. exfalso. apply H. left. reflexivity.
  - f_equal. apply IH. intros Hin. apply H. right. exact Hin.
Qed.

Lemma fold_dict_set_nodup l : forall acc,
  NoDup (keys acc ++ keys l) ->
  fold_left (fun a kv => dict_set (fst kv) (snd kv) a) l acc = acc ++ l.
Proof.
  induction l as [|[k v] r IH]; intros acc ND; simpl.
  - rewrite app_nil_r. reflexivity.
  - rewrite dict_set_fresh.
    + rewrite IH.
      * rewrite <- app_assoc. reflexivity.
      * unfold keys in *. rewrite map_app. simpl. rewrite <- app_assoc. simpl. exact ND.
    + unfold keys in ND. simpl in ND. apply NoDup_remove_2 in ND. intros Hin. apply ND. apply in_or_app. left. exact Hin.
Qed.

Lemma dict_norm_nodup l : NoDup (keys l) -> dict_norm l = l.
Proof. intros ND. unfold dict_norm. rewrite fold_dict_set_nodup; [reflexivity | exact ND]. Qed.

Definition rekey_pairs (f : string -> string) (l : list (string * json)) : list (string * json) :=
  map (fun kv => (f (fst kv), rekey f (snd kv))) l.

Lemma rekey_obj f l : rekey f (JObj l) = JObj (dict_norm (rekey_pairs f l)).
Proof.
  simpl. f_equal. f_equal. unfold rekey_pairs.
  induction l as [|[k v] r IH]; [reflexivity|]. simpl. f_equal. exact IH.
Qed.

Lemma keys_rekey_pairs f l : keys (rekey_pairs f l) = map f (keys l).
Proof. unfold rekey_pairs, keys. rewrite !map_map. reflexivity. Qed.

Lemma NoDup_map_inj {A B} (f : A -> B) (g : B -> A) l :
  (forall x, In x l -> g (f x) = x) -> NoDup l -> NoDup (map f l).
Proof.
  intros Hg ND. induction ND as [|x r Hx ND IH]; simpl; [constructor|].
  constructor.
  - intros Hin. apply in_map_iff in Hin. destruct Hin as [y [Hy Hiny]].
    assert (y = x). { rewrite <- (Hg y (or_intror Hiny)), <- (Hg x (or_introl eq_refl)). rewrite Hy. reflexivity. }
    subst. contradiction.
  - apply IH. intros y Hy. apply Hg. right. exact Hy.
Qed.

(* all keys of all objects at every depth *)
Lemma all_keys_obj l : all_keys (JObj l) = flat_map (fun kv => fst kv :: all_keys (snd kv)) l.
Proof. reflexivity. Qed.

(* renaming with f and back with g restores the tree, provided g undoes f on every key that occurs *)
Theorem rekey_roundtrip f g : forall j,
  wf_keys j -> (forall k, In k (all_keys j) -> g (f k) = k) -> rekey g (rekey f j) = j.
Proof.
  induction j as [| b | n | s | l IH | l IH] using json_ind'; intros Hwf Hk; try reflexivity.
  - simpl. f_equal. rewrite map_map.
    induction l as [|x r IHr]; [reflexivity|]. simpl. inversion IH as [|y t Hx Hr]; subst.
    simpl in Hwf. destruct Hwf as [Hwx Hwr]. f_equal.
    + apply Hx; [exact Hwx|]. intros k Hin. apply Hk. simpl. apply in_or_app. left. exact Hin.
    + apply IHr; [exact Hr | exact Hwr|]. intros k Hin. apply Hk. simpl. apply in_or_app. right. exact Hin.
  - destruct Hwf as [ND Hall].
    rewrite rekey_obj. rewrite (dict_norm_nodup (rekey_pairs f l)).
    2:{ rewrite keys_rekey_pairs. apply (NoDup_map_inj f g); [|exact ND].
        intros k Hin. apply Hk. rewrite all_keys_obj. apply in_flat_map.
        unfold keys in Hin. apply in_map_iff in Hin. destruct Hin as [[k' v] [<- Hkv]].
        exists (k', v). split; [exact Hkv | left; reflexivity]. }
    rewrite rekey_obj.
    assert (Hpairs : rekey_pairs g (rekey_pairs f l) = l).
    { unfold rekey_pairs. rewrite map_map. simpl.
      clear ND. induction l as [|[k v] r IHr]; [reflexivity|]. simpl.
      inversion IH as [|y t Hx Hr]; subst. simpl in Hx. destruct Hall as [Hwv Hwr]. f_equal.
      - f_equal.
        + apply Hk. rewrite all_keys_obj. simpl. left. reflexivity.
        + apply Hx; [exact Hwv|]. intros k0 Hin. apply Hk. rewrite all_keys_obj. simpl. right. apply in_or_app. left. exact Hin.
      - apply IHr; [exact Hr | exact Hwr|]. intros k0 Hin. apply Hk. rewrite all_keys_obj in *. simpl. right.
        apply in_or_app. right. exact Hin. }
    rewrite Hpairs. rewrite (dict_norm_nodup l ND). reflexivity.
Qed.

(* ---- remove_nones commutes with key renaming (when the renaming keeps keys apart) ---- *)
Definition rn_pairs (l : list (string * json)) : list (string * json) :=
  map (fun kv => (fst kv, remove_nones (snd kv))) (filter (fun kv => negb (is_null (snd kv))) l).

Lemma remove_nones_obj l : remove_nones (JObj l) = JObj (rn_pairs l).
Proof.
  simpl. f_equal. unfold rn_pairs. induction l as [|[k v] r IH]; [reflexivity|]. simpl.
  destruct (is_null v); simpl; [exact IH | f_equal; exact IH].
Qed.

Lemma remove_nones_arr l :
  remove_nones (JArr l) = JArr (map remove_nones (filter (fun v => negb (is_null v)) l)).
Proof.
  simpl. f_equal. induction l as [|v r IH]; [reflexivity|]. simpl.
  destruct (is_null v); simpl; [exact IH | f_equal; exact IH].
Qed.

Lemma is_null_rekey f j : is_null (rekey f j) = is_null j.
Proof. destruct j; reflexivity. Qed.

Lemma keys_rn_pairs_sub l k : In k (keys (rn_pairs l)) -> In k (keys l).
Proof.
  unfold rn_pairs, keys. rewrite map_map. simpl. intros H. apply in_map_iff in H.
  destruct H as [[k' v] [<- Hin]]. apply filter_In in Hin. destruct Hin as [Hin _].
  apply in_map_iff. exists (k', v). split; [reflexivity | exact Hin].
Qed.

Lemma NoDup_keys_rn_pairs l : NoDup (keys l) -> NoDup (keys (rn_pairs l)).
Proof.
  unfold rn_pairs, keys. rewrite map_map. simpl.
  induction l as [|[k v] r IH]; simpl; intros ND; [constructor|].
  inversion ND as [|x t Hx ND']; subst. destruct (is_null v); simpl; [apply IH; exact ND'|].
  constructor; [|apply IH; exact ND'].
  intros Hin. apply Hx. apply in_map_iff in Hin. destruct Hin as [[k' v'] [<- Hin]].
  apply filter_In in Hin. destruct Hin as [Hin _]. apply in_map_iff. exists (k', v'). split; [reflexivity | exact Hin].
Qed.

Theorem remove_nones_rekey f g : forall j,
  wf_keys j -> (forall k, In k (all_keys j) -> g (f k) = k) ->
  remove_nones (rekey f j) = rekey f (remove_nones j).
Proof.
  induction j as [| b | n | s | l IH | l IH] using json_ind'; intros Hwf Hk; try reflexivity.
  - change (rekey f (JArr l)) with (JArr (map (rekey f) l)). rewrite !remove_nones_arr.
    change (rekey f (JArr ?x)) with (JArr (map (rekey f) x)). simpl. f_equal.
    induction l as [|x r IHr]; [reflexivity|]. inversion IH as [|y t Hx Hr]; subst.
    simpl in Hwf. destruct Hwf as [Hwx Hwr]. simpl. rewrite is_null_rekey.
    assert (Hrest : map remove_nones (filter (fun v => negb (is_null v)) (map (rekey f) r)) =
                    map (rekey f) (map remove_nones (filter (fun v => negb (is_null v)) r))).
    { apply IHr; [exact Hr | exact Hwr|]. intros k Hin. apply Hk. simpl. apply in_or_app. right. exact Hin. }
    destruct (is_null x); simpl; [exact Hrest|]. f_equal; [|exact Hrest].
    apply Hx; [exact Hwx|]. intros k Hin. apply Hk. simpl. apply in_or_app. left. exact Hin.
  - destruct Hwf as [ND Hall].
    assert (Hkeys : forall k, In k (keys l) -> g (f k) = k).
    { intros k Hin. apply Hk. rewrite all_keys_obj. apply in_flat_map.
      unfold keys in Hin. apply in_map_iff in Hin. destruct Hin as [[k' v] [<- Hkv]].
      exists (k', v). split; [exact Hkv | left; reflexivity]. }
    rewrite rekey_obj. rewrite (dict_norm_nodup (rekey_pairs f l)).
    2:{ rewrite keys_rekey_pairs. apply (NoDup_map_inj f g); assumption. }
    rewrite !remove_nones_obj. rewrite rekey_obj.
    rewrite (dict_norm_nodup (rekey_pairs f (rn_pairs l))).
    2:{ rewrite keys_rekey_pairs. apply (NoDup_map_inj f g).
        - intros k Hin. apply Hkeys. apply keys_rn_pairs_sub. exact Hin.
        - apply NoDup_keys_rn_pairs. exact ND. }
    f_equal. unfold rn_pairs, rekey_pairs. clear ND Hkeys.
    induction l as [|[k v] r IHr]; [reflexivity|]. inversion IH as [|y t Hx Hr]; subst. simpl in Hx.
    destruct Hall as [Hwv Hwr]. simpl. rewrite is_null_rekey.
    assert (Hrest : map (fun kv => (fst kv, remove_nones (snd kv)))
                        (filter (fun kv => negb (is_null (snd kv))) (map (fun kv => (f (fst kv), rekey f (snd kv))) r)) =
                    map (fun kv => (f (fst kv), rekey f (snd kv)))
                        (map (fun kv => (fst kv, remove_nones (snd kv))) (filter (fun kv => negb (is_null (snd kv))) r))).
    { apply IHr; [exact Hr | exact Hwr|]. intros k0 Hin. apply Hk. rewrite all_keys_obj in *. simpl. right.
      apply in_or_app. right. exact Hin. }
    destruct (is_null v); simpl; [exact Hrest|]. f_equal; [|exact Hrest]. f_equal.
    apply Hx; [exact Hwv|]. intros k0 Hin. apply Hk. rewrite all_keys_obj. simpl. right. apply in_or_app. left. exact Hin.
Qed.

(* ---- remove_nones keeps well-formedness and introduces no key ---- *)
Lemma all_keys_arr l : all_keys (JArr l) = flat_map all_keys l.
Proof. reflexivity. Qed.

Lemma all_keys_remove_nones : forall j k, In k (all_keys (remove_nones j)) -> In k (all_keys j).
Proof.
  induction j as [| b | n | s | l IH | l IH] using json_ind'; intros k Hin; try exact Hin.
  - rewrite remove_nones_arr in Hin. rewrite all_keys_arr in *. apply in_flat_map in Hin.
    destruct Hin as [x [Hx Hk]]. apply in_map_iff in Hx. destruct Hx as [y [<- Hy]].
    apply filter_In in Hy. destruct Hy as [Hy _]. apply in_flat_map. exists y. split; [exact Hy|].
    rewrite Forall_forall in IH. apply IH; assumption.
  - rewrite remove_nones_obj in Hin. rewrite all_keys_obj in *. apply in_flat_map in Hin.
    destruct Hin as [[k' v'] [Hx Hk]]. unfold rn_pairs in Hx. apply in_map_iff in Hx.
    destruct Hx as [[k2 v2] [Heq Hy]]. simpl in Heq. injection Heq as <- <-.
    apply filter_In in Hy. destruct Hy as [Hy _]. apply in_flat_map. exists (k2, v2). split; [exact Hy|].
    simpl in *. destruct Hk as [Hk|Hk]; [left; exact Hk | right].
    rewrite Forall_forall in IH. apply (IH (k2, v2) Hy). exact Hk.
Qed.

Lemma wf_keys_arr l : wf_keys (JArr l) <-> Forall wf_keys l.
Proof.
  simpl. induction l as [|x r IH]; simpl.
  - split; [constructor | auto].
  - rewrite IH. split; [intros [A B]; constructor; assumption | intros H; inversion H; auto].
Qed.

Lemma wf_keys_obj l : wf_keys (JObj l) <-> NoDup (keys l) /\ Forall (fun kv => wf_keys (snd kv)) l.
Proof.
  simpl. split; intros [ND H]; split; try exact ND.
  - induction l as [|[k v] r IH]; [constructor|]. destruct H as [A B]. constructor; [exact A|].
    apply IH; [|exact B]. unfold keys in *. simpl in ND. inversion ND; assumption.
  - induction l as [|[k v] r IH]; [exact I|]. inversion H as [|y t A B]; subst. split; [exact A|].
    apply IH; [|exact B]. unfold keys in *. simpl in ND. inversion ND; assumption.
Qed.

Lemma wf_keys_remove_nones : forall j, wf_keys j -> wf_keys (remove_nones j).
Proof.
  induction j as [| b | n | s | l IH | l IH] using json_ind'; intros Hwf; try exact Hwf.
  - rewrite remove_nones_arr. apply wf_keys_arr. apply wf_keys_arr in Hwf.
    rewrite Forall_forall in *. intros x Hx. apply in_map_iff in Hx. destruct Hx as [y [<- Hy]].
    apply filter_In in Hy. destruct Hy as [Hy _]. apply IH; [exact Hy | apply Hwf; exact Hy].
  - rewrite remove_nones_obj. apply wf_keys_obj. apply wf_keys_obj in Hwf. destruct Hwf as [ND Hall]. split.
    + apply NoDup_keys_rn_pairs. exact ND.
    + rewrite Forall_forall in *. intros [k v] Hx. unfold rn_pairs in Hx. apply in_map_iff in Hx.
      destruct Hx as [[k2 v2] [Heq Hy]]. simpl in Heq. injection Heq as <- <-.
      apply filter_In in Hy. destruct Hy as [Hy _]. simpl. apply (IH (k2, v2) Hy). apply (Hall (k2, v2) Hy).
Qed.

(* The object a caller or a handler built (as asdict gives it, keys d), sent and received:
   rename to the wire names, drop the Nones, rename back -- what arrives is the object without
   its Nones, provided the two name functions undo each other on the keys that occur. *)
Theorem sent_then_received (f g : string -> string) d :
  wf_keys d -> (forall k, In k (all_keys d) -> g (f k) = k) ->
  rekey g (remove_nones (rekey f d)) = remove_nones d.
Proof.
  intros Hwf Hk. rewrite (remove_nones_rekey f g d Hwf Hk).
  apply rekey_roundtrip; [apply wf_keys_remove_nones; exact Hwf|].
  intros k Hin. apply Hk. apply all_keys_remove_nones. exact Hin.
Qed.

(* the same with the Nones dropped first (the handler-result path) *)
Theorem received_then_sent (f g : string -> string) d :
  wf_keys d -> (forall k, In k (all_keys d) -> g (f k) = k) ->
  rekey g (rekey f (remove_nones d)) = remove_nones d.
Proof.
  intros Hwf Hk. apply rekey_roundtrip; [apply wf_keys_remove_nones; exact Hwf|].
  intros k Hin. apply Hk. apply all_keys_remove_nones. exact Hin.
Qed.
