(* Dispatch.v -- ChargePoint.route_message / _handle_call for one inbound frame, and the
   receive loop start().  Follows the code branch by branch; every try/except and every
   raise site is a branch here. *)
From Coq Require Import List ZArith Bool String Ascii.
From OV.Model Require Import Json Names Schema Validate Frame Vocab.
Import ListNotations.
Local Open Scope string_scope.

(* handler( **kwargs ): which keyword sets the handler's signature accepts *)
Record hsig := mkSig {
  hs_required : list string;      (* parameters without default (self excluded) *)
  hs_optional : list string;      (* parameters with default *)
  hs_varkw : bool;                (* has **kwargs *)
  hs_uid : bool }.                (* declares call_unique_id *)

Definition binds (sg : hsig) (kw : json) : bool :=
  match kw with
  | JObj l =>
      let ks := keys l in
      subset (hs_required sg) ks
      && (hs_varkw sg || subset ks (hs_required sg ++ hs_optional sg))
      && negb (hs_uid sg && mem "call_unique_id" ks)
  | _ => false                    (* double-star applied to something that is not a mapping *)
  end.

Inductive h_out :=
| HRet (snake : json)             (* a dataclass instance; [snake] is its asdict() *)
| HRaiseOCPP (code descr : string) (details : json)
| HRaiseOther                     (* any other Exception, whatever its text *)
| HRetBad.                        (* returns something that is not a dataclass instance *)

Record handler := mkHandler { h_name : string; h_sig : hsig; h_run : json -> option json -> h_out }.
Record hook := mkHook { k_name : string; k_sig : hsig }.
Record route := mkRoute { r_on : option handler; r_after : option hook; r_skip : bool }.
Record cfg := mkCfg { c_ver : version; c_routes : list (string * route) }.

Inductive event :=
| EvHandler (name : string) (kwargs : json) (uid : option json)
| EvAfter (name : string) (kwargs : json) (uid : option json)
| EvResult (id payload : json)                       (* [3,id,payload] written *)
| EvError (id : json) (codes : list string) (exact : option (string * json))
      (* [4,id,code,descr,details] written, code one of [codes]; description and details
         when the model determines them *)
| EvEnqueue (m : msg)                                (* handed to the response queue *)
| EvWriteFailed                                      (* connection.send raised while writing the reply *)
| EvEscape.                                          (* an exception leaves route_message *)

Definition internal_error : option (string * json) :=
  Some ("An unexpected error occurred.", JObj []).

(* _DecimalEncoder: float("%.1f" % d) for a Decimal d; identity when d has at most one
   fractional digit, decimal half-even rounding otherwise (ties follow the binary value in
   CPython and are excluded from the correspondences). *)
Local Open Scope Z_scope.
Definition round1 (m e : Z) : Z * Z :=
  if e >=? -1 then (m, e)
  else
    let d := 10 ^ (- e - 1) in
    let q := m / d in
    let r := m mod d in
    let q' := if 2 * r <? d then q else if 2 * r >? d then q + 1 else if Z.even q then q else q + 1 in
    (q', -1).
Local Close Scope Z_scope.

Fixpoint encode (j : json) : json :=
  match j with
  | JNum (NDec m e FDecimal) => let (m', e') := round1 m e in JNum (NDec m' e' FFloat)
  | JArr l => JArr (map encode l)
  | JObj l => JObj (map (fun kv => (fst kv, encode (snd kv))) l)
  | _ => j
  end.

(* ---- observations used by the property statements ---- *)
Definition is_reply (e : event) : bool :=
  match e with EvResult _ _ | EvError _ _ _ => true | _ => false end.
Definition reply_id (e : event) : option json :=
  match e with EvResult id _ | EvError id _ _ => Some id | _ => None end.
Definition is_escape (e : event) : bool := match e with EvEscape => true | _ => false end.
Definition is_handler (e : event) : bool := match e with EvHandler _ _ _ => true | _ => false end.
Definition is_after (e : event) : bool := match e with EvAfter _ _ _ => true | _ => false end.

Section Dispatch.
  Variable tbl : version -> list (string * schema).
  Variable acts : version -> list string.

  (* _raise_key_error *)
  Definition key_error_code (v : version) (action : json) : string :=
    match action with
    | JStr a => if mem a (acts v) then "NotImplemented" else "NotSupported"
    | _ => "NotSupported"
    end.

  Definition lookup_route (c : cfg) (action : json) : option (string * route) :=
    match action with
    | JStr a => match assoc a (c_routes c) with Some r => Some (a, r) | None => None end
    | _ => None                   (* not a key of the route map (unhashable ones included) *)
    end.

  Definition eff_skip (r : route) : bool :=
    match r_on r with Some _ => r_skip r | None => false end.

  Definition after_events (r : route) (id kw : json) : list event :=
    match r_after r with
    | None => []
    | Some k =>
        if binds (k_sig k) kw
        then [EvAfter (k_name k) kw (if hs_uid (k_sig k) then Some id else None)]
        else []                   (* TypeError from the call: logged *)
    end.

  Definition reject_events (id : json) (v : vresult) : list event :=
    match v with
    | VReject codes false => [EvError id (map code_name codes) None]
    | VNoSchema => [EvError id ["NotImplemented"] None]
    | _ => [EvEscape]
    end.

  Definition handle_call (c : cfg) (id action payload : json) : list event :=
    let ver := c_ver c in
    match lookup_route c action with
    | None => [EvError id [key_error_code ver action] None]
    | Some (a, r) =>
        let skip := eff_skip r in
        match (if skip then VAccept payload else validate tbl ver MCall a payload) with
        | VAccept p =>
            let kw := c2s_keys p in
            match r_on r with
            | None => [EvError id [key_error_code ver action] None]
            | Some h =>
                let uid := if hs_uid (h_sig h) then Some id else None in
                if negb (binds (h_sig h) kw) then [EvError id ["InternalError"] internal_error]
                else
                  EvHandler (h_name h) kw uid ::
                  match h_run h kw uid with
                  | HRaiseOCPP code d x => [EvError id [code] (Some (d, x))]
                  | HRaiseOther => [EvError id ["InternalError"] internal_error]
                  | HRetBad => [EvEscape]
                  | HRet obj =>
                      let wire := s2c_keys (remove_nones obj) in
                      match (if skip then VAccept wire else validate tbl ver MCallResult a wire) with
                      | VAccept w => EvResult id (encode w) :: after_events r id kw
                      | v => reject_events id v
                      end
                  end
            end
        | v => reject_events id v
        end
    end.

  Definition route_message (c : cfg) (lo : loads_outcome) : list event :=
    match unpack lo with
    | UErr _ => []
    | UMsg (Call id a p) => handle_call c id a p
    | UMsg m => [EvEnqueue m]
    end.

  (* the same when the connection refuses the write of the reply: the exception of send() is not
     an OCPPError, nothing catches it, and nothing after the write happens (no after-hook) *)
  Fixpoint cut_at_reply (evs : list event) : list event :=
    match evs with
    | [] => []
    | e :: r => if is_reply e then [EvWriteFailed; EvEscape] else e :: cut_at_reply r
    end.
  Definition route_message_io (send_ok : bool) (c : cfg) (lo : loads_outcome) : list event :=
    if send_ok then route_message c lo else cut_at_reply (route_message c lo).

  (* start(): frames in arrival order, one at a time, until recv raises or a frame's
     processing lets an exception escape *)
  Inductive loop_event :=
  | LRecv (i : nat)
  | LEv (e : event)
  | LEnd (by_recv : bool).        (* true: recv raised, that exception propagates *)

  Fixpoint start_from (c : cfg) (frames : list loads_outcome) (i : nat) : list loop_event :=
    match frames with
    | [] => [LRecv i; LEnd true]
    | f :: r =>
        let evs := route_message c f in
        LRecv i :: map LEv evs ++
        (if existsb is_escape evs
         then [LEnd false]
         else start_from c r (S i))
    end.
  Definition start (c : cfg) (frames : list loads_outcome) := start_from c frames 0.
End Dispatch.

(* schemas whose evaluation cannot raise a foreign exception in mode [sm] *)
Fixpoint crash_free_s (sm : mode) (s : schema) : bool :=
  match s with
  | Sch _ _ _ props _ _ items _ _ _ _ mo =>
      match mo with
      | None => true
      | Some (NDec mb _ _) => mode_eqb sm MDecimal && negb (Z.eqb mb 0)
      | Some _ => false
      end
      && (fix go (ps : list (string * schema)) : bool :=
            match ps with [] => true | (_, sub) :: r => crash_free_s sm sub && go r end) props
      && match items with Some it => crash_free_s sm it | None => true end
  end.

(* scripted handlers of the correspondence case files *)
Definition const_handler (name : string) (sg : hsig) (out : h_out) : handler :=
  mkHandler name sg (fun _ _ => out).
