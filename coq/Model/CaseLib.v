(* CaseLib.v -- helpers for the generated correspondence case files. *)
From Coq Require Import List NArith Bool String.
Import ListNotations.

(* indices (from i) of the elements that do not satisfy f *)
Fixpoint bad {A} (f : A -> bool) (l : list A) (i : N) : list N :=
  match l with
  | [] => []
  | x :: r => if f x then bad f r (N.succ i) else i :: bad f r (N.succ i)
  end.
