(* Endpoint.v -- ChargePoint.call(): request validation, the send gate (asyncio.Lock, FIFO),
   the response queue, correlation by unique id, the response timeout on a virtual clock,
   cancellation, and inbound traffic.  One [op] is processed to quiescence, exactly how the
   harness drives the real event loop. *)
From Coq Require Import List ZArith Bool String Ascii.
From OV.Model Require Import Json Names Schema Validate Frame Vocab Classes Dispatch.
Import ListNotations.
Local Open Scope string_scope.
Local Open Scope Z_scope.

Inductive outcome :=
| OResult (kwargs : json)                 (* call_result.<Action>( **kwargs ) is returned *)
| ONone                                   (* a CALLERROR, suppressed *)
| ORaise (cls : string) (descr : json) (details : json)   (* to_exception() of the CALLERROR *)
| OUnknownCode                            (* UnknownCallErrorCodeError *)
| OInvalid (codes : list ocode)           (* the request or the response failed validation *)
| OTimeout
| OSendFail                               (* connection.send raised for the CALL *)
| OCancelled
| OCrash.                                 (* any other exception out of call() *)

Inductive phase :=
| PWaitLock
| PWaiting (deadline : Z)
| PDone (o : outcome) (at_time : Z).

Inductive why := WMatched | WTimeout | WSendFail | WCancelled.

Inductive obs :=
| CallWritten (k : nat) (frame : json)
| Released (k : nat) (w : why)
| Delivered (k : nat) (m : msg)           (* the reply handed to caller k *)
| Discarded (m : msg)                     (* a reply dropped by the waiting caller *)
| Disp (e : event).                       (* processing of an inbound CALL *)

Record caller := mkCaller {
  cl_uid : json;
  cl_action : string;
  cl_wire : json;              (* payload of the CALL frame *)
  cl_skip : bool;
  cl_suppress : bool;
  cl_send_ok : bool;
  cl_phase : phase }.

Record state := mkState {
  now : Z;
  queue : list msg;
  holder : option nat;
  waiters : list nat;
  callers : list (nat * caller);
  log : list (Z * obs);        (* newest first *)
  fresh_n : nat }.

Inductive op :=
| OStart (k : nat) (uid : option json) (action : string) (snake : json) (skip suppress send_ok : bool)
| OInbound (lo : loads_outcome)
| OTick (dt : Z)
| OCancel (k : nat).

Definition init : state := mkState 0 [] None [] [] [] 0.

Fixpoint set_caller (k : nat) (c : caller) (l : list (nat * caller)) : list (nat * caller) :=
  match l with
  | [] => [(k, c)]
  | (k', c') :: r => if Nat.eqb k k' then (k, c) :: r else (k', c') :: set_caller k c r
  end.
Fixpoint get_caller (k : nat) (l : list (nat * caller)) : option caller :=
  match l with
  | [] => None
  | (k', c) :: r => if Nat.eqb k k' then Some c else get_caller k r
  end.

Definition with_phase (c : caller) (p : phase) : caller :=
  mkCaller (cl_uid c) (cl_action c) (cl_wire c) (cl_skip c) (cl_suppress c) (cl_send_ok c) p.

Definition msg_id (m : msg) : json :=
  match m with Call i _ _ | CallResult i _ _ | CallError i _ _ _ => i end.

Section Endpoint.
  Variable tbl : version -> list (string * schema).
  Variable acts : version -> list string.
  Variable errors : list (string * string * string).     (* class, code, default description *)
  Variable results : version -> list classdef.
  Variable fresh : nat -> string.                         (* str(uuid4()) *)
  Variable timeout : Z.
  Variable c : cfg.                                       (* routes for inbound CALLs; version *)

  Definition ver := c_ver c.

  Definition put_log (st : state) (o : obs) : state :=
    mkState (now st) (queue st) (holder st) (waiters st) (callers st) ((now st, o) :: log st) (fresh_n st).
  Definition set_phase (st : state) (k : nat) (p : phase) : state :=
    match get_caller k (callers st) with
    | Some cl => mkState (now st) (queue st) (holder st) (waiters st)
                         (set_caller k (with_phase cl p) (callers st)) (log st) (fresh_n st)
    | None => st
    end.
  Definition set_holder (st : state) (h : option nat) : state :=
    mkState (now st) (queue st) h (waiters st) (callers st) (log st) (fresh_n st).
  Definition set_queue (st : state) (q : list msg) : state :=
    mkState (now st) q (holder st) (waiters st) (callers st) (log st) (fresh_n st).
  Definition set_waiters (st : state) (w : list nat) : state :=
    mkState (now st) (queue st) (holder st) w (callers st) (log st) (fresh_n st).
  Definition set_now (st : state) (t : Z) : state :=
    mkState t (queue st) (holder st) (waiters st) (callers st) (log st) (fresh_n st).

  (* CallError.to_exception *)
  Definition to_exception (code descr : json) (details : option json) : outcome :=
    match code with
    | JStr cd =>
        match find (fun e => String.eqb (snd (fst e)) cd) errors with
        | Some (cls, _, dflt) =>
            ORaise cls (match descr with JNull => JStr dflt | d => d end)
                   (match details with None | Some JNull => JObj [] | Some x => x end)
        | None => OUnknownCode
        end
    | _ => OUnknownCode
    end.

  (* cls( **kwargs ) for the result class of the action *)
  Definition construct (action : string) (kw : json) : bool :=
    match find_class action (results ver), kw with
    | Some cl, JObj l =>
        let ks := keys l in
        subset ks (map f_name (c_fields cl))
        && subset (map f_name (filter (fun f => match f_default f with NoDefault => true | _ => false end) (c_fields cl))) ks
    | _, _ => false
    end.

  (* what call() does with the response it was handed *)
  Definition complete (cl : caller) (m : msg) : outcome :=
    match m with
    | CallError _ code descr details =>
        if cl_suppress cl then ONone else to_exception code descr details
    | CallResult _ payload _ =>
        let v := if cl_skip cl then VAccept payload else validate tbl ver MCallResult (cl_action cl) payload in
        match v with
        | VAccept p =>
            let kw := c2s_keys p in
            if construct (cl_action cl) kw then OResult kw else OCrash
        | VReject codes false => OInvalid codes
        | VNoSchema => OInvalid [CNotImplemented]
        | _ => OCrash
        end
    | Call _ _ _ => OCrash        (* never enqueued *)
    end.

  (* caller k, holding the gate, writes its CALL *)
  Definition do_send (st : state) (k : nat) : state :=
    match get_caller k (callers st) with
    | None => st
    | Some cl =>
        if cl_send_ok cl then
          let frame := JArr [JNum (NInt 2); cl_uid cl; JStr (cl_action cl); encode (cl_wire cl)] in
          set_phase (set_holder (put_log st (CallWritten k frame)) (Some k)) k (PWaiting (now st + timeout))
        else
          set_phase (set_holder (put_log st (Released k WSendFail)) None) k (PDone OSendFail (now st))
    end.

  (* run until nothing more can happen at the current instant: the free gate goes to the first
     waiter; the waiting holder takes queued replies one by one *)
  Fixpoint settle (fuel : nat) (st : state) : state :=
    match fuel with
    | O => st
    | S f =>
        match holder st with
        | None =>
            match waiters st with
            | [] => st
            | k :: ws => settle f (do_send (set_waiters st ws) k)
            end
        | Some k =>
            match get_caller k (callers st) with
            | Some cl =>
                match cl_phase cl, queue st with
                | PWaiting d, m :: q =>
                    let st1 := set_queue st q in
                    if py_eqb (msg_id m) (cl_uid cl) then
                      settle f (set_phase (set_holder (put_log (put_log st1 (Delivered k m)) (Released k WMatched)) None)
                                          k (PDone (complete cl m) (now st)))
                    else
                      let st2 := put_log st1 (Discarded m) in
                      if d - now st <=? 0 then
                        settle f (set_phase (set_holder (put_log st2 (Released k WTimeout)) None) k (PDone OTimeout (now st)))
                      else settle f st2
                | _, _ => st
                end
            | None => st
            end
        end
    end.

  Definition fuel_of (st : state) : nat := S (S (List.length (queue st) + List.length (waiters st))).
  Definition quiesce (st : state) : state := settle (fuel_of st) st.

  (* the clock advances to [target]; response timeouts on the way fire at their deadline *)
  Fixpoint advance (fuel : nat) (target : Z) (st : state) : state :=
    match fuel with
    | O => st          (* out of fuel: the clock does not move (never reached: one unit per caller) *)
    | S f =>
        match holder st with
        | Some k =>
            match get_caller k (callers st) with
            | Some cl =>
                match cl_phase cl with
                | PWaiting d =>
                    if d <=? target then
                      let st1 := set_now st (Z.max d (now st)) in
                      advance f target
                              (quiesce (set_phase (set_holder (put_log st1 (Released k WTimeout)) None) k
                                                  (PDone OTimeout (now st1))))
                    else set_now st target
                | _ => set_now st target
                end
            | None => set_now st target
            end
        | None => set_now st target
        end
    end.

  Definition bump_fresh (st : state) : state :=
    mkState (now st) (queue st) (holder st) (waiters st) (callers st) (log st) (S (fresh_n st)).
  Definition add_caller (st : state) (k : nat) (cl : caller) : state :=
    mkState (now st) (queue st) (holder st) (waiters st) (set_caller k cl (callers st)) (log st) (fresh_n st).

  (* call() once the unique id is known *)
  Definition start_with (st : state) (k : nat) (uid : json) (action : string) (snake : json)
             (skip suppress send_ok : bool) : state :=
    let wire := remove_nones (s2c_keys snake) in
    let v := if skip then VAccept wire else validate tbl ver MCall action wire in
    let mk p w := mkCaller uid action w skip suppress send_ok p in
    match v with
    | VAccept w =>
        match holder st, waiters st with
        | None, [] => quiesce (do_send (add_caller st k (mk PWaitLock w)) k)
        | _, _ => set_waiters (add_caller st k (mk PWaitLock w)) (waiters st ++ [k])
        end
    | VReject codes false => add_caller st k (mk (PDone (OInvalid codes) (now st)) wire)
    | VNoSchema => add_caller st k (mk (PDone (OInvalid [CNotImplemented]) (now st)) wire)
    | _ => add_caller st k (mk (PDone OCrash (now st)) wire)
    end.

  Definition step (st : state) (o : op) : state :=
    match o with
    | OStart k uid action snake skip suppress send_ok =>
        match get_caller k (callers st) with
        | Some _ => st                                    (* caller keys are used once *)
        | None =>
            match uid with
            | Some u => start_with st k u action snake skip suppress send_ok
            | None => start_with (bump_fresh st) k (JStr (fresh (fresh_n st))) action snake skip suppress send_ok
            end
        end
    | OInbound lo =>
        match unpack lo with
        | UErr _ => st
        | UMsg (Call id a p) =>
            fold_left (fun s e => put_log s (Disp e)) (handle_call tbl acts c id a p) st
        | UMsg m => quiesce (set_queue st (queue st ++ [m]))
        end
    | OTick dt =>
        if dt <=? 0 then st else advance (S (S (List.length (waiters st)))) (now st + dt) st
    | OCancel k =>
        match get_caller k (callers st) with
        | Some cl =>
            match cl_phase cl with
            | PWaitLock =>
                set_phase (set_waiters st (filter (fun x => negb (Nat.eqb x k)) (waiters st))) k
                          (PDone OCancelled (now st))
            | PWaiting _ =>
                quiesce (set_phase (set_holder (put_log st (Released k WCancelled)) None) k (PDone OCancelled (now st)))
            | PDone _ _ => st
            end
        | None => st
        end
    end.

  Definition run (ops : list op) : state := fold_left step ops init.
End Endpoint.
