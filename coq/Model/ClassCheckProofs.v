(* ClassCheckProofs.v -- what the emptiness of the problem lists means. *)
From Coq Require Import List ZArith Bool String Ascii.
From OV.Model Require Import Json Names Schema SchemaProofs Classes Vocab VocabProofs ClassCheck.
Import ListNotations.

Lemma map_filter_nil {A B} (g : A -> B) (p : A -> bool) l :
  map g (filter p l) = [] -> forall x, In x l -> p x = false.
Proof.
  intros H x Hx. destruct (p x) eqn:E; [|reflexivity].
  assert (In x (filter p l)) as Hf by (apply filter_In; split; assumption).
  destruct (filter p l); [contradiction | discriminate].
Qed.

(* the top-level clauses of C11, for one message class against its schema *)
Record ClassAgrees (c : classdef) (s : schema) : Prop := {
  ca_fields : forall f, In f (c_fields c) -> In (s2c (f_name f)) (prop_names s);
  ca_props : forall p, In p (prop_names s) -> In p (camel_fields c);
  ca_mandatory : forall f, In f (c_fields c) -> f_default f = NoDefault -> In (s2c (f_name f)) (s_required s);
  ca_omittable : forall f, In f (c_fields c) -> f_default f = DefaultNone -> ~ In (s2c (f_name f)) (s_required s) }.

Lemma class_problems_nil datas c s : class_problems datas c s = [] -> ClassAgrees c s.
Proof.
  unfold class_problems. intros H.
  apply app_eq_nil in H. destruct H as [H1 H].
  apply app_eq_nil in H. destruct H as [H2 H].
  apply app_eq_nil in H. destruct H as [H3 H].
  apply app_eq_nil in H. destruct H as [H4 _].
  constructor.
  - intros f Hf. pose proof (map_filter_nil _ _ _ H1 f Hf) as E. cbv beta in E. apply negb_false_iff in E. apply mem_In. exact E.
  - intros p Hp. pose proof (map_filter_nil _ _ _ H2 p Hp) as E. cbv beta in E. apply negb_false_iff in E. apply mem_In. exact E.
  - intros f Hf Hd. pose proof (map_filter_nil _ _ _ H3 f Hf) as E. cbv beta in E. rewrite Hd in E.
    apply negb_false_iff in E. apply mem_In. exact E.
  - intros f Hf Hd Hin. pose proof (map_filter_nil _ _ _ H4 f Hf) as E. cbv beta in E. rewrite Hd in E.
    apply mem_In in Hin. congruence.
Qed.

Lemma table_problems_nil datas suffix t cs :
  table_problems datas suffix t cs = [] ->
  forall c, In c cs -> exists s, assoc (c_name c ++ suffix)%string t = Some s /\ ClassAgrees c s
                                 /\ class_problems datas c s = [].
Proof.
  unfold table_problems. intros H c Hc.
  pose proof (proj1 (flat_map_nil_iff _ cs) H c Hc) as Hx. simpl in Hx.
  destruct (assoc (c_name c ++ suffix)%string t) as [s|]; [|discriminate].
  exists s. split; [reflexivity|]. split; [apply (class_problems_nil datas); exact Hx | exact Hx].
Qed.

(* C12: every legal wire value at an enum-annotated position is a member of the annotated class *)
Lemma missing_members_nil enums pairs :
  missing_members enums pairs = [] ->
  forall n l cls field v, In (n, l, cls, field) pairs -> In v l ->
                          exists members, assoc n enums = Some members /\ In v members.
Proof.
  unfold missing_members. intros H n l cls field v Hp Hv.
  pose proof (proj1 (flat_map_nil_iff _ pairs) H _ Hp) as Hx. simpl in Hx.
  destruct (assoc n enums) as [members|]; [|discriminate].
  exists members. split; [reflexivity|].
  pose proof (map_filter_nil _ _ _ Hx v Hv) as E. cbv beta in E. apply negb_false_iff in E. apply mem_In. exact E.
Qed.
