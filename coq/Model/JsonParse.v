(* JsonParse.v -- json.loads on a str, character by character (CPython's C scanner, strict mode):
   whitespace, literals (null true false NaN Infinity -Infinity), numbers with the int digit limit
   and IEEE-754 binary64 conversion (correctly rounded, shown by its shortest repr), strings with
   escapes and surrogate pairs, arrays, objects (later duplicate keys win, first position kept),
   the recursion limit on nesting, the BOM check and the "extra data" check.
   The text is the UTF-8 (surrogatepass) bytes of the Python str. *)
From Coq Require Import List ZArith NArith Bool String Ascii.
From OV.Model Require Import Json Digits JsonText.
Import ListNotations.
Local Open Scope string_scope.

(* ---------------------------------------------------------------- whitespace *)
Definition is_ws (c : ascii) : bool :=
  let n := N_of_ascii c in (N.eqb n 32 || N.eqb n 9 || N.eqb n 10 || N.eqb n 13)%bool.

Fixpoint skip_ws (s : string) : string :=
  match s with
  | String c r => if is_ws c then skip_ws r else s
  | EmptyString => s
  end.

(* ---------------------------------------------------------------- strings *)
Definition hexval (c : ascii) : option N :=
  let n := N_of_ascii c in
  if (N.leb 48 n && N.leb n 57)%bool then Some (n - 48)%N
  else if (N.leb 97 n && N.leb n 102)%bool then Some (n - 87)%N
  else if (N.leb 65 n && N.leb n 70)%bool then Some (n - 55)%N
  else None.

Definition hex4val (a b c d : ascii) : option N :=
  match hexval a, hexval b, hexval c, hexval d with
  | Some x, Some y, Some z, Some w => Some (x * 4096 + y * 256 + z * 16 + w)%N
  | _, _, _, _ => None
  end.

(* UTF-8 with surrogatepass: every code point below 0x110000 has an encoding *)
Definition utf8 (cp : N) : string :=
  if N.ltb cp 128 then String (ascii_of_N cp) ""
  else if N.ltb cp 2048 then
    String (ascii_of_N (192 + cp / 64)) (String (ascii_of_N (128 + cp mod 64)) "")
  else if N.ltb cp 65536 then
    String (ascii_of_N (224 + cp / 4096))
      (String (ascii_of_N (128 + (cp / 64) mod 64)) (String (ascii_of_N (128 + cp mod 64)) ""))
  else
    String (ascii_of_N (240 + cp / 262144))
      (String (ascii_of_N (128 + (cp / 4096) mod 64))
         (String (ascii_of_N (128 + (cp / 64) mod 64)) (String (ascii_of_N (128 + cp mod 64)) ""))).

Definition is_high (n : N) : bool := (N.leb 55296 n && N.leb n 56319)%bool.
Definition is_low (n : N) : bool := (N.leb 56320 n && N.leb n 57343)%bool.
Definition join_surrogates (hi lo : N) : N := (65536 + (hi - 55296) * 1024 + (lo - 56320))%N.

Definition simple_escape (c : ascii) : option ascii :=
  let n := N_of_ascii c in
  if N.eqb n 34 then Some (ascii_of_N 34)        (* quote *)
  else if N.eqb n 92 then Some (ascii_of_N 92)   (* backslash *)
  else if N.eqb n 47 then Some (ascii_of_N 47)   (* slash *)
  else if N.eqb n 98 then Some (ascii_of_N 8)    (* b *)
  else if N.eqb n 102 then Some (ascii_of_N 12)  (* f *)
  else if N.eqb n 110 then Some (ascii_of_N 10)  (* n *)
  else if N.eqb n 114 then Some (ascii_of_N 13)  (* r *)
  else if N.eqb n 116 then Some (ascii_of_N 9)   (* t *)
  else None.

Definition prepend (p : string) (r : option (string * string)) : option (string * string) :=
  match r with
  | Some (body, rest) => Some (p ++ body, rest)
  | None => None
  end.

(* after the opening quote: (content, text after the closing quote) *)
Fixpoint pstring (s : string) : option (string * string) :=
  match s with
  | EmptyString => None                                        (* unterminated *)
  | String c r =>
      let n := N_of_ascii c in
      if N.eqb n 34 then Some ("", r)
      else if N.eqb n 92 then
        match r with
        | EmptyString => None
        | String e r1 =>
            match simple_escape e with
            | Some b => prepend (String b "") (pstring r1)
            | None =>
                if N.eqb (N_of_ascii e) 117 then
                  match r1 with
                  | String a (String b (String c0 (String d r2))) =>
                      match hex4val a b c0 d with
                      | None => None
                      | Some hi =>
                          if is_high hi then
                            match r2 with
                            | String bs (String u (String a' (String b' (String c' (String d' r3))))) =>
                                if (N.eqb (N_of_ascii bs) 92 && N.eqb (N_of_ascii u) 117)%bool then
                                  match hex4val a' b' c' d' with
                                  | None => None
                                  | Some lo =>
                                      if is_low lo then prepend (utf8 (join_surrogates hi lo)) (pstring r3)
                                      else prepend (utf8 hi) (pstring r2)
                                  end
                                else prepend (utf8 hi) (pstring r2)
                            | _ => prepend (utf8 hi) (pstring r2)
                            end
                          else prepend (utf8 hi) (pstring r2)
                      end
                  | _ => None                                  (* truncated \uXXXX *)
                  end
                else None                                      (* invalid escape *)
            end
        end
      else if N.ltb n 32 then None                             (* raw control character, strict mode *)
      else prepend (String c "") (pstring r)
  end.

(* ---------------------------------------------------------------- numbers *)
Record numlit := mkNumlit {
  nl_neg : bool; nl_int : list N; nl_frac : option (list N); nl_exp : option (bool * list N) }.

(* optional minus; "0" or a nonzero digit followed by digits; optionally "." digits; optionally e/E, an
   optional sign and digits -- the optional groups are taken only when complete (NUMBER_RE) *)
Definition scan_sign (s : string) : bool * string :=
  match s with
  | String c r => if N.eqb (N_of_ascii c) 45 then (true, r) else (false, s)
  | EmptyString => (false, s)
  end.

Definition scan_int (s : string) : option (list N * string) :=
  match s with
  | String c r =>
      if N.eqb (N_of_ascii c) 48 then Some ([0%N], r)
      else if is_digit c then Some (scan_digits s)
      else None
  | EmptyString => None
  end.

Definition scan_frac (s : string) : option (list N) * string :=
  match s with
  | String c r =>
      if (N.eqb (N_of_ascii c) 46 && starts_with_digit r)%bool
      then let (u, r') := scan_digits r in (Some u, r')
      else (None, s)
  | EmptyString => (None, s)
  end.

Definition scan_exp (s : string) : option (bool * list N) * string :=
  match s with
  | String c r =>
      if (N.eqb (N_of_ascii c) 101 || N.eqb (N_of_ascii c) 69)%bool then
        match r with
        | String sg r' =>
            if (N.eqb (N_of_ascii sg) 45 || N.eqb (N_of_ascii sg) 43)%bool then
              if starts_with_digit r'
              then let (u, r'') := scan_digits r' in (Some (N.eqb (N_of_ascii sg) 45, u), r'')
              else (None, s)
            else if is_digit sg
            then let (u, r'') := scan_digits r in (Some (false, u), r'')
            else (None, s)
        | EmptyString => (None, s)
        end
      else (None, s)
  | EmptyString => (None, s)
  end.

Definition scan_number (s : string) : option (numlit * string) :=
  let (neg, s1) := scan_sign s in
  match scan_int s1 with
  | None => None
  | Some (iu, s2) =>
      let (fp, s3) := scan_frac s2 in
      let (ex, s4) := scan_exp s3 in
      Some (mkNumlit neg iu fp ex, s4)
  end.

(* ---- binary64: decimal -> nearest double (ties to even) -> shortest repr ---- *)
Local Open Scope Z_scope.

Inductive dres := DZero | DInf | DFin (mant q : Z).     (* mant * 2^q, 0 < mant < 2^53, -1074 <= q <= 971 *)

Definition dres_eqb (a b : dres) : bool :=
  match a, b with
  | DZero, DZero | DInf, DInf => true
  | DFin m q, DFin m' q' => Z.eqb m m' && Z.eqb q q'
  | _, _ => false
  end.

(* the integer nearest to n / d, ties to the even one *)
Definition round_half_even (n d : Z) : Z :=
  let quo := n / d in
  let rem := n mod d in
  if 2 * rem <? d then quo
  else if d <? 2 * rem then quo + 1
  else if Z.even quo then quo else quo + 1.

(* m > 0; the value m * 10^e *)
Definition to_double (m e : Z) : dres :=
  let num := if 0 <=? e then m * 10 ^ e else m in
  let den := if 0 <=? e then 1 else 10 ^ (- e) in
  let k0 := Z.log2 num - Z.log2 den in
  let ge := if 0 <=? k0 then den * 2 ^ k0 <=? num else den <=? num * 2 ^ (- k0) in
  let b := if ge then k0 else k0 - 1 in              (* 2^b <= value < 2^(b+1) *)
  let q := Z.max (b - 52) (-1074) in
  let n' := if 0 <=? q then num else num * 2 ^ (- q) in
  let d' := if 0 <=? q then den * 2 ^ q else den in
  let mant := round_half_even n' d' in
  let mant' := if mant =? 2 ^ 53 then 2 ^ 52 else mant in
  let q' := if mant =? 2 ^ 53 then q + 1 else q in
  if mant' =? 0 then DZero else if 971 <? q' then DInf else DFin mant' q'.

Fixpoint strip10 (fuel : nat) (m e : Z) : Z * Z :=
  match fuel with
  | O => (m, e)
  | S f => if (negb (m =? 0) && (m mod 10 =? 0))%bool then strip10 f (m / 10) (e + 1) else (m, e)
  end.

(* strip trailing zeros; log2 bounds their number *)
Definition normalise (m e : Z) : Z * Z :=
  if m =? 0 then (0, 0) else strip10 (S (Z.to_nat (Z.log2 (Z.abs m)))) m e.

(* the number of decimal digits of m > 0, or one less *)
Definition ndigits_est (m : Z) : Z := (Z.log2 m * 30103) / 100000 + 1.

(* floor (log10 (mant * 2^q)) *)
Definition dec_exponent (mant q : Z) : Z :=
  let num := if 0 <=? q then mant * 2 ^ q else mant in
  let den := if 0 <=? q then 1 else 2 ^ (- q) in
  let est := ((Z.log2 num - Z.log2 den) * 30103) / 100000 in
  let le10 k := if 0 <=? k then den * 10 ^ k <=? num else den <=? num * 10 ^ (- k) in   (* 10^k <= value *)
  if le10 (est + 1) then est + 1 else if le10 est then est else est - 1.

(* c * 10^ec compared with B * 2^(q-2) *)
Definition cmp_dec_bin (c ec B q : Z) : comparison :=
  let an := if 0 <=? ec then c * 10 ^ ec else c in
  let ad := if 0 <=? ec then 1 else 10 ^ (- ec) in
  let bn := if 2 <=? q then B * 2 ^ (q - 2) else B in
  let bd := if 2 <=? q then 1 else 2 ^ (2 - q) in
  Z.compare (an * bd) (bn * ad).

(* does c * 10^ec round to the double mant * 2^q?  The rounding interval reaches half an ulp up and
   half an ulp (a quarter at a binade boundary) down; its ends belong to it iff mant is even *)
Definition rounds_to (mant q c ec : Z) : bool :=
  let V := 4 * mant in
  let up := V + 2 in
  let down := if (mant =? 2 ^ 52) && (-1074 <? q) then V - 1 else V - 2 in
  let incl := Z.even mant in
  (0 <? c) &&
  match cmp_dec_bin c ec down q with Gt => true | Eq => incl | Lt => false end &&
  match cmp_dec_bin c ec up q with Lt => true | Eq => incl | Gt => false end.

(* the candidates with n significant digits around mant*2^q: floor and floor+1 in units of 10^ec *)
Definition shortest_at (mant q e10 : Z) (n : Z) : option (Z * Z) :=
  let ec := e10 - n + 1 in
  let num := if 0 <=? q then mant * 2 ^ q else mant in
  let den := if 0 <=? q then 1 else 2 ^ (- q) in
  let n' := if 0 <=? ec then num else num * 10 ^ (- ec) in
  let d' := if 0 <=? ec then den * 10 ^ ec else den in
  let lo := n' / d' in
  let rem := n' mod d' in
  match rounds_to mant q lo ec, rounds_to mant q (lo + 1) ec with
  | true, true => if 2 * rem <? d' then Some (lo, ec)
                  else if d' <? 2 * rem then Some (lo + 1, ec)
                  else if Z.even lo then Some (lo, ec) else Some (lo + 1, ec)
  | true, false => Some (lo, ec)
  | false, true => Some (lo + 1, ec)
  | false, false => None
  end.

(* the least n in [lo, hi] with a candidate (having one is monotone in n); 17 digits always suffice *)
Fixpoint shortest_search (fuel : nat) (mant q e10 lo hi : Z) : Z * Z :=
  match fuel with
  | O => (mant, q)                                   (* never: five halvings cover 1..17 *)
  | S f =>
      if hi <=? lo then
        match shortest_at mant q e10 lo with Some me => me | None => (mant, q) end
      else
        let mid := (lo + hi) / 2 in
        match shortest_at mant q e10 mid with
        | Some _ => shortest_search f mant q e10 lo mid
        | None => shortest_search f mant q e10 (mid + 1) hi
        end
  end.

Definition shortest (mant q : Z) : Z * Z :=
  let (m, e) := shortest_search 6 mant q (dec_exponent mant q) 1 17 in normalise m e.

(* the float a literal with digits M (>= 0) and exponent E denotes *)
Definition float_of_dec (neg : bool) (M E : Z) : num :=
  if M =? 0 then NDec 0 0 FFloat
  else
    let (m, e) := normalise M E in
    let adj := ndigits_est m + e in                 (* 10^(adj-1) <= value < 10^(adj+1) *)
    if 310 <? adj then NInf neg                     (* >= 1e310: beyond the largest double *)
    else if adj <? -326 then NDec 0 0 FFloat        (* < 1e-325: below half the smallest subnormal *)
    else match to_double m e with
         | DZero => NDec 0 0 FFloat
         | DInf => NInf neg
         | DFin mant q => let (m', e') := shortest mant q in NDec (if neg then - m' else m') e' FFloat
         end.

(* parse_float=decimal.Decimal: the digits of the literal, exactly (shown without trailing zeros) *)
Definition decimal_of_dec (neg : bool) (M E : Z) : num :=
  let (m, e) := normalise M E in NDec (if neg then - m else m) e FDecimal.

(* fm = FFloat: json.loads(s);  fm = FDecimal: json.loads(s, parse_float=Decimal, parse_constant=Decimal) *)
Definition dec_conv (fm : fkind) (neg : bool) (M E : Z) : num :=
  match fm with FFloat => float_of_dec neg M E | FDecimal => decimal_of_dec neg M E end.

Definition int_max_str_digits : nat := 4300.

Definition num_of_lit (fm : fkind) (l : numlit) : option num :=
  match nl_frac l, nl_exp l with
  | None, None =>
      if Nat.ltb int_max_str_digits (List.length (nl_int l)) then None     (* ValueError: digit limit *)
      else let v := Z.of_N (dval (nl_int l)) in Some (NInt (if nl_neg l then - v else v))
  | fp, ex =>
      let fu := match fp with Some u => u | None => [] end in
      let M := Z.of_N (dval (nl_int l ++ fu)) in
      let X := match ex with Some (ng, u) => let x := Z.of_N (dval u) in if ng then - x else x | None => 0 end in
      Some (dec_conv fm (nl_neg l) M (X - Z.of_nat (List.length fu)))
  end.

Local Close Scope Z_scope.

(* ---------------------------------------------------------------- values *)
Inductive pres :=
| POk (v : json) (rest : string)
| PErr                       (* json.JSONDecodeError / ValueError *)
| PDeep                      (* RecursionError *)
| PFuel.                     (* the model ran out of fuel: excluded by [parse_fuel_enough] *)

Fixpoint prefix_rest (p s : string) : option string :=
  match p, s with
  | EmptyString, _ => Some s
  | String a p', String b s' => if Ascii.eqb a b then prefix_rest p' s' else None
  | String _ _, EmptyString => None
  end.

(* dict(pairs): a later duplicate key replaces the value, the position of the first is kept *)
Fixpoint dict_set (k : string) (v : json) (l : list (string * json)) : list (string * json) :=
  match l with
  | [] => [(k, v)]
  | (k', v') :: r => if String.eqb k k' then (k, v) :: r else (k', v') :: dict_set k v r
  end.

Definition lit (word : string) (v : json) (s : string) : pres :=
  match prefix_rest word s with Some r => POk v r | None => PErr end.

Section Mode.
Variable fm : fkind.

Definition pnumber (s : string) : pres :=
  match scan_number s with
  | Some (l, r) => match num_of_lit fm l with Some n => POk (JNum n) r | None => PErr end
  | None => PErr
  end.

(* depth = how many nested containers may still be entered (Py_EnterRecursiveCall guards the
   object and array branches of scan_once only) *)
Fixpoint pvalue (fuel depth : nat) (s : string) {struct fuel} : pres :=
  match fuel with
  | O => PFuel
  | S f =>
      match s with
      | EmptyString => PErr
      | String c r =>
          let n := N_of_ascii c in
          if N.eqb n 34 then
            match pstring r with Some (body, r') => POk (JStr body) r' | None => PErr end
          else if N.eqb n 123 then                                   (* object *)
            match depth with
            | O => PDeep
            | S d =>
                let r1 := skip_ws r in
                match r1 with
                | String c1 r2 =>
                    if N.eqb (N_of_ascii c1) 125 then POk (JObj []) r2
                    else pmembers f d r1 []
                | EmptyString => PErr
                end
            end
          else if N.eqb n 91 then                                    (* array *)
            match depth with
            | O => PDeep
            | S d =>
                let r1 := skip_ws r in
                match r1 with
                | String c1 r2 =>
                    if N.eqb (N_of_ascii c1) 93 then POk (JArr []) r2
                    else pelements f d r1 []
                | EmptyString => PErr
                end
            end
          else if N.eqb n 110 then lit "null" JNull s
          else if N.eqb n 116 then lit "true" (JBool true) s
          else if N.eqb n 102 then lit "false" (JBool false) s
          else if N.eqb n 78 then lit "NaN" (JNum NNaN) s
          else if N.eqb n 73 then lit "Infinity" (JNum (NInf false)) s
          else if (N.eqb n 45 && match r with String i _ => N.eqb (N_of_ascii i) 73 | _ => false end)%bool
          then lit "-Infinity" (JNum (NInf true)) s
          else pnumber s
      end
  end
(* s starts at a value; acc = the elements so far, reversed *)
with pelements (fuel depth : nat) (s : string) (acc : list json) {struct fuel} : pres :=
  match fuel with
  | O => PFuel
  | S f =>
      match pvalue f depth s with
      | POk v r =>
          match skip_ws r with
          | String c r' =>
              if N.eqb (N_of_ascii c) 44 then pelements f depth (skip_ws r') (v :: acc)
              else if N.eqb (N_of_ascii c) 93 then POk (JArr (List.rev (v :: acc))) r'
              else PErr
          | EmptyString => PErr
          end
      | e => e
      end
  end
(* s starts at a member (a quote is required); acc = the dict so far *)
with pmembers (fuel depth : nat) (s : string) (acc : list (string * json)) {struct fuel} : pres :=
  match fuel with
  | O => PFuel
  | S f =>
      match s with
      | String q r =>
          if N.eqb (N_of_ascii q) 34 then
            match pstring r with
            | None => PErr
            | Some (k, r1) =>
                match skip_ws r1 with
                | String c r2 =>
                    if N.eqb (N_of_ascii c) 58 then
                      match pvalue f depth (skip_ws r2) with
                      | POk v r3 =>
                          match skip_ws r3 with
                          | String c' r4 =>
                              if N.eqb (N_of_ascii c') 44 then pmembers f depth (skip_ws r4) (dict_set k v acc)
                              else if N.eqb (N_of_ascii c') 125 then POk (JObj (dict_set k v acc)) r4
                              else PErr
                          | EmptyString => PErr
                          end
                      | e => e
                      end
                    else PErr
                | EmptyString => PErr
                end
            end
          else PErr
      | EmptyString => PErr
      end
  end.

Inductive loads_result :=
| LValue (v : json)
| LError                     (* ValueError *)
| LRecursion                 (* RecursionError *)
| LFuel.

Definition bom : string := String (ascii_of_N 239) (String (ascii_of_N 187) (String (ascii_of_N 191) "")).

Definition enough (s : string) : nat := 2 * String.length s + 2.

(* json.loads(text[, parse_float=Decimal, parse_constant=Decimal]) for a str;
   limit = the recursion budget of the calling context *)
Definition loads_mode (limit : nat) (s : string) : loads_result :=
  match prefix_rest bom s with
  | Some _ => LError
  | None =>
      match pvalue (enough s) limit (skip_ws s) with
      | POk v r => match skip_ws r with EmptyString => LValue v | _ => LError end     (* Extra data *)
      | PErr => LError
      | PDeep => LRecursion
      | PFuel => LFuel
      end
  end.
End Mode.

(* plain json.loads *)
Definition loads : nat -> string -> loads_result := loads_mode FFloat.
