(* Frame.v -- OCPP-J framing at the value level: ocpp.messages.unpack / pack and the
   to_json methods, on the value json.loads produced. *)
From Coq Require Import List ZArith Bool String Ascii.
From OV.Model Require Import Json Schema.
Import ListNotations.
Local Open Scope string_scope.

Inductive msg :=
| Call (id action payload : json)
| CallResult (id payload : json) (action : option json)
| CallError (id code descr : json) (details : option json).

(* what json.loads did with the raw frame *)
Inductive loads_outcome :=
| Loaded (j : json)
| LoadsRaised.        (* ValueError (JSONDecodeError, UnicodeDecodeError, int digit limit) or RecursionError *)

Inductive unpack_result :=
| UMsg (m : msg)
| UErr (c : ocode).

Definition unpack_v (j : json) : unpack_result :=
  match j with
  | JArr [] => UErr CProtocolError                         (* IndexError on msg[0] *)
  | JArr (t :: args) =>
      if py_eq_int t 2 then
        match args with
        | [id; a; p] => UMsg (Call id a p)
        | _ => UErr CProtocolError                          (* TypeError from the constructor call *)
        end
      else if py_eq_int t 3 then
        match args with
        | [id; p] => UMsg (CallResult id p None)
        | [id; p; a] => UMsg (CallResult id p (Some a))
        | _ => UErr CProtocolError
        end
      else if py_eq_int t 4 then
        match args with
        | [id; c; d] => UMsg (CallError id c d None)
        | [id; c; d; x] => UMsg (CallError id c d (Some x))
        | _ => UErr CProtocolError
        end
      else UErr CPropertyConstraintViolation
  | _ => UErr CProtocolError                                (* not a list *)
  end.

Definition unpack (lo : loads_outcome) : unpack_result :=
  match lo with
  | LoadsRaised => UErr CFormatViolation
  | Loaded j => unpack_v j
  end.

(* to_json, before text serialisation: the array that is written *)
Definition pack_v (m : msg) : json :=
  match m with
  | Call id a p => JArr [JNum (NInt 2); id; a; p]
  | CallResult id p _ => JArr [JNum (NInt 3); id; p]
  | CallError id c d x => JArr [JNum (NInt 4); id; c; d; match x with Some x => x | None => JNull end]
  end.

(* same kind, same id, same action / code, description, details, payload.
   The action of a CALLRESULT is not on the wire; absent details come back as null. *)
Definition same_message (a b : msg) : Prop :=
  match a, b with
  | Call i x p, Call i' x' p' => i = i' /\ x = x' /\ p = p'
  | CallResult i p _, CallResult i' p' _ => i = i' /\ p = p'
  | CallError i c d x, CallError i' c' d' x' =>
      i = i' /\ c = c' /\ d = d' /\
      match x with Some v => v | None => JNull end = match x' with Some v => v | None => JNull end
  | _, _ => False
  end.
