(* DigitsProofs.v -- digits n is the decimal expansion of n: reading it back gives n. *)
From Coq Require Import List ZArith NArith Bool String Ascii Lia.
From OV.Model Require Import Digits.
Import ListNotations.
Local Open Scope N_scope.
Ltac Zify.zify_post_hook ::= Z.div_mod_to_equations.

Local Notation length := List.length.

Definition lt10 (d : N) : Prop := d < 10.

Lemma N_of_ascii_dchar d : d < 10 -> N_of_ascii (dchar d) = 48 + d.
Proof. intros H. unfold dchar. apply N_ascii_embedding. lia. Qed.

Lemma digit_val_dchar d : d < 10 -> digit_val (dchar d) = Some d.
Proof.
  intros H. unfold digit_val. rewrite N_of_ascii_dchar by exact H.
  destruct (N.leb_spec 48 (48 + d)); [|exfalso; lia]. destruct (N.leb_spec (48 + d) 57); [|exfalso; lia].
  cbn [andb]. f_equal. lia.
Qed.

Lemma is_digit_dchar d : d < 10 -> is_digit (dchar d) = true.
Proof. intros H. unfold is_digit. rewrite digit_val_dchar by exact H. reflexivity. Qed.

(* ---- dval ---- *)
Definition dfold (a : N) (l : list N) : N := fold_left (fun a d => 10 * a + d) l a.

Lemma dfold_app a l1 l2 : dfold a (l1 ++ l2) = dfold (dfold a l1) l2.
Proof. unfold dfold. apply fold_left_app. Qed.

Lemma dfold_shift a l : dfold a l = a * 10 ^ N.of_nat (length l) + dfold 0 l.
Proof.
  revert a; induction l as [|d l IH]; intros a.
  - simpl. lia.
  - cbn [dfold fold_left length]. fold (dfold (10 * a + d) l). fold (dfold (10 * 0 + d) l).
    rewrite (IH (10 * a + d)), (IH (10 * 0 + d)).
    rewrite Nat2N.inj_succ, N.pow_succ_r'. lia.
Qed.

Lemma dval_app l1 l2 : dval (l1 ++ l2) = dval l1 * 10 ^ N.of_nat (length l2) + dval l2.
Proof. unfold dval. fold (dfold 0 (l1 ++ l2)). rewrite dfold_app, dfold_shift. reflexivity. Qed.

Lemma dval_single d : dval [d] = d.
Proof. unfold dval; simpl. lia. Qed.

Lemma dval_repeat0 k : dval (repeat 0 k) = 0.
Proof.
  induction k as [|k IH]; [reflexivity|].
  change (repeat 0 (S k)) with ([0] ++ repeat 0 k). rewrite dval_app, IH, dval_single. lia.
Qed.

Lemma dval_zeros_l k ds : dval (repeat 0 k ++ ds) = dval ds.
Proof. rewrite dval_app, dval_repeat0. lia. Qed.

Lemma dval_zeros_r k ds : dval (ds ++ repeat 0 k) = dval ds * 10 ^ N.of_nat k.
Proof. rewrite dval_app, dval_repeat0, repeat_length. lia. Qed.

(* ---- digits ---- *)
Lemma digits_go_acc f : forall n acc, digits_go f n acc = digits_go f n [] ++ acc.
Proof.
  induction f as [|f IH]; intros n acc; cbn [digits_go]; [reflexivity|].
  destruct (n <? 10); [reflexivity|].
  rewrite (IH (n / 10) (n mod 10 :: acc)), (IH (n / 10) [n mod 10]), <- app_assoc. reflexivity.
Qed.

Lemma digits_go_val f : forall n, dval (digits_go f n []) = n.
Proof.
  induction f as [|f IH]; intros n; cbn [digits_go]; [apply dval_single|].
  destruct (N.ltb_spec n 10); [apply dval_single|].
  rewrite digits_go_acc, dval_app, IH, dval_single.
  change (N.of_nat (length [n mod 10])) with 1. rewrite N.pow_1_r.
  pose proof (N.div_mod n 10 ltac:(lia)) as Q. lia.
Qed.

Theorem dval_digits n : dval (digits n) = n.
Proof. apply digits_go_val. Qed.

Lemma digits_go_lt10 f : forall n, n < 10 ^ N.of_nat (S f) -> Forall lt10 (digits_go f n []).
Proof.
  induction f as [|f IH]; intros n H; cbn [digits_go].
  - constructor; [|constructor]. unfold lt10. simpl in H. lia.
  - destruct (N.ltb_spec n 10); [constructor; [exact H0|constructor]|].
    rewrite digits_go_acc. apply Forall_app; split.
    + apply IH. rewrite Nat2N.inj_succ, N.pow_succ_r' in H. apply N.div_lt_upper_bound; lia.
    + constructor; [unfold lt10; apply N.mod_lt; lia|constructor].
Qed.

Lemma lt_pow10_log2 n : n < 10 ^ N.of_nat (S (N.to_nat (N.log2 n))).
Proof.
  rewrite Nat2N.inj_succ, N2Nat.id.
  destruct (N.eq_dec n 0) as [->|NZ]; [simpl; lia|].
  destruct (N.log2_spec n) as [_ H]; [lia|].
  eapply N.lt_le_trans; [exact H|]. apply N.pow_le_mono_l. lia.
Qed.

Theorem digits_lt10 n : Forall lt10 (digits n).
Proof. apply digits_go_lt10, lt_pow10_log2. Qed.

Lemma digits_go_nonempty f n : digits_go f n [] <> [].
Proof.
  destruct f; cbn [digits_go]; [discriminate|]. destruct (n <? 10); [discriminate|].
  rewrite digits_go_acc. intros H. apply app_eq_nil in H. destruct H; discriminate.
Qed.

Lemma digits_nonempty n : digits n <> [].
Proof. apply digits_go_nonempty. Qed.

(* the leading digit of a nonzero number is nonzero *)
Lemma digits_go_head f : forall n, n <> 0 -> exists d r, digits_go f n [] = d :: r /\ d <> 0.
Proof.
  induction f as [|f IH]; intros n NZ; cbn [digits_go]; [eauto|].
  destruct (N.ltb_spec n 10); [eauto|].
  destruct (IH (n / 10)) as [d [r [E D]]]; [intros Z0; apply N.div_small_iff in Z0; lia|].
  rewrite digits_go_acc, E. exists d, (r ++ [n mod 10]). split; [reflexivity|exact D].
Qed.

Lemma digits_head n : n <> 0 -> exists d r, digits n = d :: r /\ d <> 0.
Proof. apply digits_go_head. Qed.

Lemma digits_0 : digits 0 = [0].
Proof. reflexivity. Qed.

(* ---- scanning the text of a digit list ---- *)
Lemma scan_digits_stop rest : starts_with_digit rest = false -> scan_digits rest = ([], rest).
Proof.
  destruct rest as [|c r]; [reflexivity|]. unfold starts_with_digit, is_digit. simpl.
  destruct (digit_val c); [discriminate|reflexivity].
Qed.

Lemma scan_digits_dstr ds rest :
  Forall lt10 ds -> starts_with_digit rest = false -> scan_digits (dstr ds ++ rest) = (ds, rest).
Proof.
  intros F S. induction F as [|d l D F IH]; [exact (scan_digits_stop rest S)|].
  cbn [dstr append scan_digits]. rewrite digit_val_dchar by exact D. rewrite IH. reflexivity.
Qed.

Lemma starts_with_digit_dstr d ds rest : d < 10 -> starts_with_digit (dstr (d :: ds) ++ rest) = true.
Proof. intros D. cbn [dstr append starts_with_digit]. apply is_digit_dchar, D. Qed.

Lemma dstr_app a b : dstr (a ++ b) = (dstr a ++ dstr b)%string.
Proof. induction a as [|d a IH]; [reflexivity|]. cbn [app dstr append]. rewrite IH. reflexivity. Qed.

Lemma dstr_length ds : String.length (dstr ds) = length ds.
Proof. induction ds as [|d ds IH]; [reflexivity|]. simpl. rewrite IH. reflexivity. Qed.
