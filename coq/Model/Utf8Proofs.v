(* Utf8Proofs.v -- UTF-8 (surrogatepass) encode/decode and the \uXXXX hex escapes are inverse. *)
From Coq Require Import List ZArith NArith Bool String Ascii Lia.
From OV.Model Require Import Json JsonText JsonParse.
Import ListNotations.
Local Open Scope N_scope.

Lemma Nascii n : n < 256 -> N_of_ascii (ascii_of_N n) = n.
Proof. apply N_ascii_embedding. Qed.

(* ---- finite sweeps lifted by forallb_forall ---- *)
Definition below (k : nat) : list N := map N.of_nat (seq 0 k).

Lemma in_below k n : n < N.of_nat k -> In n (below k).
Proof.
  intros H. unfold below. rewrite <- (N2Nat.id n). apply in_map. apply in_seq. lia.
Qed.

Lemma hexval_hexdigit_sweep :
  forallb (fun k => match hexval (hexdigit k) with Some k' => N.eqb k' k | None => false end) (below 16) = true.
Proof. vm_compute. reflexivity. Qed.

Lemma hexval_hexdigit_in k :
  In k (below 16) -> match hexval (hexdigit k) with Some k' => N.eqb k' k | None => false end = true.
Proof. intros H. exact (proj1 (forallb_forall _ _) hexval_hexdigit_sweep k H). Qed.

Lemma hexval_hexdigit_dec k :
  match hexval (hexdigit k) with Some k' => N.eqb k' k | None => false end = true -> hexval (hexdigit k) = Some k.
Proof. intros Q. destruct (hexval (hexdigit k)) as [k'|]; [|discriminate]. apply N.eqb_eq in Q. subst. reflexivity. Qed.

Lemma hexval_hexdigit k : k < 16 -> hexval (hexdigit k) = Some k.
Proof. intros H. apply hexval_hexdigit_dec, hexval_hexdigit_in. exact (in_below 16 k H). Qed.

Lemma hex4_shape n : exists a b c d, hex4 n = String a (String b (String c (String d EmptyString))).
Proof. unfold hex4. eauto. Qed.

(* the four hex digits of n < 65536 read back as n: digit by digit *)
Lemma hex4val_hex4 n : n < 65536 ->
  exists a b c d, hex4 n = String a (String b (String c (String d EmptyString))) /\ hex4val a b c d = Some n.
Proof.
  intros H. unfold hex4. do 4 eexists. split; [reflexivity|]. unfold hex4val.
  assert (Q3 : n / 4096 < 16) by (apply N.div_lt_upper_bound; lia).
  assert (D1 : n / 16 / 16 = n / 256) by (rewrite N.div_div by lia; reflexivity).
  assert (D2 : n / 256 / 16 = n / 4096) by (rewrite N.div_div by lia; reflexivity).
  pose proof (N.div_mod n 16 ltac:(lia)) as E0. pose proof (N.mod_lt n 16 ltac:(lia)) as M0.
  pose proof (N.div_mod (n / 16) 16 ltac:(lia)) as E1. pose proof (N.mod_lt (n / 16) 16 ltac:(lia)) as M1.
  pose proof (N.div_mod (n / 256) 16 ltac:(lia)) as E2. pose proof (N.mod_lt (n / 256) 16 ltac:(lia)) as M2.
  rewrite D1 in E1. rewrite D2 in E2.
  rewrite (N.mod_small (n / 4096) 16) by exact Q3.
  rewrite !hexval_hexdigit by assumption.
  f_equal.
  remember (n / 16) as q1. remember (n / 256) as q2. remember (n / 4096) as q3.
  remember (n mod 16) as m0. remember (q1 mod 16) as m1. remember (q2 mod 16) as m2. lia.
Qed.

(* ---- decode1 inverts utf8 ---- *)
Definition cp_ok (cp : N) : Prop := cp < 1114112.

Ltac divmod x k :=
  let q := fresh "q" in let m := fresh "m" in let Eq := fresh "Eq" in let Em := fresh "Em" in
  pose proof (N.div_mod x k ltac:(lia)) as Eq;
  pose proof (N.mod_lt x k ltac:(lia)) as Em;
  remember (x / k) as q; remember (x mod k) as m.

Lemma decode1_utf8 cp r : cp_ok cp -> decode1 (utf8 cp ++ r) = Some (cp, r).
Proof.
  unfold cp_ok, utf8. intros H.
  destruct (N.ltb_spec cp 128) as [C1|C1].
  { cbn [append decode1]. unfold byte. rewrite Nascii by lia.
    destruct (N.ltb_spec cp 128); [reflexivity|lia]. }
  destruct (N.ltb_spec cp 2048) as [C2|C2].
  { cbn [append decode1]. unfold byte.
    assert (Q : cp / 64 < 32) by (apply N.div_lt_upper_bound; lia).
    divmod cp 64. rewrite !Nascii by lia.
    destruct (N.ltb_spec (192 + q) 128); [lia|]. destruct (N.ltb_spec (192 + q) 224); [|lia].
    f_equal. f_equal. lia. }
  destruct (N.ltb_spec cp 65536) as [C3|C3].
  { cbn [append decode1]. unfold byte.
    assert (Q : cp / 4096 < 16) by (apply N.div_lt_upper_bound; lia).
    assert (D : cp / 64 / 64 = cp / 4096) by (rewrite N.div_div by lia; reflexivity).
    divmod cp 64. divmod q 64. rewrite <- D in *.
    remember (q / 64) as q1. rewrite !Nascii by lia.
    destruct (N.ltb_spec (224 + q0) 128); [lia|]. destruct (N.ltb_spec (224 + q0) 224); [lia|].
    destruct (N.ltb_spec (224 + q0) 240); [|lia].
    f_equal. f_equal. lia. }
  cbn [append decode1]. unfold byte.
  assert (Q : cp / 262144 < 5) by (apply N.div_lt_upper_bound; lia).
  assert (D1 : cp / 64 / 64 = cp / 4096) by (rewrite N.div_div by lia; reflexivity).
  assert (D2 : cp / 4096 / 64 = cp / 262144) by (rewrite N.div_div by lia; reflexivity).
  divmod cp 64. rewrite <- D1 in *. divmod q 64. rewrite <- D2 in *. divmod q0 64.
  rewrite !Nascii by lia.
  destruct (N.ltb_spec (240 + q1) 128); [lia|]. destruct (N.ltb_spec (240 + q1) 224); [lia|].
  destruct (N.ltb_spec (240 + q1) 240); [lia|].
  f_equal. f_equal. lia.
Qed.

Lemma utf8_nonempty cp : exists a r, utf8 cp = String a r.
Proof. unfold utf8. destruct (cp <? 128); [eauto|]. destruct (cp <? 2048); [eauto|]. destruct (cp <? 65536); eauto. Qed.
