(* SchemaProofs.v -- the executable evaluator agrees with the declarative reading. *)
From Coq Require Import List ZArith Bool String Ascii Lia.
From OV.Model Require Import Json Schema.
Import ListNotations.
Local Open Scope Z_scope.

Lemma mem_In k l : mem k l = true <-> In k l.
Proof.
  unfold mem. rewrite existsb_exists. split.
  - intros [x [Hin Heq]]. apply String.eqb_eq in Heq. subst. exact Hin.
  - intros Hin. exists k. split; [exact Hin | apply String.eqb_refl].
Qed.

Lemma assoc_In_keys {A} k (l : list (string * A)) :
  In k (keys l) <-> exists v, assoc k l = Some v.
Proof.
  induction l as [|[k' v'] r IH]; simpl.
  - split; [intros [] | intros [v Hv]; discriminate].
  - destruct (String.eqb k k') eqn:E.
    + apply String.eqb_eq in E. subst. split; [intros _; eauto | intros _; left; reflexivity].
    + apply String.eqb_neq in E. rewrite <- IH. unfold keys. split.
      * intros [H|H]; [congruence | exact H].
      * intros H. right. exact H.
Qed.

Lemma app_nil_iff {A} (a b : list A) : a ++ b = [] <-> a = [] /\ b = [].
Proof. split; [apply app_eq_nil | intros [-> ->]; reflexivity]. Qed.

Lemma flat_map_nil_iff {A B} (f : A -> list B) l :
  flat_map f l = [] <-> forall x, In x l -> f x = [].
Proof.
  induction l as [|a r IH]; simpl.
  - split; [intros _ x [] | reflexivity].
  - rewrite app_nil_iff, IH. split.
    + intros [Ha Hr] x [<-|Hx]; auto.
    + intros H. split; [apply H; left; reflexivity | intros x Hx; apply H; right; exact Hx].
Qed.

(* --- the single-keyword lemmas --- *)
Lemma v_type_nil ty j : v_type ty j = [] <-> (forall t, ty = Some t -> has_type t j = true).
Proof.
  unfold v_type. destruct ty as [t|].
  - destruct (has_type t j) eqn:E; split; intros H; try reflexivity.
    + intros t' Ht. injection Ht as <-. exact E.
    + discriminate.
    + specialize (H t eq_refl). congruence.
  - split; [intros _ t Ht; discriminate | reflexivity].
Qed.

Lemma v_enum_nil en j : v_enum en j = [] <-> (forall l, en = Some l -> exists s, j = JStr s /\ In s l).
Proof.
  unfold v_enum. destruct en as [l|].
  - split.
    + intros H l' Hl. injection Hl as <-. destruct j; try discriminate.
      destruct (mem s l) eqn:E; [|discriminate]. exists s. split; [reflexivity|]. apply mem_In. exact E.
    + intros H. destruct (H l eq_refl) as [s [-> Hin]]. apply mem_In in Hin. rewrite Hin. reflexivity.
  - split; [intros _ l Hl; discriminate | reflexivity].
Qed.

Lemma v_maxlen_nil mxl j :
  v_maxlen mxl j = [] <-> (forall n s, mxl = Some n -> j = JStr s -> cp_length s <= n).
Proof.
  unfold v_maxlen. destruct mxl as [n|].
  - destruct j; try (split; [intros _ n' s' _ Hj; discriminate | reflexivity]).
    destruct (cp_length s >? n) eqn:E; split; intros H; try reflexivity; try discriminate.
    + specialize (H n s eq_refl eq_refl). lia.
    + intros n' s' Hn Hs. injection Hn as <-. injection Hs as <-. lia.
  - split; [intros _ n s Hn; discriminate | reflexivity].
Qed.

Lemma v_required_nil req o :
  v_required req o = [] <-> (forall k, In k req -> exists v, assoc k o = Some v).
Proof.
  unfold v_required. rewrite flat_map_nil_iff. split; intros H k Hk.
  - specialize (H k Hk). destruct (mem k (keys o)) eqn:E; [|discriminate].
    apply mem_In in E. apply assoc_In_keys. exact E.
  - specialize (H k Hk). apply assoc_In_keys in H. apply mem_In in H. rewrite H. reflexivity.
Qed.

Lemma v_additional_nil cl pn o :
  v_additional cl pn o = [] <-> (cl = true -> forall k, In k (keys o) -> In k pn).
Proof.
  unfold v_additional. destruct cl; simpl.
  - destruct (existsb (fun k => negb (mem k pn)) (keys o)) eqn:E; split; intros H; try reflexivity; try discriminate.
    + apply existsb_exists in E. destruct E as [k [Hk Hn]]. specialize (H eq_refl k Hk).
      apply mem_In in H. rewrite H in Hn. discriminate.
    + intros _ k Hk. destruct (mem k pn) eqn:Em; [apply mem_In; exact Em|].
      assert (existsb (fun k => negb (mem k pn)) (keys o) = true) as X.
      { apply existsb_exists. exists k. rewrite Em. auto. }
      congruence.
  - split; [intros _ Hc; discriminate | reflexivity].
Qed.

Lemma v_minitems_nil mni l :
  v_minitems mni l = [] <-> (forall n, mni = Some n -> n <= Z.of_nat (List.length l)).
Proof.
  unfold v_minitems. destruct mni as [n|].
  - destruct (Z.of_nat (List.length l) <? n) eqn:E; split; intros H; try reflexivity; try discriminate.
    + specialize (H n eq_refl). lia.
    + intros n' Hn. injection Hn as <-. lia.
  - split; [intros _ n Hn; discriminate | reflexivity].
Qed.

Lemma v_maxitems_nil mxi l :
  v_maxitems mxi l = [] <-> (forall n, mxi = Some n -> Z.of_nat (List.length l) <= n).
Proof.
  unfold v_maxitems. destruct mxi as [n|].
  - destruct (Z.of_nat (List.length l) >? n) eqn:E; split; intros H; try reflexivity; try discriminate.
    + specialize (H n eq_refl). lia.
    + intros n' Hn. injection Hn as <-. lia.
  - split; [intros _ n Hn; discriminate | reflexivity].
Qed.

Lemma v_minimum_nil pm mn n :
  v_minimum pm mn n = [] <-> (forall b, mn = Some b -> MinOK pm b n).
Proof.
  unfold v_minimum, MinOK. destruct mn as [b|].
  - split.
    + intros H b' Hb. injection Hb as <-.
      destruct n, pm; try discriminate; destruct (num_ltb _ b) eqn:E; try discriminate; reflexivity.
    + intros H. specialize (H b eq_refl).
      destruct n, pm; try contradiction; rewrite H; reflexivity.
  - split; [intros _ b Hb; discriminate | reflexivity].
Qed.

Lemma v_maximum_nil pm mx n :
  v_maximum pm mx n = [] <-> (forall b, mx = Some b -> MaxOK pm b n).
Proof.
  unfold v_maximum, MaxOK. destruct mx as [b|].
  - split.
    + intros H b' Hb. injection Hb as <-.
      destruct n, pm; try discriminate; destruct (num_ltb b _) eqn:E; try discriminate; reflexivity.
    + intros H. specialize (H b eq_refl).
      destruct n, pm; try contradiction; rewrite H; reflexivity.
  - split; [intros _ b Hb; discriminate | reflexivity].
Qed.

Lemma mult_dec_nil m e mb eb :
  mult_dec m e mb eb = [] <->
  (let c := Z.min e eb in
   let A := m * 10 ^ (e - c) in
   let B := mb * 10 ^ (eb - c) in
   B <> 0 /\ Z.abs A < prec_bound * Z.abs B /\ exists q, A = q * B).
Proof.
  unfold mult_dec. cbv zeta.
  set (A := m * 10 ^ (e - Z.min e eb)). set (B := mb * 10 ^ (eb - Z.min e eb)).
  destruct (B =? 0) eqn:EB.
  - split; [discriminate | intros [H _]; apply Z.eqb_eq in EB; contradiction].
  - apply Z.eqb_neq in EB. destruct (Z.abs A <? prec_bound * Z.abs B) eqn:EA.
    + apply Z.ltb_lt in EA. destruct (A mod B =? 0) eqn:EM.
      * apply Z.eqb_eq in EM. split; [|reflexivity]. intros _. repeat split; try assumption.
        exists (A / B). rewrite Z.mul_comm. apply Z_div_exact_full_2; assumption.
      * apply Z.eqb_neq in EM. split; [discriminate|]. intros [_ [_ [q Hq]]].
        exfalso. apply EM. rewrite Hq. apply Z_mod_mult.
    + apply Z.ltb_ge in EA. split; [discriminate|]. intros [_ [H _]]. lia.
Qed.

Lemma v_multiple_nil sm pm mo n :
  v_multiple sm pm mo n = [] <-> (forall b, mo = Some b -> MultOK sm pm b n).
Proof.
  unfold v_multiple. destruct mo as [b|].
  2:{ split; [intros _ b Hb; discriminate | reflexivity]. }
  split.
  - intros H b' Hb. injection Hb as <-. unfold MultOK.
    destruct sm; [discriminate|]. destruct b as [zb|mb eb kb| |]; try discriminate.
    + destruct n as [z| | |]; try discriminate.
      destruct (zb =? 0) eqn:E0; [discriminate|]. apply Z.eqb_neq in E0.
      destruct (z mod zb =? 0) eqn:EM; [|discriminate]. apply Z.eqb_eq in EM.
      split; [assumption|]. exists (z / zb). rewrite Z.mul_comm. apply Z_div_exact_full_2; assumption.
    + destruct n as [z|m e k| |].
      * apply mult_dec_nil in H. exact H.
      * destruct pm; [discriminate|]. split; [reflexivity|]. apply mult_dec_nil in H. exact H.
      * destruct pm; discriminate.
      * destruct pm; discriminate.
  - intros H. specialize (H b eq_refl). unfold MultOK in H.
    destruct sm; [contradiction|]. destruct b as [zb|mb eb kb| |]; try contradiction.
    + destruct n as [z| | |]; try contradiction. destruct H as [H0 [q Hq]].
      apply Z.eqb_neq in H0. rewrite H0. subst z. rewrite Z_mod_mult. reflexivity.
    + destruct n as [z|m e k| |]; try contradiction.
      * apply mult_dec_nil. exact H.
      * destruct H as [-> H]. apply mult_dec_nil. exact H.
Qed.

(* --- the structural part --- *)
Definition props_viol (sm pm : mode) (o : list (string * json)) :=
  fix go (ps : list (string * schema)) : list kind :=
    match ps with
    | [] => []
    | (k, sub) :: r =>
        match assoc k o with
        | Some v => violations sm pm sub v
        | None => []
        end ++ go r
    end.

Lemma violations_unfold sm pm ty en mxl props req cl items mni mxi mn mx mo j :
  violations sm pm (Sch ty en mxl props req cl items mni mxi mn mx mo) j =
  v_type ty j ++ v_enum en j ++ v_maxlen mxl j ++
  match j with
  | JObj o => props_viol sm pm o props ++ v_required req o ++ v_additional cl (keys props) o
  | JArr l =>
      match items with
      | Some it => flat_map (violations sm pm it) l
      | None => []
      end ++ v_minitems mni l ++ v_maxitems mxi l
  | JNum n => v_minimum pm mn n ++ v_maximum pm mx n ++ v_multiple sm pm mo n
  | _ => []
  end.
Proof. reflexivity. Qed.

Lemma props_viol_nil sm pm o props :
  Forall (fun kv => forall j, violations sm pm (snd kv) j = [] <-> Valid sm pm (snd kv) j) props ->
  (props_viol sm pm o props = [] <->
   forall k sub v, In (k, sub) props -> assoc k o = Some v -> Valid sm pm sub v).
Proof.
  induction props as [|[k sub] r IH]; intros HF; simpl.
  - split; [intros _ k sub v [] | reflexivity].
  - inversion HF as [|x l Hx Hr]; subst. simpl in Hx. rewrite app_nil_iff, (IH Hr). split.
    + intros [H1 H2] k' sub' v [Heq|Hin] Ha.
      * injection Heq as <- <-. rewrite Ha in H1. apply Hx. exact H1.
      * eapply H2; eassumption.
    + intros H. split.
      * destruct (assoc k o) as [v|] eqn:Ea; [|reflexivity]. apply Hx. eapply H; [left; reflexivity | exact Ea].
      * intros k' sub' v Hin Ha. eapply H; [right; exact Hin | exact Ha].
Qed.

Theorem violations_sound_complete sm pm :
  forall s j, violations sm pm s j = [] <-> Valid sm pm s j.
Proof.
  induction s as [ty en mxl props req cl items mni mxi mn mx mo IHp IHi] using schema_ind'.
  intros j. rewrite violations_unfold. rewrite !app_nil_iff.
  rewrite v_type_nil, v_enum_nil, v_maxlen_nil.
  split.
  - intros [Ht [He [Hl Hrest]]]. constructor; try assumption.
    + intros o k sub v -> Hin Ha. rewrite !app_nil_iff in Hrest. destruct Hrest as [Hp _].
      eapply (proj1 (props_viol_nil sm pm o props IHp)); eassumption.
    + intros o k -> Hin. rewrite !app_nil_iff in Hrest. destruct Hrest as [_ [Hr _]].
      eapply (proj1 (v_required_nil req o)); eassumption.
    + intros Hc o k -> Hin. rewrite !app_nil_iff in Hrest. destruct Hrest as [_ [_ Ha]].
      eapply (proj1 (v_additional_nil cl (keys props) o)); eassumption.
    + intros l it x -> -> Hin. rewrite !app_nil_iff in Hrest. destruct Hrest as [Hi _].
      simpl in IHi. apply IHi. eapply (proj1 (flat_map_nil_iff _ l)); eassumption.
    + intros l n -> Hn. rewrite !app_nil_iff in Hrest. destruct Hrest as [_ [Hm _]].
      eapply (proj1 (v_minitems_nil mni l)); eassumption.
    + intros l n -> Hn. rewrite !app_nil_iff in Hrest. destruct Hrest as [_ [_ Hm]].
      eapply (proj1 (v_maxitems_nil mxi l)); eassumption.
    + intros n b -> Hb. rewrite !app_nil_iff in Hrest. destruct Hrest as [Hm _].
      eapply (proj1 (v_minimum_nil pm mn n)); eassumption.
    + intros n b -> Hb. rewrite !app_nil_iff in Hrest. destruct Hrest as [_ [Hm _]].
      eapply (proj1 (v_maximum_nil pm mx n)); eassumption.
    + intros n b -> Hb. rewrite !app_nil_iff in Hrest. destruct Hrest as [_ [_ Hm]].
      eapply (proj1 (v_multiple_nil sm pm mo n)); eassumption.
  - intros HV. inversion HV as [? ? ? ? ? ? ? ? ? ? ? ? ? Ht He Hl Hp Hr Ha Hi Hmi Hma Hmn Hmx Hmo]; subst.
    repeat split; try assumption.
    destruct j as [| b | n | s | l | o]; try reflexivity.
    + rewrite !app_nil_iff. repeat split.
      * apply v_minimum_nil. intros b Hb. eapply Hmn; [reflexivity | exact Hb].
      * apply v_maximum_nil. intros b Hb. eapply Hmx; [reflexivity | exact Hb].
      * apply v_multiple_nil. intros b Hb. eapply Hmo; [reflexivity | exact Hb].
    + rewrite !app_nil_iff. repeat split.
      * destruct items as [it|]; [|reflexivity]. apply flat_map_nil_iff. intros x Hx.
        simpl in IHi. apply IHi. eapply Hi; [reflexivity | reflexivity | exact Hx].
      * apply v_minitems_nil. intros n Hn. eapply Hmi; [reflexivity | exact Hn].
      * apply v_maxitems_nil. intros n Hn. eapply Hma; [reflexivity | exact Hn].
    + rewrite !app_nil_iff. repeat split.
      * apply (props_viol_nil sm pm o props IHp). intros k sub v Hin Hk. eapply Hp; [reflexivity | exact Hin | exact Hk].
      * apply v_required_nil. intros k Hk. eapply Hr; [reflexivity | exact Hk].
      * apply v_additional_nil. intros Hc k Hk. eapply Ha; [exact Hc | reflexivity | exact Hk].
Qed.
