(* Shipped.v -- the model instantiated with the tables regenerated from the working tree. *)
From Coq Require Import List String.
From OV.Model Require Import Json Schema Validate.
From OV.Gen Require Import Schemas16 Schemas201 Enums16 Enums201.
Import ListNotations.

Definition shipped (v : version) : list (string * schema) :=
  match v with V16 => schemas16 | V201 => schemas201 end.
Definition actions_of (v : version) : list string :=
  match v with V16 => actions16 | V201 => actions201 end.
Definition validate_shipped := validate shipped.
