(* Shipped.v -- the model instantiated with the tables regenerated from the working tree. *)
From Coq Require Import List String.
From OV.Model Require Import Json Schema Validate.
From OV.Gen Require Import Schemas16 Schemas201 Enums16 Enums201.
Import ListNotations.

Definition shipped (v : version) : list (string * schema) :=
  match v with V16 => schemas16 | V201 => schemas201 end.
Definition actions_of (v : version) : list string :=
  match v with V16 => actions16 | V201 => actions201 end.
Definition validate_shipped := validate shipped.

From OV.Gen Require Import Classes16 Classes201 Errors.
From OV.Model Require Import Classes.
From Coq Require Import DecimalString.
Definition results_of (v : version) : list classdef :=
  match v with V16 => results16 | V201 => results201 end.
Definition calls_of (v : version) : list classdef :=
  match v with V16 => calls16 | V201 => calls201 end.
(* the deterministic id generator the harness installs: "gen-<n>" *)
Definition gen_id (n : nat) : string := ("gen-" ++ NilEmpty.string_of_uint (Nat.to_uint n))%string.
