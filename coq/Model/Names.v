(* Names.v -- ocpp.charge_point.camel_to_snake_case / snake_to_camel_case on one key,
   and their lifting to every key of a JSON value. ASCII keys (the OCPP vocabulary). *)
From Coq Require Import List ZArith Bool String Ascii Lia.
From OV.Model Require Import Json.
From OV.Gen Require Import NameRules.
Import ListNotations.
Local Open Scope string_scope.

Definition code (c : ascii) : N := N_of_ascii c.
Definition is_upper (c : ascii) : bool := (N.leb 65 (code c) && N.leb (code c) 90)%N.
Definition is_lower (c : ascii) : bool := (N.leb 97 (code c) && N.leb (code c) 122)%N.
Definition is_digit (c : ascii) : bool := (N.leb 48 (code c) && N.leb (code c) 57)%N.
Definition is_newline (c : ascii) : bool := N.eqb (code c) 10.
(* str.isspace / regex \s restricted to ASCII *)
Definition is_space (c : ascii) : bool :=
  let n := code c in ((N.leb 9 n && N.leb n 13) || (N.leb 28 n && N.leb n 32))%N.
Definition to_lower (c : ascii) : ascii :=
  if is_upper c then ascii_of_N (code c + 32) else c.
Definition to_upper (c : ascii) : ascii :=
  if is_lower c then ascii_of_N (code c - 32) else c.

Fixpoint lower (s : string) : string :=
  match s with EmptyString => EmptyString | String c r => String (to_lower c) (lower r) end.

(* Python str.replace(pat, rep) for non-empty pat: leftmost, non-overlapping *)
Fixpoint replace_aux (pat rep s : string) (skip : nat) : string :=
  match s with
  | EmptyString => EmptyString
  | String c r =>
      match skip with
      | S k => replace_aux pat rep r k
      | O =>
          if prefix pat s
          then rep ++ replace_aux pat rep r (Nat.pred (String.length pat))
          else String c (replace_aux pat rep r 0)
      end
  end.
Definition replace (pat rep s : string) : string :=
  match pat with EmptyString => s | _ => replace_aux pat rep s 0 end.

(* re.sub("(.)([A-Z][a-z]+)", r"\1_\2", s): left-to-right, non-overlapping, greedy *)
Inductive re1_mode := M1Normal | M1Skip2 | M1Skip1 | M1InLower.
Fixpoint re1 (s : string) (m : re1_mode) : string :=
  match s with
  | EmptyString => EmptyString
  | String c r =>
      let normal :=
        match r with
        | String u (String l _) =>
            if negb (is_newline c) && is_upper u && is_lower l
            then String c (String "_" (String u (String l (re1 r M1Skip2))))
            else String c (re1 r M1Normal)
        | _ => String c (re1 r M1Normal)
        end in
      match m with
      | M1Normal => normal
      | M1Skip2 => re1 r M1Skip1
      | M1Skip1 => re1 r M1InLower
      | M1InLower => if is_lower c then String c (re1 r M1InLower) else normal
      end
  end.

(* re.sub("([a-z0-9])([A-Z])(?=\S)", r"\1_\2", s) *)
Fixpoint re2 (s : string) : string :=
  match s with
  | EmptyString => EmptyString
  | String a r =>
      match r with
      | String u (String x _) =>
          if (is_lower a || is_digit a) && is_upper u && negb (is_space x)
          then String a (String "_" (re2 r))
          else String a (re2 r)
      | _ => String a (re2 r)
      end
  end.

(* the literal key.replace(a, b) steps, in the order the code applies them: regenerated from the
   source of the two functions on every run (Gen/NameRules.v) *)
Definition apply_replaces (rs : list (string * string)) (key : string) : string :=
  fold_left (fun k p => replace (fst p) (snd p) k) rs key.

Definition c2s (key : string) : string :=
  let key := apply_replaces c2s_replaces key in
  let s1 := re1 key M1Normal in
  lower (re2 s1).

(* components = key.split("_"); components[0] + "".join(x[:1].upper() + x[1:] ...) *)
Fixpoint camel_join (s : string) (cap : bool) : string :=
  match s with
  | EmptyString => EmptyString
  | String c r =>
      if Ascii.eqb c "_" then camel_join r true
      else String (if cap then to_upper c else c) (camel_join r false)
  end.

Definition s2c (key : string) : string :=
  camel_join (apply_replaces s2c_replaces key) false.

(* dict semantics of a re-keyed object: a later equal key overwrites the value in place *)
Fixpoint dict_set (k : string) (v : json) (l : list (string * json)) : list (string * json) :=
  match l with
  | [] => [(k, v)]
  | (k', v') :: r => if String.eqb k k' then (k, v) :: r else (k', v') :: dict_set k v r
  end.
Definition dict_norm (l : list (string * json)) : list (string * json) :=
  fold_left (fun acc kv => dict_set (fst kv) (snd kv) acc) l [].

Fixpoint rekey (f : string -> string) (j : json) : json :=
  match j with
  | JArr l => JArr (map (rekey f) l)
  | JObj l =>
      JObj (dict_norm ((fix go (l : list (string * json)) : list (string * json) :=
                          match l with
                          | [] => []
                          | (k, v) :: r => (f k, rekey f v) :: go r
                          end) l))
  | _ => j
  end.

Definition c2s_keys : json -> json := rekey c2s.
Definition s2c_keys : json -> json := rekey s2c.

(* a lower-case Python identifier that is not a keyword *)
Definition ident_start (c : ascii) : bool := is_lower c || Ascii.eqb c "_".
Definition ident_char (c : ascii) : bool := is_lower c || is_digit c || Ascii.eqb c "_".
Fixpoint all_chars (p : ascii -> bool) (s : string) : bool :=
  match s with EmptyString => true | String c r => p c && all_chars p r end.
Definition py_keywords : list string :=
  ["False";"None";"True";"and";"as";"assert";"async";"await";"break";"class";"continue";
   "def";"del";"elif";"else";"except";"finally";"for";"from";"global";"if";"import";"in";
   "is";"lambda";"nonlocal";"not";"or";"pass";"raise";"return";"try";"while";"with";"yield"].
Definition lower_identifier (s : string) : bool :=
  match s with
  | EmptyString => false
  | String c _ => ident_start c && all_chars ident_char s && negb (mem s py_keywords)
  end.
