(* CaseNet.v -- comparison used by the `loopback` and `relay` correspondences. *)
From Coq Require Import List ZArith NArith Bool String.
From OV.Model Require Import Json Names Schema Validate Frame Classes Dispatch Endpoint Net Shipped CaseLib CaseHistory.
From OV.Gen Require Import Errors.
Import ListNotations.
Local Open Scope string_scope.

Definition shipped_loopback := loopback shipped actions_of errors results_of gen_id.
Definition shipped_relay := relay shipped actions_of errors results_of gen_id.

Record nobs := mkNObs {
  no_call : option json;        (* CALL frame on the wire *)
  no_kwargs : option json;      (* keywords the handler received *)
  no_reply : option json;       (* reply frame on the wire *)
  no_outcome : option ooutcome }.

Definition ojson_same (strict : bool) (a b : option json) : bool :=
  match a, b with
  | None, None => true
  | Some x, Some y => json_sameb strict x y
  | _, _ => false
  end.

Definition reply_same (m o : option json) : bool :=
  match m, o with
  | None, None => true
  | Some (JArr [t; i; JStr c; d; x]), Some (JArr [t'; i'; JStr c'; d'; x']) =>
      (* CALLERROR: type, id, code; description and details where the model fixes them *)
      json_sameb false t t' && json_sameb false i i' && String.eqb c c'
  | Some x, Some y => json_sameb false x y
  | _, _ => false
  end.

Definition x_kwargs (x : exchange) : option json :=
  first_some (fun e => match e with EvHandler _ kw _ => Some kw | _ => None end) (x_events x).

Definition xagree (x : exchange) (o : nobs) : bool :=
  ojson_same false (x_call x) (no_call o) && ojson_same true (x_kwargs x) (no_kwargs o)
  && reply_same (x_reply x) (no_reply o)
  && match x_outcome x, no_outcome o with
     | Some m, Some oo => outcome_agree m oo
     | None, None => true
     | _, _ => false
     end.

Record ncase := mkN { nc_ver : version; nc_handler : option h_out; nc_uid : json; nc_action : string;
                      nc_snake : json; nc_skip : bool; nc_suppress : bool; nc_obs : nobs }.

Definition ncfgB (c : ncase) : cfg :=
  mkCfg (nc_ver c)
        match nc_handler c with
        | Some out => [(nc_action c, mkRoute (Some (const_handler "handler" (mkSig [] [] true false) out)) None false)]
        | None => []
        end.

Definition nagree (c : ncase) : bool :=
  xagree (shipped_loopback (mkCfg (nc_ver c) []) (ncfgB c) (nc_uid c) (nc_action c) (nc_snake c) (nc_skip c) (nc_suppress c))
         (nc_obs c).
Definition ndisagreements (cs : list ncase) : list N := bad nagree cs 0%N.

(* relay: A -> B -> C; C's handler is scripted, B forwards *)
Record rlcase := mkRL { rl_ver : version; rl_final : h_out; rl_action : string; rl_snake : json;
                        rl_hop1 : nobs; rl_hop2 : nobs }.
Definition rlagree (c : rlcase) : bool :=
  let cC := mkCfg (rl_ver c) [(rl_action c, mkRoute (Some (const_handler "final" (mkSig [] [] true false) (rl_final c))) None false)] in
  let (h1, h2) := shipped_relay (mkCfg (rl_ver c) []) cC (rl_ver c) (JStr "a-id") (rl_action c) (rl_snake c) in
  xagree h1 (rl_hop1 c) && xagree h2 (rl_hop2 c).
Definition rldisagreements (cs : list rlcase) : list N := bad rlagree cs 0%N.
