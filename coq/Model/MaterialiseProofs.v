(* MaterialiseProofs.v -- "any schema-valid reply can be materialised as its result class":
   from the class/schema agreement (C11), the name bijection (C10) and declarative validity (C04). *)
From Coq Require Import List ZArith Bool String Ascii Lia.
From OV.Model Require Import Json Names NamesProofs Schema SchemaProofs Classes Vocab VocabProofs ClassCheck ClassCheckProofs.
Import ListNotations.

Lemma inj_on_of_NoDup_map {A B} (f : A -> B) (P : list A) :
  NoDup (map f P) -> forall x y, In x P -> In y P -> f x = f y -> x = y.
Proof.
  induction P as [|a r IH]; intros ND x y Hx Hy Hf; [contradiction|].
  simpl in ND. inversion ND as [|b t Hnotin ND']; subst.
  destruct Hx as [<-|Hx], Hy as [<-|Hy]; try reflexivity.
  - exfalso. apply Hnotin. rewrite Hf. apply in_map. exact Hy.
  - exfalso. apply Hnotin. rewrite <- Hf. apply in_map. exact Hx.
  - apply IH; assumption.
Qed.

Lemma NoDup_map_sub {A B} (f : A -> B) (P l : list A) :
  NoDup (map f P) -> NoDup l -> (forall x, In x l -> In x P) -> NoDup (map f l).
Proof.
  intros NDP ND Hsub. induction ND as [|x r Hx ND IH]; simpl; [constructor|].
  constructor.
  - intros Hin. apply in_map_iff in Hin. destruct Hin as [y [Hfy Hy]].
    assert (y = x). { apply (inj_on_of_NoDup_map f P NDP); [apply Hsub; right; exact Hy | apply Hsub; left; reflexivity | exact Hfy]. }
    subst. contradiction.
  - apply IH. intros y Hy. apply Hsub. right. exact Hy.
Qed.

(* the keyword arguments the library builds from a top-level payload object *)
Definition kwargs_keys (o : list (string * json)) : list string :=
  match c2s_keys (JObj o) with JObj l => keys l | _ => [] end.

Lemma kwargs_keys_nodup o : NoDup (map c2s (keys o)) -> kwargs_keys o = map c2s (keys o).
Proof.
  intros ND. unfold kwargs_keys, c2s_keys. rewrite rekey_obj.
  rewrite dict_norm_nodup; [apply keys_rekey_pairs|]. rewrite keys_rekey_pairs. exact ND.
Qed.

(* cls( **kwargs ) succeeds: no unexpected keyword, no missing mandatory one *)
Definition constructible (c : classdef) (kw : list string) : Prop :=
  (forall k, In k kw -> In k (map f_name (c_fields c))) /\
  (forall f, In f (c_fields c) -> f_default f = NoDefault -> In (f_name f) kw).

Theorem valid_materialises sm pm (c : classdef) (s : schema) (o : list (string * json)) :
  ClassAgrees c s ->
  s_closed s = true ->
  NoDup (map c2s (prop_names s)) ->
  (forall f, In f (c_fields c) -> c2s (s2c (f_name f)) = f_name f) ->
  NoDup (keys o) ->
  Valid sm pm s (JObj o) ->
  constructible c (kwargs_keys o).
Proof.
  intros [Hfields Hprops Hmand Homit] Hclosed NDc Hrt NDo HV.
  inversion HV as [ty en mxl props req cl items mni mxi mn mx mo j Ht He Hl Hp Hr Ha Hi Hmi Hma Hmn Hmx Hmo Es Ej]; subst.
  simpl in Hclosed. subst cl.
  assert (Hsub : forall k, In k (keys o) -> In k (keys props)).
  { intros k Hk. eapply Ha; [reflexivity | reflexivity | exact Hk]. }
  assert (NDk : NoDup (map c2s (keys o))).
  { apply (NoDup_map_sub c2s (keys props)); [exact NDc | exact NDo | exact Hsub]. }
  rewrite (kwargs_keys_nodup o NDk). split.
  - intros k Hk. apply in_map_iff in Hk. destruct Hk as [w [<- Hw]].
    pose proof (Hprops w (Hsub w Hw)) as Hc. unfold camel_fields in Hc. apply in_map_iff in Hc.
    destruct Hc as [f [<- Hf]]. rewrite (Hrt f Hf). apply in_map. exact Hf.
  - intros f Hf Hd. pose proof (Hmand f Hf Hd) as Hreq. simpl in Hreq.
    destruct (Hr o (s2c (f_name f)) eq_refl Hreq) as [v Hv].
    assert (Hin : In (s2c (f_name f)) (keys o)) by (apply assoc_In_keys; exists v; exact Hv).
    rewrite <- (Hrt f Hf). apply in_map. exact Hin.
Qed.

Definition mat_ok (suffix : string) (t : list (string * schema)) (c : classdef) : bool :=
  match assoc (c_name c ++ suffix)%string t with
  | Some s => s_closed s && nodupb (map c2s (prop_names s))
              && forallb (fun f => String.eqb (c2s (s2c (f_name f))) (f_name f)) (c_fields c)
  | None => false
  end.

Theorem table_materialises datas suffix t cs :
  table_problems datas suffix t cs = [] -> forallb (mat_ok suffix t) cs = true ->
  forall c, In c cs ->
    exists s, assoc (c_name c ++ suffix)%string t = Some s /\
              forall sm pm o, NoDup (keys o) -> Valid sm pm s (JObj o) -> constructible c (kwargs_keys o).
Proof.
  intros Hp Hm c Hc.
  destruct (table_problems_nil datas suffix t cs Hp c Hc) as [s [Hs [Hag _]]].
  rewrite forallb_forall in Hm. specialize (Hm c Hc). unfold mat_ok in Hm. rewrite Hs in Hm.
  apply andb_true_iff in Hm. destruct Hm as [Hm H3]. apply andb_true_iff in Hm. destruct Hm as [H1 H2].
  exists s. split; [exact Hs|]. intros sm pm o NDo HV.
  apply (valid_materialises sm pm c s o Hag H1); [apply nodupb_NoDup; exact H2 | | exact NDo | exact HV].
  intros f Hf. rewrite forallb_forall in H3. apply String.eqb_eq. apply H3. exact Hf.
Qed.
