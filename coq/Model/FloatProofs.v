(* FloatProofs.v -- the rounding step of the binary64 conversion in JsonParse.to_double:
   [round_half_even n d] is an integer nearest to n/d (within one half), and on a tie the even one. *)
From Coq Require Import ZArith Lia Bool.
From OV.Model Require Import JsonParse.
Local Open Scope Z_scope.

Lemma round_half_even_near n d : 0 < d ->
  let r := round_half_even n d in
  Z.abs (2 * n - 2 * r * d) <= d /\ n / d <= r <= n / d + 1.
Proof.
  intros D. unfold round_half_even. cbv zeta.
  pose proof (Z.div_mod n d ltac:(lia)) as E. pose proof (Z.mod_pos_bound n d D) as B.
  remember (n / d) as q. remember (n mod d) as m.
  destruct (Z.ltb_spec (2 * m) d); [split; nia|].
  destruct (Z.ltb_spec d (2 * m)); [split; nia|].
  destruct (Z.even q); split; nia.
Qed.

(* exactly halfway: the result is even *)
Lemma round_half_even_tie n d : 0 < d -> 2 * (n mod d) = d -> Z.even (round_half_even n d) = true.
Proof.
  intros D T. unfold round_half_even.
  destruct (Z.ltb_spec (2 * (n mod d)) d); [lia|]. destruct (Z.ltb_spec d (2 * (n mod d))); [lia|].
  destruct (Z.even (n / d)) eqn:E; [exact E|]. rewrite Z.even_add, E. reflexivity.
Qed.

(* not halfway: strictly nearer than any other integer *)
Lemma round_half_even_nearest n d k : 0 < d -> 2 * (n mod d) <> d ->
  Z.abs (2 * n - 2 * round_half_even n d * d) <= Z.abs (2 * n - 2 * k * d).
Proof.
  intros D NT. unfold round_half_even.
  pose proof (Z.div_mod n d ltac:(lia)) as E. pose proof (Z.mod_pos_bound n d D) as B.
  remember (n / d) as q. remember (n mod d) as m.
  destruct (Z.ltb_spec (2 * m) d).
  - destruct (Z_le_gt_dec k q); nia.
  - destruct (Z.ltb_spec d (2 * m)); [|lia]. destruct (Z_le_gt_dec k q); nia.
Qed.
