(* DecimalProofs.v -- the OCPP 1.6 multipleOf 0.1 path judged by decimal digits. *)
From Coq Require Import List ZArith Bool String Ascii Lia.
From OV.Model Require Import Json Schema Validate Dispatch.
Import ListNotations.
Local Open Scope Z_scope.

(* |m * 10^e| < 10^n, stated over integers *)
Definition mag_lt (m e n : Z) : Prop :=
  Z.abs m * 10 ^ (Z.max e 0) < 10 ^ n * 10 ^ (Z.max (- e) 0).

(* at most one fractional digit: no non-zero digit at fractional position 2 or later *)
Definition one_frac (m e : Z) : bool :=
  (e >=? -1) || (m mod 10 ^ (- e - 1) =? 0).

Lemma pow10_gt0 k : 0 <= k -> 0 < 10 ^ k.
Proof. intros. apply Z.pow_pos_nonneg; lia. Qed.

Lemma pow10_split a b : 0 <= a -> 0 <= b -> 10 ^ (a + b) = 10 ^ a * 10 ^ b.
Proof. intros. apply Z.pow_add_r; assumption. Qed.

Lemma pow10_mono a b : 0 <= a <= b -> 10 ^ a <= 10 ^ b.
Proof. intros. apply Z.pow_le_mono_r; lia. Qed.

Lemma scale_bound x : x < 10 ^ 9 -> x * 10 < 10 ^ 28.
Proof.
  assert (H9 : 10 ^ 9 = 1000000000) by reflexivity.
  assert (H28 : 10 ^ 28 = 10000000000000000000000000000) by reflexivity.
  rewrite H9, H28. lia.
Qed.

Lemma scale_bound_mul x y : 0 < y -> x < 10 ^ 9 * 10 * y -> x < 10 ^ 28 * y.
Proof.
  assert (H9 : 10 ^ 9 = 1000000000) by reflexivity.
  assert (H28 : 10 ^ 28 = 10000000000000000000000000000) by reflexivity.
  rewrite H9, H28. nia.
Qed.

(* the three facts, for every decimal (m, e) of magnitude below 10^9 *)
Theorem tenth_accept m e :
  mag_lt m e 9 -> one_frac m e = true -> mult_dec m e 1 (-1) = [].
Proof.
  unfold mag_lt, one_frac, mult_dec. cbv zeta. intros Hmag Hf.
  destruct (e >=? -1) eqn:Ee.
  - (* e >= -1 : every value is a multiple of 0.1 *)
    assert (He : -1 <= e) by lia. rewrite Z.min_r by lia.
    replace (-1 - -1) with 0 by lia. rewrite Z.pow_0_r, Z.mul_1_l. simpl (1 =? 0).
    replace (e - -1) with (e + 1) by lia.
    assert (Hb : Z.abs (m * 10 ^ (e + 1)) < prec_bound * Z.abs 1).
    { unfold prec_bound. rewrite Z.abs_mul. rewrite (Z.abs_eq (10 ^ (e + 1))) by (apply Z.lt_le_incl, pow10_gt0; lia).
      simpl (Z.abs 1). rewrite Z.mul_1_r.
      destruct (Z_le_gt_dec 0 e) as [H0|H0].
      + rewrite Z.max_l in Hmag by lia. rewrite (Z.max_r (- e) 0) in Hmag by lia.
        rewrite Z.pow_0_r, Z.mul_1_r in Hmag. rewrite pow10_split by lia.
        change (10 ^ 1) with 10. rewrite Z.mul_assoc. apply scale_bound. exact Hmag.
      + assert (e = -1) by lia. subst e. simpl (-1 + 1). rewrite Z.pow_0_r, Z.mul_1_r.
        rewrite Z.max_r in Hmag by lia. simpl (Z.max (- -1) 0) in Hmag. rewrite Z.pow_0_r, Z.mul_1_r in Hmag.
        change (10 ^ 1) with 10 in Hmag.
        assert (H9 : 10 ^ 9 = 1000000000) by reflexivity.
        assert (H28 : 10 ^ 28 = 10000000000000000000000000000) by reflexivity.
        rewrite H9 in Hmag. rewrite H28. change (10 ^ Z.max 1 0) with 10 in Hmag. lia. }
    apply Z.ltb_lt in Hb. rewrite Hb. rewrite Z.mod_1_r. reflexivity.
  - simpl in Hf. apply Z.eqb_eq in Hf. assert (He : e < -1) by lia.
    rewrite Z.min_l by lia. replace (e - e) with 0 by lia. rewrite Z.pow_0_r, Z.mul_1_r, Z.mul_1_l.
    replace (-1 - e) with (- e - 1) by lia.
    pose proof (pow10_gt0 (- e - 1) ltac:(lia)) as HB.
    assert ((10 ^ (- e - 1) =? 0) = false) as -> by (apply Z.eqb_neq; lia).
    assert (Hb : Z.abs m < prec_bound * Z.abs (10 ^ (- e - 1))).
    { unfold prec_bound. rewrite (Z.abs_eq (10 ^ (- e - 1))) by lia.
      rewrite Z.max_r in Hmag by lia. rewrite Z.max_l in Hmag by lia. rewrite Z.pow_0_r, Z.mul_1_r in Hmag.
      replace (- e) with ((- e - 1) + 1) in Hmag by lia. rewrite pow10_split in Hmag by lia.
      change (10 ^ 1) with 10 in Hmag. apply scale_bound_mul; [exact HB|].
      rewrite <- Z.mul_assoc. rewrite (Z.mul_comm 10). exact Hmag. }
    apply Z.ltb_lt in Hb. rewrite Hb, Hf. reflexivity.
Qed.

Theorem tenth_reject m e :
  mag_lt m e 9 -> one_frac m e = false -> mult_dec m e 1 (-1) = [KMultipleOf].
Proof.
  unfold mag_lt, one_frac, mult_dec. cbv zeta. intros Hmag Hf.
  apply orb_false_iff in Hf. destruct Hf as [Ee Hf].
  assert (He : e < -1) by lia. apply Z.eqb_neq in Hf.
  rewrite Z.min_l by lia. replace (e - e) with 0 by lia. rewrite Z.pow_0_r, Z.mul_1_r, Z.mul_1_l.
  replace (-1 - e) with (- e - 1) by lia.
  pose proof (pow10_gt0 (- e - 1) ltac:(lia)) as HB.
  assert ((10 ^ (- e - 1) =? 0) = false) as -> by (apply Z.eqb_neq; lia).
  assert (Hb : Z.abs m < prec_bound * Z.abs (10 ^ (- e - 1))).
  { unfold prec_bound. rewrite (Z.abs_eq (10 ^ (- e - 1))) by lia.
    rewrite Z.max_r in Hmag by lia. rewrite Z.max_l in Hmag by lia. rewrite Z.pow_0_r, Z.mul_1_r in Hmag.
    replace (- e) with ((- e - 1) + 1) in Hmag by lia. rewrite pow10_split in Hmag by lia.
    change (10 ^ 1) with 10 in Hmag. apply scale_bound_mul; [exact HB|].
    rewrite <- Z.mul_assoc. rewrite (Z.mul_comm 10). exact Hmag. }
  apply Z.ltb_lt in Hb. rewrite Hb.
  assert ((m mod 10 ^ (- e - 1) =? 0) = false) as -> by (apply Z.eqb_neq; exact Hf). reflexivity.
Qed.

(* integer-typed values below 10^9 are accepted *)
Theorem tenth_int z : Z.abs z < 10 ^ 9 -> mult_dec z 0 1 (-1) = [].
Proof.
  intros H. apply tenth_accept; [|reflexivity].
  unfold mag_lt. simpl. lia.
Qed.

(* the keyword as evaluated on a re-tagged payload number is exactly that remainder test *)
Theorem multiple_is_tenth m e k kb :
  v_multiple MDecimal MDecimal (Some (NDec 1 (-1) kb)) (NDec m e k) = mult_dec m e 1 (-1) /\
  (forall z, v_multiple MDecimal MDecimal (Some (NDec 1 (-1) kb)) (NInt z) = mult_dec z 0 1 (-1)).
Proof. split; reflexivity. Qed.

(* an accepted value appears on the wire with the same decimal digits *)
Theorem tenth_wire m e k :
  -1 <= e -> encode (retag (JNum (NDec m e k))) = JNum (NDec m e FFloat).
Proof.
  intros He. simpl. unfold round1. assert ((e >=? -1) = true) as -> by lia. reflexivity.
Qed.

Theorem int_wire z : encode (retag (JNum (NInt z))) = JNum (NInt z).
Proof. reflexivity. Qed.

(* where the schemas demand multiples: every multipleOf in the tables *)
Fixpoint multiples (s : schema) : list num :=
  match s with
  | Sch _ _ _ props _ _ items _ _ _ _ mo =>
      match mo with Some b => [b] | None => [] end
      ++ (fix go (ps : list (string * schema)) : list num :=
            match ps with [] => [] | (_, sub) :: r => multiples sub ++ go r end) props
      ++ match items with Some it => multiples it | None => [] end
  end.

Definition is_tenth (n : num) : bool :=
  match n with NDec 1 (-1) _ => true | _ => false end.

(* files with a multipleOf, with the number of positions *)
Definition multiple_files (t : list (string * schema)) : list (string * nat) :=
  flat_map (fun kv => match multiples (snd kv) with [] => [] | l => [(fst kv, List.length l)] end) t.
