(* JsonText.v -- the text json.dumps(value, separators=(",", ":")) writes (ensure_ascii default):
   what to_json puts on the wire, character by character. *)
From Coq Require Import List ZArith NArith Bool String Ascii.
From OV.Model Require Import Json Digits.
Import ListNotations.
Local Open Scope string_scope.

(* ---------- integers ---------- *)
Definition nat_digits (n : N) : string := dstr (digits n).
Definition int_text (z : Z) : string :=
  match z with
  | Z0 => "0"
  | Zpos p => nat_digits (Npos p)
  | Zneg p => "-" ++ nat_digits (Npos p)
  end.

(* ---------- floats: Python's repr from the shortest digits m * 10^e ---------- *)
Definition float_text (m e : Z) : string :=
  let sign := if Z.ltb m 0 then "-" else "" in
  let ds := digits (Z.to_N (Z.abs m)) in
  let n := Z.of_nat (List.length ds) in
  let decpt := (n + e)%Z in                       (* position of the decimal point *)
  if Z.eqb m 0 then "0.0"
  else if (Z.ltb (-4) decpt && Z.leb decpt 16)%bool then
    (if Z.leb decpt 0 then sign ++ "0." ++ dstr (repeat 0%N (Z.to_nat (- decpt)) ++ ds)
     else if Z.leb n decpt then sign ++ dstr (ds ++ repeat 0%N (Z.to_nat (decpt - n))) ++ ".0"
     else sign ++ dstr (firstn (Z.to_nat decpt) ds) ++ "." ++ dstr (skipn (Z.to_nat decpt) ds))
  else
    let ex := (decpt - 1)%Z in
    let mant := dstr (firstn 1 ds) ++ (match skipn 1 ds with [] => "" | tl => "." ++ dstr tl end) in
    let exds := digits (Z.to_N (Z.abs ex)) in
    sign ++ mant ++ "e" ++ (if Z.ltb ex 0 then "-" else "+") ++ dstr (match exds with [d] => [0%N; d] | _ => exds end).

Definition num_text (n : num) : string :=
  match n with
  | NInt z => int_text z
  | NDec m e _ => float_text m e        (* a Decimal never reaches json.dumps: _DecimalEncoder turns it into a float *)
  | NNaN => "NaN"
  | NInf neg => if neg then "-Infinity" else "Infinity"
  end.

(* ---------- strings: UTF-8 bytes -> code points -> escapes ---------- *)
Definition byte (c : ascii) : N := N_of_ascii c.

(* decode one code point; returns (code point, rest); malformed sequences are passed through bytewise *)
Definition decode1 (s : string) : option (N * string) :=
  match s with
  | EmptyString => None
  | String a r =>
      let b0 := byte a in
      if N.ltb b0 128 then Some (b0, r)
      else if N.ltb b0 224 then
        match r with
        | String b r1 => Some (((b0 - 192) * 64 + (byte b - 128))%N, r1)
        | _ => Some (b0, r)
        end
      else if N.ltb b0 240 then
        match r with
        | String b (String c0 r2) => Some (((b0 - 224) * 4096 + (byte b - 128) * 64 + (byte c0 - 128))%N, r2)
        | _ => Some (b0, r)
        end
      else
        match r with
        | String b (String c0 (String d r3)) =>
            Some (((b0 - 240) * 262144 + (byte b - 128) * 4096 + (byte c0 - 128) * 64 + (byte d - 128))%N, r3)
        | _ => Some (b0, r)
        end
  end.

Definition hexdigit (n : N) : ascii :=
  ascii_of_N (if N.ltb n 10 then 48 + n else 87 + n).
Definition hex4 (n : N) : string :=
  String (hexdigit (N.div n 4096 mod 16)) (String (hexdigit (N.div n 256 mod 16))
    (String (hexdigit (N.div n 16 mod 16)) (String (hexdigit (n mod 16)) EmptyString))).

Definition escape_cp (cp : N) : string :=
  if N.eqb cp 34 then "\"""                       (* the two characters backslash, quote *)
  else if N.eqb cp 92 then "\\"
  else if N.eqb cp 10 then "\n"
  else if N.eqb cp 13 then "\r"
  else if N.eqb cp 9 then "\t"
  else if N.eqb cp 8 then "\b"
  else if N.eqb cp 12 then "\f"
  else if N.ltb cp 32 then "\u" ++ hex4 cp
  else if N.ltb cp 127 then String (ascii_of_N cp) EmptyString
  else if N.ltb cp 65536 then "\u" ++ hex4 cp
  else let v := (cp - 65536)%N in
       "\u" ++ hex4 (55296 + N.div v 1024) ++ "\u" ++ hex4 (56320 + v mod 1024).

(* fuel = number of bytes: each step consumes at least one *)
Fixpoint escape_str (fuel : nat) (s : string) : string :=
  match fuel with
  | O => ""
  | S f => match decode1 s with
           | None => ""
           | Some (cp, r) => escape_cp cp ++ escape_str f r
           end
  end.

Definition str_text (s : string) : string := """" ++ escape_str (String.length s) s ++ """".

(* ---------- values ---------- *)
Fixpoint join (sep : string) (l : list string) : string :=
  match l with
  | [] => ""
  | [x] => x
  | x :: r => x ++ sep ++ join sep r
  end.

Fixpoint print_compact (j : json) : string :=
  match j with
  | JNull => "null"
  | JBool b => if b then "true" else "false"
  | JNum n => num_text n
  | JStr s => str_text s
  | JArr l => "[" ++ join "," (map print_compact l) ++ "]"
  | JObj l => "{" ++ join "," (map (fun kv => str_text (fst kv) ++ ":" ++ print_compact (snd kv)) l) ++ "}"
  end.
