(* FrameTextProofs.v -- the OCPP-J frame at the text level: what to_json writes, unpack reads back. *)
From Coq Require Import List ZArith NArith Bool String Ascii Lia.
From OV.Model Require Import Json Digits JsonText JsonParse JsonParseProofs Utf8Proofs StringRoundTrip JsonRoundTrip
     Schema Frame FrameProofs FrameText.
Import ListNotations.
Local Open Scope string_scope.

Definition msg_fields (m : msg) : list json :=
  match m with
  | Call i a p => [i; a; p]
  | CallResult i p _ => [i; p]
  | CallError i c d x => [i; c; d; match x with Some v => v | None => JNull end]
  end.

Definition msg_wf (m : msg) : Prop := Forall (wf FFloat) (msg_fields m).
Definition msg_depth_ok (limit : nat) (m : msg) : Prop := Forall (fun x => S (depth x) <= limit) (msg_fields m).

Lemma int_ok_digit z : (Z.abs z < 10)%Z -> int_ok z.
Proof.
  intros H. unfold int_ok, int_max_str_digits.
  assert (E : exists k, (k < 10)%N /\ Z.to_N (Z.abs z) = k) by (exists (Z.to_N (Z.abs z)); split; [lia|reflexivity]).
  destruct E as [k [K ->]].
  assert (D : digits k = [k]).
  { unfold digits. destruct (N.to_nat (N.log2 k)); cbn [digits_go]; [reflexivity|].
    destruct (N.ltb_spec k 10); [reflexivity|lia]. }
  rewrite D. cbn [List.length]. apply Nat.leb_le. vm_compute. reflexivity.
Qed.

Lemma wf_two : wf FFloat (JNum (NInt 2)) /\ wf FFloat (JNum (NInt 3)) /\ wf FFloat (JNum (NInt 4)).
Proof. repeat split; apply int_ok_digit; reflexivity. Qed.

Lemma pack_v_wf m : msg_wf m -> wf FFloat (pack_v m).
Proof.
  destruct wf_two as [W2 [W3 W4]].
  unfold msg_wf. intros F. destruct m as [i a p | i p a | i c d x]; cbn [pack_v msg_fields] in *; apply wf_arr;
    constructor; assumption.
Qed.

Lemma pack_v_depth limit m : msg_depth_ok limit m -> depth (pack_v m) <= limit.
Proof.
  unfold msg_depth_ok. intros F.
  assert (G : forall l, Forall (fun x => S (depth x) <= limit) l -> 1 <= limit ->
                        depth (JArr l) <= limit).
  { intros l Fl L1. destruct limit as [|k]; [lia|]. apply depth_arr.
    eapply Forall_impl; [|exact Fl]. cbv beta. intros; lia. }
  destruct m as [i a p | i p a | i c d x]; cbn [pack_v msg_fields] in *.
  - apply G; [constructor; [cbn; inversion F; lia|exact F]|inversion F; lia].
  - apply G; [constructor; [cbn; inversion F; lia|exact F]|inversion F; lia].
  - apply G; [constructor; [cbn; inversion F; lia|exact F]|inversion F; lia].
Qed.

(* serialise, then parse the text: the same message *)
Theorem unpack_text_pack_text limit m :
  msg_wf m -> msg_depth_ok limit m ->
  exists m', unpack_text limit (pack_text m) = UMsg m' /\ same_message m m'.
Proof.
  intros W D. unfold unpack_text, pack_text.
  rewrite (loads_print limit (pack_v m) (pack_v_wf m W) (pack_v_depth limit m D)).
  cbn [outcome_of unpack]. apply unpack_pack.
Qed.

(* ---- non-vacuity ---- *)
Example float_ok_examples :
  float_ok 214 (-1) /\ float_ok 1 22 /\ float_ok 5 (-324) /\ float_ok (-25) (-8) /\ float_ok 0 0 /\
  float_ok 17976931348623157 292 /\ float_ok 11258999068426242 (-1).
Proof. repeat split; try (intros H; discriminate H); vm_compute; reflexivity. Qed.

Definition sample_call : msg :=
  Call (JStr "i") (JStr "MeterValues")
       (JObj [("v", JArr [JNum (NDec 214 (-1) FFloat); JBool true; JNull; JNum (NInt (-7))]);
              ("s", JStr (encode [97; 233; 128512; 34; 10]%N))]).

Lemma WfStr_of cps : Forall cp_ok cps -> no_pairs cps -> WfStr (encode cps).
Proof. intros; eexists; eauto. Qed.

Example sample_wf : msg_wf sample_call /\ msg_depth_ok 1497 sample_call.
Proof.
  split.
  - unfold msg_wf, sample_call, msg_fields. constructor; [|constructor; [|constructor; [|constructor]]].
    + apply (WfStr_of [105]%N); repeat constructor.
    + apply (WfStr_of [77; 101; 116; 101; 114; 86; 97; 108; 117; 101; 115]%N); repeat constructor.
    + apply wf_obj. split; [repeat constructor; cbn; intuition discriminate|].
      constructor; [|constructor; [|constructor]].
      * split; [apply (WfStr_of [118]%N); repeat constructor|].
        apply wf_arr. constructor; [|constructor; [exact I|constructor; [exact I|constructor; [|constructor]]]].
        { split; [reflexivity|]. destruct float_ok_examples as [H _]. unfold lit_ok. unfold float_ok in H.
          destruct (214 =? 0)%Z; [exact H|]. destruct H as [H1 H2]. split; [exact H1|intros _; exact H2]. }
        { apply int_ok_digit. reflexivity. }
      * split; [apply (WfStr_of [115]%N); repeat constructor|].
        apply (WfStr_of [97; 233; 128512; 34; 10]%N); [repeat constructor|cbn; intuition discriminate].
  - unfold msg_depth_ok, sample_call, msg_fields. repeat constructor; cbn; lia.
Qed.

(* the theorem applies to it, and the model computes the same *)
Example sample_roundtrip :
  exists m', unpack_text 1497 (pack_text sample_call) = UMsg m' /\ same_message sample_call m'.
Proof. destruct sample_wf as [W D]. exact (unpack_text_pack_text 1497 sample_call W D). Qed.

Example sample_text :
  pack_text sample_call =
  "[2,""i"",""MeterValues"",{""v"":[21.4,true,null,-7],""s"":""a\u00e9\ud83d\ude00\""\n""}]".
Proof. vm_compute. reflexivity. Qed.
