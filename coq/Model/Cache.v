(* Cache.v -- ocpp.messages.get_validator's cache (_validators): a validator is stored under
   schema_name + "_" + version and carries the float mode its schema was parsed in; a later
   request with the same key reuses it whatever mode it would itself ask for. *)
From Coq Require Import List ZArith Bool String Ascii.
From OV.Model Require Import Json Schema Validate.
Import ListNotations.
Local Open Scope string_scope.

Definition cache := list (string * mode).

Definition cache_key (v : version) (mt : mtype) (a : string) : string :=
  schema_name v mt a ++ "_" ++ version_str v.

Record req := mkReq { rq_ver : version; rq_mt : mtype; rq_action : string; rq_payload : json }.
Definition rq_key (r : req) : string := cache_key (rq_ver r) (rq_mt r) (rq_action r).
Definition rq_mode (r : req) : mode := mode_of (rq_ver r) (rq_mt r) (rq_action r).

Section Cache.
  Variable tbl : version -> list (string * schema).

  Definition pure_verdict (r : req) : vresult :=
    validate tbl (rq_ver r) (rq_mt r) (rq_action r) (rq_payload r).

  Definition with_mode (sm : mode) (r : req) : vresult :=
    match assoc (schema_name (rq_ver r) (rq_mt r) (rq_action r)) (tbl (rq_ver r)) with
    | None => VNoSchema
    | Some s => validate_with sm s (rq_ver r) (rq_mt r) (rq_action r) (rq_payload r)
    end.

  (* one sequential validation *)
  Definition validate_step (c : cache) (r : req) : cache * vresult :=
    match assoc (rq_key r) c with
    | Some sm => (c, with_mode sm r)
    | None =>
        match assoc (schema_name (rq_ver r) (rq_mt r) (rq_action r)) (tbl (rq_ver r)) with
        | None => (c, VNoSchema)                                   (* OSError: nothing is cached *)
        | Some _ => ((rq_key r, rq_mode r) :: c, with_mode (rq_mode r) r)
        end
    end.

  Definition run_cache (h : list req) : cache := fold_left (fun c r => fst (validate_step c r)) h [].

  (* concurrent validations: lookup, (load,) store are separate atomic steps of each thread *)
  Inductive tstate :=
  | TInit (r : req)
  | TLoaded (r : req) (sm : mode)       (* missed; has built its own validator in mode sm *)
  | TDone (r : req) (res : vresult).

  Definition thread_step (c : cache) (t : tstate) : cache * tstate :=
    match t with
    | TInit r =>
        match assoc (rq_key r) c with
        | Some sm => (c, TDone r (with_mode sm r))
        | None =>
            match assoc (schema_name (rq_ver r) (rq_mt r) (rq_action r)) (tbl (rq_ver r)) with
            | None => (c, TDone r VNoSchema)
            | Some _ => (c, TLoaded r (rq_mode r))
            end
        end
    | TLoaded r sm => ((rq_key r, sm) :: c, TDone r (with_mode sm r))
    | TDone r res => (c, t)
    end.

  Fixpoint update_nth {A} (n : nat) (x : A) (l : list A) : list A :=
    match l, n with
    | [], _ => []
    | _ :: r, O => x :: r
    | y :: r, S k => y :: update_nth k x r
    end.

  (* a schedule names, step by step, the thread that moves *)
  Fixpoint run_threads (sched : list nat) (c : cache) (ts : list tstate) : cache * list tstate :=
    match sched with
    | [] => (c, ts)
    | i :: rest =>
        match nth_error ts i with
        | Some t => let (c', t') := thread_step c t in run_threads rest c' (update_nth i t' ts)
        | None => run_threads rest c ts
        end
    end.
End Cache.
