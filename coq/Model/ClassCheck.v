(* ClassCheck.v -- walking the dataclass tables and the schema tables in parallel (C11, C12).
   Every function returns the list of problems it finds, as readable items. *)
From Coq Require Import List ZArith Bool String Ascii.
From OV.Model Require Import Json Names Schema Classes Vocab.
Import ListNotations.
Local Open Scope string_scope.

Inductive problem :=
| PFieldNotInSchema (cls field : string)          (* a field whose camelCase form is no property there *)
| PPropNotInClass (cls prop : string)             (* a schema property the class has no field for *)
| PMandatoryNotRequired (cls field : string)      (* must be supplied, but the schema does not require it *)
| POmittableRequired (cls field : string)         (* may be left out (default None), but the schema requires it *)
| PShape (cls field : string)                     (* annotation shape differs from the schema type *)
| PNoDataClass (cls field data : string)
| PNestedField (cls field data dfield : string)   (* nested data type has a field the schema position lacks *)
| PNestedRequired (cls field data prop : string)  (* nested data type lacks a property the position requires *)
| PNoSchema (cls : string)
| PNoFit (data : string)                          (* a data type that fits no object position at all *)
| PFuel.

Definition camel_fields (c : classdef) : list string := map (fun f => s2c (f_name f)) (c_fields c).

Definition stype_eqb (a b : stype) : bool :=
  match a, b with
  | TyString, TyString | TyInteger, TyInteger | TyNumber, TyNumber | TyBoolean, TyBoolean
  | TyObject, TyObject | TyArray, TyArray | TyNull, TyNull => true
  | _, _ => false
  end.

Definition type_is (t : stype) (s : schema) : bool :=
  match s_ty s with Some t' => stype_eqb t t' | None => true end.

Section Walk.
  Variable datas : list classdef.

  (* does annotation [sh] have the shape of schema [s]?  Nested data types are followed. *)
  Fixpoint shape_problems (fuel : nat) (cls field : string) (sh : shape) (s : schema) : list problem :=
    match fuel with
    | O => [PFuel]
    | S f =>
        match sh with
        | TAny => []
        | TStr | TEnum _ => if type_is TyString s then [] else [PShape cls field]
        | TInt => if type_is TyInteger s then [] else [PShape cls field]
        | TFloat => if type_is TyNumber s then [] else [PShape cls field]
        | TBool => if type_is TyBoolean s then [] else [PShape cls field]
        | TDict => if type_is TyObject s then [] else [PShape cls field]
        | TListAny => if type_is TyArray s then [] else [PShape cls field]
        | TList e =>
            if type_is TyArray s
            then match s_items s with Some it => shape_problems f cls field e it | None => [] end
            else [PShape cls field]
        | TData n =>
            if type_is TyObject s
            then match find_class n datas with
                 | None => [PNoDataClass cls field n]
                 | Some dc =>
                     let cam := camel_fields dc in
                     map (PNestedField cls field n) (filter (fun x => negb (mem x (prop_names s))) cam)
                     ++ map (PNestedRequired cls field n) (filter (fun x => negb (mem x cam)) (s_required s))
                     ++ flat_map (fun fd => match assoc (s2c (f_name fd)) (s_props s) with
                                            | Some sub => shape_problems f n (f_name fd) (f_shape fd) sub
                                            | None => []
                                            end) (c_fields dc)
                 end
            else [PShape cls field]
        | TUnion l =>
            if existsb (fun e => match shape_problems f cls field e s with [] => true | _ => false end) l
            then [] else [PShape cls field]
        end
    end.

  Definition walk_fuel : nat := 12.

  (* a request / response class against the top level of its schema *)
  Definition class_problems (c : classdef) (s : schema) : list problem :=
    let cam := camel_fields c in
    map (fun f => PFieldNotInSchema (c_name c) (f_name f))
        (filter (fun f => negb (mem (s2c (f_name f)) (prop_names s))) (c_fields c))
    ++ map (PPropNotInClass (c_name c)) (filter (fun p => negb (mem p cam)) (prop_names s))
    ++ map (fun f => PMandatoryNotRequired (c_name c) (f_name f))
           (filter (fun f => match f_default f with
                             | NoDefault => negb (mem (s2c (f_name f)) (s_required s))
                             | _ => false end) (c_fields c))
    ++ map (fun f => POmittableRequired (c_name c) (f_name f))
           (filter (fun f => match f_default f with
                             | DefaultNone => mem (s2c (f_name f)) (s_required s)
                             | _ => false end) (c_fields c))
    ++ flat_map (fun f => match assoc (s2c (f_name f)) (s_props s) with
                          | Some sub => shape_problems walk_fuel (c_name c) (f_name f) (f_shape f) sub
                          | None => []
                          end) (c_fields c).

  Definition table_problems (suffix : string) (t : list (string * schema)) (cs : list classdef) : list problem :=
    flat_map (fun c => match assoc (c_name c ++ suffix) t with
                       | Some s => class_problems c s
                       | None => [PNoSchema (c_name c)]
                       end) cs.

  (* a data type fits an object position: only allowed fields, all required ones *)
  Definition fits (dc : classdef) (s : schema) : bool :=
    let cam := camel_fields dc in
    subset cam (prop_names s) && subset (s_required s) cam.

  Definition unplaced (nodes : list schema) : list problem :=
    map (fun dc => PNoFit (c_name dc)) (filter (fun dc => negb (existsb (fits dc) nodes)) datas).
End Walk.

(* ---------------------------------------------------------------------------------------- C12 *)
Inductive eproblem :=
| EValueNotMember (enum value cls field : string)   (* a legal wire value the enum class lacks *)
| EDeadMember (enum value : string)                 (* a member legal nowhere it is annotated *)
| ENoEnum (enum cls field : string).

Section Enums.
  Variable datas : list classdef.
  Variable enums : list (string * list string).

  (* (enum class, schema enum list, class, field) at every position where the schema enumerates
     and the annotation is an enum class *)
  Fixpoint enum_pairs (fuel : nat) (cls field : string) (sh : shape) (s : schema)
    : list (string * list string * string * string) :=
    match fuel with
    | O => []
    | S f =>
        match sh with
        | TEnum n => match s_enum s with Some l => [(n, l, cls, field)] | None => [] end
        | TList e => match s_items s with Some it => enum_pairs f cls field e it | None => [] end
        | TUnion l => flat_map (fun e => enum_pairs f cls field e s) l
        | TData n =>
            match find_class n datas with
            | Some dc => flat_map (fun fd => match assoc (s2c (f_name fd)) (s_props s) with
                                             | Some sub => enum_pairs f n (f_name fd) (f_shape fd) sub
                                             | None => []
                                             end) (c_fields dc)
            | None => []
            end
        | _ => []
        end
    end.

  Definition class_enum_pairs (c : classdef) (s : schema) :=
    flat_map (fun f => match assoc (s2c (f_name f)) (s_props s) with
                       | Some sub => enum_pairs walk_fuel (c_name c) (f_name f) (f_shape f) sub
                       | None => []
                       end) (c_fields c).

  Definition table_enum_pairs (suffix : string) (t : list (string * schema)) (cs : list classdef) :=
    flat_map (fun c => match assoc (c_name c ++ suffix) t with
                       | Some s => class_enum_pairs c s
                       | None => []
                       end) cs.

  Definition missing_members (pairs : list (string * list string * string * string)) : list eproblem :=
    flat_map (fun p =>
                match p with
                | (n, l, cls, field) =>
                    match assoc n enums with
                    | Some members => map (fun v => EValueNotMember n v cls field) (filter (fun v => negb (mem v members)) l)
                    | None => [ENoEnum n cls field]
                    end
                end) pairs.

  Definition dead_members (pairs : list (string * list string * string * string)) : list eproblem :=
    let names := dedup (map (fun p => fst (fst (fst p))) pairs) in
    flat_map (fun n =>
                match assoc n enums with
                | Some members =>
                    let legal := flat_map (fun p => if String.eqb (fst (fst (fst p))) n then snd (fst (fst p)) else []) pairs in
                    map (EDeadMember n) (filter (fun m => negb (mem m legal)) members)
                | None => []
                end) names.
End Enums.

(* set equality of name lists *)
Definition same_set (a b : list string) : bool := subset a b && subset b a.

Definition strip_suffix (suffix s : string) : option string :=
  let n := String.length s in
  let k := String.length suffix in
  if Nat.leb k n && String.eqb (substring (n - k) k s) suffix then Some (substring 0 (n - k) s) else None.

Definition names_with_suffix (suffix : string) (names : list string) : list string :=
  flat_map (fun s => match strip_suffix suffix s with Some b => [b] | None => [] end) names.
