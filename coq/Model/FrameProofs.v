(* FrameProofs.v -- round trip and classification of unpack. *)
From Coq Require Import List ZArith Bool String Ascii Lia.
From OV.Model Require Import Json JsonText Schema Frame.
Import ListNotations.

Lemma py_eq_int_self z : py_eq_int (JNum (NInt z)) z = true.
Proof. unfold py_eq_int, num_eqb, num_cmp. rewrite Z.compare_refl. reflexivity. Qed.

Lemma py_eq_int_lit a b : a <> b -> py_eq_int (JNum (NInt a)) b = false.
Proof.
  intros H. unfold py_eq_int, num_eqb, num_cmp.
  destruct (Z.compare a b) eqn:E; try reflexivity. apply Z.compare_eq in E. contradiction.
Qed.

Theorem unpack_pack m : exists m', unpack_v (pack_v m) = UMsg m' /\ same_message m m'.
Proof.
  destruct m as [i a p | i p a | i c d x]; simpl.
  - eexists. split; [reflexivity|]. simpl. auto.
  - eexists. split; [reflexivity|]. simpl. auto.
  - eexists. split; [reflexivity|]. simpl. destruct x; auto.
Qed.

(* the array that is written has exactly the documented shape *)
Theorem pack_shape m :
  match m with
  | Call i a p => pack_v m = JArr [JNum (NInt 2); i; a; p]
  | CallResult i p _ => pack_v m = JArr [JNum (NInt 3); i; p]
  | CallError i c d x => exists x', pack_v m = JArr [JNum (NInt 4); i; c; d; x']
  end.
Proof. destruct m; simpl; eauto. Qed.

(* classification: which inputs give which error, and nothing else happens *)
Definition arity_ok (t : Z) (n : nat) : bool :=
  if Z.eqb t 2 then Nat.eqb n 3
  else if Z.eqb t 3 then Nat.eqb n 2 || Nat.eqb n 3
  else Nat.eqb n 3 || Nat.eqb n 4.

Definition type_id (j : json) : option Z :=
  if py_eq_int j 2 then Some 2%Z else if py_eq_int j 3 then Some 3%Z else if py_eq_int j 4 then Some 4%Z else None.

Theorem unpack_classified lo :
  match unpack lo with
  | UMsg _ => exists t args k, lo = Loaded (JArr (t :: args)) /\ type_id t = Some k /\ arity_ok k (List.length args) = true
  | UErr CFormatViolation => lo = LoadsRaised
  | UErr CProtocolError =>
      exists j, lo = Loaded j /\
                match j with
                | JArr [] => True
                | JArr (t :: args) => exists k, type_id t = Some k /\ arity_ok k (List.length args) = false
                | _ => True
                end
  | UErr CPropertyConstraintViolation => exists t args, lo = Loaded (JArr (t :: args)) /\ type_id t = None
  | UErr _ => False
  end.
Proof.
  destruct lo as [j|]; simpl; [|reflexivity].
  destruct j as [| b | n | s | l | o]; simpl; try (eexists; split; [reflexivity | exact I]).
  destruct l as [|t args]; simpl; [exists (JArr []); split; [reflexivity | exact I]|].
  unfold type_id.
  destruct (py_eq_int t 2) eqn:E2.
  { destruct args as [|a1 [|a2 [|a3 [|a4 r]]]]; simpl;
      try (eexists; split; [reflexivity|]; exists 2%Z; rewrite E2; split; reflexivity).
    exists t, [a1; a2; a3], 2%Z. rewrite E2. repeat split. }
  destruct (py_eq_int t 3) eqn:E3.
  { destruct args as [|a1 [|a2 [|a3 [|a4 r]]]]; simpl;
      try (eexists; split; [reflexivity|]; exists 3%Z; rewrite E2, E3; split; reflexivity).
    - exists t, [a1; a2], 3%Z. rewrite E2, E3. repeat split.
    - exists t, [a1; a2; a3], 3%Z. rewrite E2, E3. repeat split. }
  destruct (py_eq_int t 4) eqn:E4.
  { destruct args as [|a1 [|a2 [|a3 [|a4 [|a5 r]]]]]; simpl;
      try (eexists; split; [reflexivity|]; exists 4%Z; rewrite E2, E3, E4; split; reflexivity).
    - exists t, [a1; a2; a3], 4%Z. rewrite E2, E3, E4. repeat split.
    - exists t, [a1; a2; a3; a4], 4%Z. rewrite E2, E3, E4. repeat split. }
  exists t, args. rewrite E2, E3, E4. split; reflexivity.
Qed.

(* the text written for a message is the compact array of the texts of its parts *)
Theorem pack_text m :
  print_compact (pack_v m) =
  match m with
  | Call i a p => ("[" ++ join "," ["2"; print_compact i; print_compact a; print_compact p] ++ "]")%string
  | CallResult i p _ => ("[" ++ join "," ["3"; print_compact i; print_compact p] ++ "]")%string
  | CallError i c d x =>
      ("[" ++ join "," ["4"; print_compact i; print_compact c; print_compact d;
                        print_compact (match x with Some v => v | None => JNull end)] ++ "]")%string
  end.
Proof. destruct m as [i a p|i p a|i c d x]; reflexivity. Qed.
