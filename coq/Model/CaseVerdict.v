(* CaseVerdict.v -- comparison used by the `verdict` correspondence case files. *)
From Coq Require Import List ZArith NArith Bool String.
From OV.Model Require Import Json Schema Validate Shipped CaseLib.
Import ListNotations.
Local Open Scope string_scope.

Inductive expected :=
| EAccept
| EReject (code : string)     (* the OCPP error code _validate_payload raised *)
| ECrash.                     (* any other exception *)

Record vcase := mkV { vc_ver : version; vc_mt : mtype; vc_action : string; vc_payload : json; vc_exp : expected }.

Definition agree (c : vcase) : bool :=
  match validate_shipped (vc_ver c) (vc_mt c) (vc_action c) (vc_payload c), vc_exp c with
  | VAccept _, EAccept => true
  | VReject codes _, EReject code => mem code (map code_name codes)
  | VReject _ true, ECrash => true
  | VCrash, ECrash => true
  | VNoSchema, EReject code => String.eqb code "NotImplemented"
  | _, _ => false
  end.

Definition disagreements (cs : list vcase) : list N := bad agree cs 0%N.

(* what the model says, for the replay file *)
Definition describe (c : vcase) : list kind * bool :=
  match assoc (schema_name (vc_ver c) (vc_mt c) (vc_action c)) (shipped (vc_ver c)) with
  | None => ([], false)
  | Some s =>
      let pm := mode_of (vc_ver c) (vc_mt c) (vc_action c) in
      (violations pm pm s (match pm with MDecimal => retag (vc_payload c) | MFloat => vc_payload c end), true)
  end.
