(* StringRoundTrip.v -- a JSON string literal written by json.dumps (ensure_ascii) parses back to the
   same str: pstring (escape_str s ++ quote ++ rest) = Some (s, rest) for every str s that is not
   ambiguous (no high surrogate immediately followed by a low surrogate). *)
From Coq Require Import List ZArith NArith Bool String Ascii Lia.
From OV.Model Require Import Json JsonText JsonParse Utf8Proofs.
Import ListNotations.
Local Open Scope string_scope.

Fixpoint encode (cps : list N) : string :=
  match cps with [] => "" | c :: r => utf8 c ++ encode r end.

Fixpoint escs (cps : list N) : string :=
  match cps with [] => "" | c :: r => escape_cp c ++ escs r end.

(* no high surrogate immediately followed by a low surrogate *)
Fixpoint no_pairs (cps : list N) : Prop :=
  match cps with
  | [] => True
  | a :: r => match r with b :: _ => is_high a = true -> is_low b = false | [] => True end /\ no_pairs r
  end.

(* the strs the round trip is stated for *)
Definition WfStr (s : string) : Prop :=
  exists cps, s = encode cps /\ Forall cp_ok cps /\ no_pairs cps.

Lemma sapp_assoc' (a b c : string) : (a ++ b) ++ c = a ++ (b ++ c).
Proof. induction a as [|x a IH]; [reflexivity|]. simpl. rewrite IH. reflexivity. Qed.

Lemma slen_app (a b : string) : String.length (a ++ b) = String.length a + String.length b.
Proof. induction a as [|x a IH]; [reflexivity|]. simpl. rewrite IH. reflexivity. Qed.

Lemma escape_str_encode cps : forall fuel, Forall cp_ok cps -> String.length (encode cps) <= fuel ->
  escape_str fuel (encode cps) = escs cps.
Proof.
  induction cps as [|c r IH]; intros fuel F L.
  - destruct fuel; reflexivity.
  - inversion F as [|? ? OKc Fr]; subst. cbn [encode escs] in *.
    destruct (utf8_nonempty c) as [a [u E]].
    rewrite slen_app in L. assert (1 <= String.length (utf8 c)) by (rewrite E; simpl; lia).
    destruct fuel as [|f]; [lia|]. cbn [escape_str]. rewrite decode1_utf8 by exact OKc.
    rewrite IH by (auto; lia). reflexivity.
Qed.

(* ---- one escape chunk ---- *)
Definition benign (tail : string) : Prop :=
  match tail with
  | String bs (String u (String a (String b (String c (String d _))))) =>
      (N.eqb (N_of_ascii bs) 92 && N.eqb (N_of_ascii u) 117)%bool = true ->
      exists lo, hex4val a b c d = Some lo /\ is_low lo = false
  | _ => True
  end.

Lemma pstring_u_plain n tail : (n < 65536)%N -> is_high n = false ->
  pstring (String "\" (String "u" (hex4 n ++ tail))) = prepend (utf8 n) (pstring tail).
Proof.
  intros B H. destruct (hex4val_hex4 n B) as [a [b [c [d [E V]]]]]. rewrite E.
  cbn [append]. cbn [pstring]. cbv zeta.
  change (N.eqb (N_of_ascii "\") 34) with false. change (N.eqb (N_of_ascii "\") 92) with true.
  change (simple_escape "u") with (@None ascii). change (N.eqb (N_of_ascii "u") 117) with true.
  cbv iota beta. rewrite V, H. reflexivity.
Qed.

Lemma pstring_u_high n tail : (n < 65536)%N -> is_high n = true -> benign tail ->
  pstring (String "\" (String "u" (hex4 n ++ tail))) = prepend (utf8 n) (pstring tail).
Proof.
  intros B H BN. destruct (hex4val_hex4 n B) as [a [b [c [d [E V]]]]]. rewrite E.
  cbn [append]. cbn [pstring]. cbv zeta.
  change (N.eqb (N_of_ascii "\") 34) with false. change (N.eqb (N_of_ascii "\") 92) with true.
  change (simple_escape "u") with (@None ascii). change (N.eqb (N_of_ascii "u") 117) with true.
  cbv iota beta. rewrite V, H.
  destruct tail as [|bs [|u [|a' [|b' [|c' [|d' r3]]]]]]; try reflexivity.
  unfold benign in BN.
  destruct (N.eqb (N_of_ascii bs) 92 && N.eqb (N_of_ascii u) 117)%bool; [|reflexivity].
  destruct (BN eq_refl) as [lo [V' L]]. rewrite V', L. reflexivity.
Qed.

Lemma pstring_u_pair hi lo tail : (hi < 65536)%N -> (lo < 65536)%N -> is_high hi = true -> is_low lo = true ->
  pstring (String "\" (String "u" (hex4 hi ++ String "\" (String "u" (hex4 lo ++ tail)))))
  = prepend (utf8 (join_surrogates hi lo)) (pstring tail).
Proof.
  intros B1 B2 H L. destruct (hex4val_hex4 hi B1) as [a [b [c [d [E V]]]]].
  destruct (hex4val_hex4 lo B2) as [a' [b' [c' [d' [E' V']]]]]. rewrite E, E'.
  cbn [append]. cbn [pstring]. cbv zeta.
  change (N.eqb (N_of_ascii "\") 34) with false. change (N.eqb (N_of_ascii "\") 92) with true.
  change (simple_escape "u") with (@None ascii). change (N.eqb (N_of_ascii "u") 117) with true.
  cbv iota beta. rewrite V, H. cbn [andb]. cbv iota. rewrite V', L. reflexivity.
Qed.

Lemma is_high_small c : (c < 55296)%N -> is_high c = false.
Proof. intros H. unfold is_high. destruct (N.leb_spec 55296 c); [lia|reflexivity]. Qed.

Lemma is_high_big c : (56319 < c)%N -> is_high c = false.
Proof. intros H. unfold is_high. destruct (N.leb_spec c 56319); [lia|]. apply andb_false_r. Qed.

Lemma surrogate_split c : (65536 <= c)%N -> cp_ok c ->
  let v := (c - 65536)%N in
  let hi := (55296 + v / 1024)%N in let lo := (56320 + v mod 1024)%N in
  (hi < 65536)%N /\ (lo < 65536)%N /\ is_high hi = true /\ is_low lo = true /\ is_low hi = false /\
  join_surrogates hi lo = c.
Proof.
  unfold cp_ok. intros G OK. cbv zeta.
  assert (Q : ((c - 65536) / 1024 < 1024)%N) by (apply N.div_lt_upper_bound; lia).
  pose proof (N.div_mod (c - 65536) 1024 ltac:(lia)) as Eq.
  pose proof (N.mod_lt (c - 65536) 1024 ltac:(lia)) as Em.
  remember ((c - 65536) / 1024)%N as q. remember ((c - 65536) mod 1024)%N as m.
  unfold is_high, is_low, join_surrogates.
  repeat split; try lia.
  - destruct (N.leb_spec 55296 (55296 + q)); [|lia]. destruct (N.leb_spec (55296 + q) 56319); [reflexivity|lia].
  - destruct (N.leb_spec 56320 (56320 + m)); [|lia]. destruct (N.leb_spec (56320 + m) 57343); [reflexivity|lia].
  - destruct (N.leb_spec 56320 (55296 + q)); [lia|reflexivity].
Qed.

Lemma pstring_chunk c tail : cp_ok c -> (is_high c = true -> benign tail) ->
  pstring (escape_cp c ++ tail) = prepend (utf8 c) (pstring tail).
Proof.
  intros OK BN. unfold escape_cp.
  destruct (N.eqb_spec c 34) as [->|N34]; [reflexivity|].
  destruct (N.eqb_spec c 92) as [->|N92]; [reflexivity|].
  destruct (N.eqb_spec c 10) as [->|N10]; [reflexivity|].
  destruct (N.eqb_spec c 13) as [->|N13]; [reflexivity|].
  destruct (N.eqb_spec c 9) as [->|N9]; [reflexivity|].
  destruct (N.eqb_spec c 8) as [->|N8]; [reflexivity|].
  destruct (N.eqb_spec c 12) as [->|N12]; [reflexivity|].
  destruct (N.ltb_spec c 32) as [L32|G32].
  { rewrite sapp_assoc'. apply pstring_u_plain; [lia|apply is_high_small; lia]. }
  destruct (N.ltb_spec c 127) as [L127|G127].
  { cbn [append pstring]. cbv zeta. rewrite Nascii by lia.
    destruct (N.eqb_spec c 34); [contradiction|]. destruct (N.eqb_spec c 92); [contradiction|].
    destruct (N.ltb_spec c 32); [lia|]. unfold utf8. destruct (N.ltb_spec c 128); [reflexivity|lia]. }
  destruct (N.ltb_spec c 65536) as [L16|G16].
  { rewrite sapp_assoc'. destruct (is_high c) eqn:H.
    - apply pstring_u_high; [exact L16|exact H|exact (BN eq_refl)].
    - apply pstring_u_plain; [exact L16|exact H]. }
  destruct (surrogate_split c G16 OK) as [B1 [B2 [H [L [_ J]]]]].
  rewrite !sapp_assoc'. cbn [append]. rewrite pstring_u_pair by assumption. rewrite J. reflexivity.
Qed.

Lemma benign_quote rest : benign (String """" rest).
Proof.
  destruct rest as [|u [|a [|b [|c [|d r]]]]]; try exact I. unfold benign.
  change (N.eqb (N_of_ascii """") 92) with false. intros H; discriminate.
Qed.

Lemma benign_two e X : N.eqb (N_of_ascii e) 117 = false -> benign (String "\" (String e X)).
Proof.
  intros H. destruct X as [|a [|b [|c [|d r]]]]; try exact I. unfold benign. rewrite H, andb_false_r.
  intros Q; discriminate.
Qed.

Lemma benign_raw ch X : N.eqb (N_of_ascii ch) 92 = false -> benign (String ch X).
Proof.
  intros H. destruct X as [|u [|a [|b [|c [|d r]]]]]; try exact I. unfold benign. rewrite H.
  intros Q; discriminate.
Qed.

Lemma benign_u n X : (n < 65536)%N -> is_low n = false -> benign (String "\" (String "u" (hex4 n ++ X))).
Proof.
  intros B L. destruct (hex4val_hex4 n B) as [a [b [c [d [E V]]]]]. rewrite E. cbn [append].
  unfold benign. intros _. exists n. split; assumption.
Qed.

Lemma benign_chunk b X : cp_ok b -> is_low b = false -> benign (escape_cp b ++ X).
Proof.
  intros OK L. unfold escape_cp.
  destruct (N.eqb_spec b 34) as [->|N34]; [apply benign_two; reflexivity|].
  destruct (N.eqb_spec b 92) as [->|N92]; [apply benign_two; reflexivity|].
  destruct (N.eqb_spec b 10) as [->|N10]; [apply benign_two; reflexivity|].
  destruct (N.eqb_spec b 13) as [->|N13]; [apply benign_two; reflexivity|].
  destruct (N.eqb_spec b 9) as [->|N9]; [apply benign_two; reflexivity|].
  destruct (N.eqb_spec b 8) as [->|N8]; [apply benign_two; reflexivity|].
  destruct (N.eqb_spec b 12) as [->|N12]; [apply benign_two; reflexivity|].
  destruct (N.ltb_spec b 32) as [L32|G32].
  { rewrite sapp_assoc'. apply benign_u; [lia|exact L]. }
  destruct (N.ltb_spec b 127) as [L127|G127].
  { cbn [append]. apply benign_raw. rewrite Nascii by lia. apply N.eqb_neq. exact N92. }
  destruct (N.ltb_spec b 65536) as [L16|G16].
  { rewrite sapp_assoc'. apply benign_u; [exact L16|exact L]. }
  destruct (surrogate_split b G16 OK) as [B1 [B2 [H [L' [LH J]]]]].
  rewrite !sapp_assoc'. cbn [append]. apply benign_u; [exact B1|exact LH].
Qed.

Theorem pstring_escs cps rest : Forall cp_ok cps -> no_pairs cps ->
  pstring (escs cps ++ String """" rest) = Some (encode cps, rest).
Proof.
  induction cps as [|c r IH]; intros F NP.
  - reflexivity.
  - inversion F as [|? ? OKc Fr]; subst. cbn [no_pairs] in NP. destruct NP as [NP1 NP2].
    cbn [escs encode]. rewrite sapp_assoc'. rewrite pstring_chunk.
    + rewrite IH by assumption. reflexivity.
    + exact OKc.
    + intros H. destruct r as [|b r']; [apply benign_quote|].
      cbn [escs]. rewrite sapp_assoc'. inversion Fr; subst. apply benign_chunk; [assumption|exact (NP1 H)].
Qed.

(* a JSON string literal as json.dumps writes it *)
Theorem pstring_str_text s rest : WfStr s ->
  pstring (escape_str (String.length s) s ++ String """" rest) = Some (s, rest).
Proof.
  intros [cps [-> [F NP]]]. rewrite escape_str_encode by (auto; lia). apply pstring_escs; assumption.
Qed.

(* non-vacuity: "aé" + U+1F600 + a lone high surrogate + "x" + quote + newline *)
Example wf_example : WfStr (encode [97; 233; 128512; 55357; 120; 34; 10]%N).
Proof.
  eexists. split; [reflexivity|]. split.
  - repeat constructor.
  - cbn. repeat split; intros H; try discriminate; reflexivity.
Qed.
