(* NetProofs.v -- facts about what crosses the wire between endpoints. *)
From Coq Require Import List ZArith Bool String Ascii Lia.
From OV.Model Require Import Json Names Schema SchemaProofs Validate Frame Vocab Classes Dispatch Endpoint Net.
Import ListNotations.

(* ---- remove_nones leaves no null behind ---- *)
Lemma no_null_remove_nones_strong : forall j, is_null j = false -> no_null (remove_nones j) = true.
Proof.
  induction j as [| b | n | s | l IH | l IH] using json_ind'; intros Hn; simpl in *; try reflexivity; try discriminate.
  - induction l as [|x r IHr]; [reflexivity|]. inversion IH as [|y t Hx Hr]; subst.
    destruct (is_null x) eqn:E; [apply IHr; exact Hr|]. simpl. rewrite (Hx eq_refl). simpl. apply IHr. exact Hr.
  - induction l as [|[k x] r IHr]; [reflexivity|]. inversion IH as [|y t Hx Hr]; subst. simpl in Hx.
    destruct (is_null x) eqn:E; [apply IHr; exact Hr|]. simpl. rewrite (Hx eq_refl). simpl. apply IHr. exact Hr.
Qed.

Lemma no_null_remove_nones_obj l : no_null (remove_nones (JObj l)) = true.
Proof. apply no_null_remove_nones_strong. reflexivity. Qed.

(* ---- CallError.to_exception ---- *)
Section Errors.
  Variable errors : list (string * string * string).
  Definition codes := map (fun e => snd (fst e)) errors.

  Lemma find_code_unique cls code dflt :
    NoDup codes -> In (cls, code, dflt) errors ->
    find (fun e => String.eqb (snd (fst e)) code) errors = Some (cls, code, dflt).
  Proof.
    unfold codes. induction errors as [|[[c0 k0] d0] r IH]; intros ND Hin; [contradiction|].
    simpl in *. inversion ND as [|x l Hnotin ND']; subst.
    destruct Hin as [H|H].
    - injection H as -> -> ->. rewrite String.eqb_refl. reflexivity.
    - destruct (String.eqb k0 code) eqn:E.
      + apply String.eqb_eq in E. subst k0. exfalso. apply Hnotin.
        apply in_map_iff. exists (cls, code, dflt). split; [reflexivity | exact H].
      + apply IH; assumption.
  Qed.

  Theorem to_exception_known cls code dflt d x :
    NoDup codes -> In (cls, code, dflt) errors ->
    to_exception errors (JStr code) (JStr d) (Some x) =
    ORaise cls (JStr d) (match x with JNull => JObj [] | y => y end).
  Proof.
    intros ND Hin. unfold to_exception. rewrite (find_code_unique cls code dflt ND Hin). reflexivity.
  Qed.

  Theorem to_exception_unknown code d x :
    (match code with JStr cd => ~ In cd codes | _ => True end) ->
    to_exception errors code d x = OUnknownCode.
  Proof.
    intros H. unfold to_exception. destruct code; try reflexivity.
    destruct (find (fun e => String.eqb (snd (fst e)) s) errors) as [[[c k] df]|] eqn:E; [|reflexivity].
    exfalso. apply find_some in E. destruct E as [Hin Heq]. simpl in Heq. apply String.eqb_eq in Heq. subst k.
    apply H. unfold codes. apply in_map_iff. exists (c, s, df). split; [reflexivity | exact Hin].
  Qed.
End Errors.

(* ---- retagging is idempotent and invisible to validation ---- *)
Lemma retag_idem : forall j, retag (retag j) = retag j.
Proof.
  induction j as [| b | n | s | l IH | l IH] using json_ind'; simpl; try reflexivity.
  - destruct n; reflexivity.
  - f_equal. rewrite map_map. apply map_ext_in. intros x Hx. rewrite Forall_forall in IH. apply IH. exact Hx.
  - f_equal. rewrite map_map. apply map_ext_in. intros [k x] Hx. simpl. f_equal.
    rewrite Forall_forall in IH. apply (IH (k, x) Hx).
Qed.

(* validation does not look at the float/Decimal tag of a number *)
Lemma assoc_map_retag k l :
  assoc k (map (fun kv : string * json => (fst kv, retag (snd kv))) l) = option_map retag (assoc k l).
Proof.
  induction l as [|[k' v] r IH]; simpl; [reflexivity|]. destruct (String.eqb k k'); [reflexivity | exact IH].
Qed.

Lemma keys_map_retag l : keys (map (fun kv : string * json => (fst kv, retag (snd kv))) l) = keys l.
Proof. unfold keys. rewrite map_map. reflexivity. Qed.

Theorem violations_retag : forall s j, violations MDecimal MDecimal s (retag j) = violations MDecimal MDecimal s j.
Proof.
  induction s as [ty en mxl props req cl items mni mxi mn mx mo IHp IHi] using schema_ind'.
  intros j. rewrite !violations_unfold.
  assert (Ht : v_type ty (retag j) = v_type ty j).
  { unfold v_type. destruct ty as [t|]; [|reflexivity]. destruct t, j; try reflexivity; destruct n; reflexivity. }
  assert (He : v_enum en (retag j) = v_enum en j).
  { unfold v_enum. destruct en; [|reflexivity]. destruct j; try reflexivity. destruct n; reflexivity. }
  assert (Hl : v_maxlen mxl (retag j) = v_maxlen mxl j).
  { unfold v_maxlen. destruct mxl; [|reflexivity]. destruct j; try reflexivity. destruct n; reflexivity. }
  rewrite Ht, He, Hl. f_equal. f_equal. f_equal.
  destruct j as [| b | n | s | l | o]; try reflexivity.
  - destruct n; reflexivity.
  - simpl. unfold v_minitems, v_maxitems. rewrite map_length. f_equal.
    destruct items as [it|]; [|reflexivity]. simpl in IHi. clear Ht He Hl.
    induction l as [|x r IHl]; [reflexivity|]. simpl. rewrite IHi, IHl. reflexivity.
  - simpl. f_equal.
    + clear -IHp. induction props as [|[k sub] r IHr]; [reflexivity|]. simpl.
      inversion IHp as [|y t Hx Hr]; subst. simpl in Hx. rewrite (IHr Hr). f_equal.
      rewrite assoc_map_retag. destruct (assoc k o) as [v|]; [apply Hx | reflexivity].
    + unfold v_required, v_additional. rewrite keys_map_retag. reflexivity.
Qed.
