(* DispatchProofs.v -- what holds of route_message / handle_call / start for every
   configuration, frame and handler behaviour. *)
From Coq Require Import List ZArith Bool String Ascii Lia.
From OV.Model Require Import Json Names Schema SchemaProofs Validate Frame Vocab Dispatch.
Import ListNotations.

(* ---------- no foreign exception out of a crash-free schema ---------- *)
Ltac nc := solve [simpl; let H := fresh "H" in intros H;
                  repeat (destruct H as [H|H]; [discriminate H|]); (exact H || contradiction)].
Lemma pow10_pos k : (0 <= k -> 0 < 10 ^ k)%Z.
Proof. intros H. apply Z.pow_pos_nonneg; lia. Qed.

Lemma mult_dec_no_crash m e mb eb : mb <> 0%Z -> ~ In KCrash (mult_dec m e mb eb).
Proof.
  intros Hmb. unfold mult_dec. cbv zeta.
  destruct (mb * 10 ^ (eb - Z.min e eb) =? 0)%Z eqn:E.
  - apply Z.eqb_eq in E. exfalso. assert (0 < 10 ^ (eb - Z.min e eb))%Z by (apply pow10_pos; lia). nia.
  - repeat match goal with |- context [if ?b then _ else _] => destruct b end; nc.
Qed.

Lemma no_crash_app (a b : list kind) : ~ In KCrash a -> ~ In KCrash b -> ~ In KCrash (a ++ b).
Proof. intros Ha Hb H. apply in_app_or in H. tauto. Qed.

Lemma v_type_nc ty j : ~ In KCrash (v_type ty j).
Proof. unfold v_type. destruct ty as [t|]; [destruct (has_type t j)|]; nc. Qed.
Lemma v_enum_nc en j : ~ In KCrash (v_enum en j).
Proof. unfold v_enum. destruct en as [l|]; [destruct j; try destruct (mem _ l)|]; nc. Qed.
Lemma v_maxlen_nc m j : ~ In KCrash (v_maxlen m j).
Proof. unfold v_maxlen. destruct m as [n|]; [destruct j; try destruct (_ >? _)%Z|]; nc. Qed.
Lemma v_required_nc req o : ~ In KCrash (v_required req o).
Proof.
  unfold v_required. induction req as [|k r IH]; simpl; [tauto|].
  apply no_crash_app; [|exact IH]. destruct (mem k (keys o)); nc.
Qed.
Lemma v_additional_nc cl pn o : ~ In KCrash (v_additional cl pn o).
Proof. unfold v_additional. destruct (_ && _); nc. Qed.
Lemma v_minitems_nc m l : ~ In KCrash (v_minitems m l).
Proof. unfold v_minitems. destruct m as [n|]; [destruct (_ <? _)%Z|]; nc. Qed.
Lemma v_maxitems_nc m l : ~ In KCrash (v_maxitems m l).
Proof. unfold v_maxitems. destruct m as [n|]; [destruct (_ >? _)%Z|]; nc. Qed.
Lemma v_minimum_nc pm m n : ~ In KCrash (v_minimum pm m n).
Proof.
  unfold v_minimum. destruct m as [b|]; [|simpl; tauto].
  destruct n, pm; try destruct (num_ltb _ _); nc.
Qed.
Lemma v_maximum_nc pm m n : ~ In KCrash (v_maximum pm m n).
Proof.
  unfold v_maximum. destruct m as [b|]; [|simpl; tauto].
  destruct n, pm; try destruct (num_ltb _ _); nc.
Qed.

Lemma v_multiple_nc sm mo n :
  match mo with
  | None => True
  | Some (NDec mb _ _) => sm = MDecimal /\ mb <> 0%Z
  | Some _ => False
  end -> ~ In KCrash (v_multiple sm sm mo n).
Proof.
  unfold v_multiple. destruct mo as [b|]; [|simpl; tauto].
  destruct b as [zb|mb eb kb| |]; try contradiction. intros [-> Hmb].
  destruct n as [z|m e k| |]; try nc; apply mult_dec_no_crash; exact Hmb.
Qed.

Theorem crash_free_no_crash sm : forall s j, crash_free_s sm s = true -> ~ In KCrash (violations sm sm s j).
Proof.
  induction s as [ty en mxl props req cl items mni mxi mn mx mo IHp IHi] using schema_ind'.
  intros j Hcf. rewrite violations_unfold. simpl in Hcf.
  apply andb_true_iff in Hcf. destruct Hcf as [Hcf Hitems].
  apply andb_true_iff in Hcf. destruct Hcf as [Hmo Hprops].
  apply no_crash_app; [apply v_type_nc|]. apply no_crash_app; [apply v_enum_nc|].
  apply no_crash_app; [apply v_maxlen_nc|].
  destruct j as [| b | n | s | l | o]; simpl; try tauto.
  - apply no_crash_app; [apply v_minimum_nc|]. apply no_crash_app; [apply v_maximum_nc|].
    apply v_multiple_nc. destruct mo as [b|]; [|exact I].
    destruct b as [zb|mb eb kb| |]; try discriminate.
    apply andb_true_iff in Hmo. destruct Hmo as [H1 H2]. split.
    + destruct sm; [discriminate | reflexivity].
    + apply negb_true_iff in H2. apply Z.eqb_neq in H2. exact H2.
  - apply no_crash_app; [|apply no_crash_app; [apply v_minitems_nc | apply v_maxitems_nc]].
    destruct items as [it|]; [|simpl; tauto]. simpl in IHi.
    induction l as [|x r IHl]; simpl; [tauto|]. apply no_crash_app; [apply IHi; exact Hitems | exact IHl].
  - apply no_crash_app; [|apply no_crash_app; [apply v_required_nc | apply v_additional_nc]].
    clear Hmo. induction props as [|[k sub] r IHr]; simpl; [tauto|].
    inversion IHp as [|x l Hx Hr]; subst. simpl in Hx.
    apply andb_true_iff in Hprops. destruct Hprops as [Hs Hrest].
    apply no_crash_app; [|apply IHr; assumption].
    destruct (assoc k o) as [v|]; [apply Hx; exact Hs | simpl; tauto].
Qed.

(* ---------- shape of the validation outcome ---------- *)
Section Proofs.
  Variable tbl : version -> list (string * schema).
  Variable acts : version -> list string.

  Definition opt_crash_free (sm : mode) (o : option schema) : bool :=
    match o with Some s => crash_free_s sm s | None => true end.

  (* an action may be routed when neither of its two schemas can raise a foreign exception *)
  Definition key_ok (v : version) (a : string) : bool :=
    opt_crash_free (mode_of v MCall a) (assoc (schema_name v MCall a) (tbl v))
    && opt_crash_free (mode_of v MCallResult a) (assoc (schema_name v MCallResult a) (tbl v)).

  Definition cfg_ok (c : cfg) : Prop :=
    forall a r, assoc a (c_routes c) = Some r -> key_ok (c_ver c) a = true.

  (* handlers return dataclass instances or raise *)
  Definition handlers_total (c : cfg) : Prop :=
    forall a r h kw uid, assoc a (c_routes c) = Some r -> r_on r = Some h -> h_run h kw uid <> HRetBad.

  Definition well_behaved (v : vresult) : Prop :=
    match v with
    | VAccept _ | VNoSchema => True
    | VReject codes false => codes <> []
    | _ => False
    end.

  Lemma filter_nil_all {A} (f : A -> bool) l : filter f l = [] -> forall x, In x l -> f x = false.
  Proof.
    induction l as [|a r IH]; simpl; intros H x Hx; [contradiction|].
    destruct (f a) eqn:E; [discriminate|]. destruct Hx as [<-|Hx]; [exact E | apply IH; assumption].
  Qed.

  Lemma filter_id {A} (f : A -> bool) l : (forall x, In x l -> f x = true) -> filter f l = l.
  Proof.
    induction l as [|a r IH]; intros H; [reflexivity|]. simpl.
    rewrite (H a (or_introl eq_refl)). f_equal. apply IH. intros x Hx. apply H. right. exact Hx.
  Qed.

  Lemma classify_well_behaved vs p : ~ In KCrash vs -> well_behaved (classify vs p).
  Proof.
    intros Hnc. destruct vs as [|k ks]; [exact I|].
    assert (Hall : forall x, In x (k :: ks) -> is_crash x = false).
    { intros x Hx. destruct x; try reflexivity. contradiction. }
    unfold classify. rewrite filter_id.
    2:{ intros x Hx. rewrite (Hall x Hx). reflexivity. }
    assert (existsb is_crash (k :: ks) = false) as ->.
    { destruct (existsb is_crash (k :: ks)) eqn:E; [|reflexivity].
      apply existsb_exists in E. destruct E as [x [Hx Hc]]. rewrite (Hall x Hx) in Hc. discriminate. }
    cbn [map]. discriminate.
  Qed.

  Lemma validate_well_behaved v mt a p :
    opt_crash_free (mode_of v mt a) (assoc (schema_name v mt a) (tbl v)) = true ->
    well_behaved (validate tbl v mt a p).
  Proof.
    unfold validate. destruct (assoc (schema_name v mt a) (tbl v)) as [s|]; [|intros _; exact I].
    intros Hcf. unfold validate_with. apply classify_well_behaved.
    apply crash_free_no_crash. exact Hcf.
  Qed.

  (* ---------- handle_call: exactly one reply, no escape ---------- *)
  Lemma after_events_no_reply r id kw : filter is_reply (after_events r id kw) = [].
  Proof. unfold after_events. destruct (r_after r) as [k|]; [destruct (binds _ _)|]; reflexivity. Qed.
  Lemma after_events_no_escape r id kw : existsb is_escape (after_events r id kw) = false.
  Proof. unfold after_events. destruct (r_after r) as [k|]; [destruct (binds _ _)|]; reflexivity. Qed.
  Lemma after_events_no_handler r id kw : filter is_handler (after_events r id kw) = [].
  Proof. unfold after_events. destruct (r_after r) as [k|]; [destruct (binds _ _)|]; reflexivity. Qed.

  Definition single_reply (id : json) (evs : list event) : Prop :=
    exists r, filter is_reply evs = [r] /\ reply_id r = Some id /\ existsb is_escape evs = false.

  Lemma reject_events_single id v :
    well_behaved v -> (forall p, v <> VAccept p) -> single_reply id (reject_events id v).
  Proof.
    intros Hw Hna. destruct v as [p|codes mc| |]; simpl in *.
    - exfalso. eapply Hna. reflexivity.
    - destruct mc; [contradiction|]. eexists. repeat split.
    - contradiction.
    - eexists. repeat split.
  Qed.

  Lemma single_reply_cons_handler id n k u evs :
    single_reply id evs -> single_reply id (EvHandler n k u :: evs).
  Proof. intros [r [H1 [H2 H3]]]. exists r. simpl. repeat split; assumption. Qed.

  Theorem handle_call_single_reply c id action payload :
    cfg_ok c -> handlers_total c -> single_reply id (handle_call tbl acts c id action payload).
  Proof.
    intros Hok Htot. unfold handle_call.
    destruct (lookup_route c action) as [[a r]|] eqn:Hl; [|eexists; repeat split].
    assert (Ha : assoc a (c_routes c) = Some r).
    { unfold lookup_route in Hl. destruct action; try discriminate.
      destruct (assoc s (c_routes c)) eqn:E; [|discriminate]. injection Hl as <- <-. exact E. }
    pose proof (Hok a r Ha) as Hk. unfold key_ok in Hk. apply andb_true_iff in Hk. destruct Hk as [Hk1 Hk2].
    set (v1 := if eff_skip r then VAccept payload else validate tbl (c_ver c) MCall a payload).
    assert (Hw1 : well_behaved v1).
    { unfold v1. destruct (eff_skip r); [exact I | apply validate_well_behaved; exact Hk1]. }
    destruct v1 as [p|codes mc| |] eqn:Ev1.
    2:{ apply (reject_events_single id (VReject codes mc)); [exact Hw1 | discriminate]. }
    2:{ apply (reject_events_single id VCrash); [exact Hw1 | discriminate]. }
    2:{ apply (reject_events_single id VNoSchema); [exact Hw1 | discriminate]. }
    destruct (r_on r) as [h|] eqn:Hon; [|eexists; repeat split].
    destruct (binds (h_sig h) (c2s_keys p)); simpl; [|eexists; repeat split].
    set (uid := if hs_uid (h_sig h) then Some id else None).
    pose proof (Htot a r h (c2s_keys p) uid Ha Hon) as Hnb.
    apply single_reply_cons_handler.
    destruct (h_run h (c2s_keys p) uid) as [obj|code d x| |] eqn:Hrun.
    - set (wire := s2c_keys (remove_nones obj)).
      set (v2 := if eff_skip r then VAccept wire else validate tbl (c_ver c) MCallResult a wire).
      assert (Hw2 : well_behaved v2).
      { unfold v2. destruct (eff_skip r); [exact I | apply validate_well_behaved; exact Hk2]. }
      destruct v2 as [w|codes mc| |] eqn:Ev2.
      + exists (EvResult id (encode w)). cbn [filter is_reply existsb is_escape orb].
        rewrite after_events_no_reply, after_events_no_escape. repeat split.
      + apply (reject_events_single id (VReject codes mc)); [exact Hw2 | discriminate].
      + apply (reject_events_single id VCrash); [exact Hw2 | discriminate].
      + apply (reject_events_single id VNoSchema); [exact Hw2 | discriminate].
    - eexists. repeat split.
    - eexists. repeat split.
    - contradiction.
  Qed.

  (* ---------- route_message ---------- *)
  Theorem route_message_call c j id a p :
    cfg_ok c -> handlers_total c -> unpack_v j = UMsg (Call id a p) ->
    single_reply id (route_message tbl acts c (Loaded j)).
  Proof.
    intros Hok Htot Hu. unfold route_message. simpl. rewrite Hu.
    apply handle_call_single_reply; assumption.
  Qed.

  Theorem route_message_silent c lo :
    (forall id a p, unpack lo <> UMsg (Call id a p)) ->
    filter is_reply (route_message tbl acts c lo) = [] /\
    existsb is_escape (route_message tbl acts c lo) = false /\
    filter is_handler (route_message tbl acts c lo) = [].
  Proof.
    intros H. unfold route_message. destruct (unpack lo) as [m|e] eqn:E; [|repeat split].
    destruct m as [id a p| |]; [exfalso; eapply H; reflexivity | repeat split | repeat split].
  Qed.

  Theorem route_message_no_escape c lo :
    cfg_ok c -> handlers_total c -> existsb is_escape (route_message tbl acts c lo) = false.
  Proof.
    intros Hok Htot. unfold route_message. destruct (unpack lo) as [m|e] eqn:E; [|reflexivity].
    destruct m as [id a p| |]; try reflexivity.
    destruct (handle_call_single_reply c id a p Hok Htot) as [r [_ [_ H]]]. exact H.
  Qed.

  Lemma combine_app_eq {A B} (l1 l2 : list A) (r1 r2 : list B) :
    List.length l1 = List.length r1 -> combine (l1 ++ l2) (r1 ++ r2) = combine l1 r1 ++ combine l2 r2.
  Proof.
    revert r1. induction l1 as [|x l1 IH]; intros [|y r1] H; simpl in *; try discriminate; [reflexivity|].
    f_equal. apply IH. congruence.
  Qed.

  (* ---------- start(): in order, one at a time, ends only with recv ---------- *)
  Theorem start_in_order c frames :
    cfg_ok c -> handlers_total c ->
    forall i, start_from tbl acts c frames i =
              flat_map (fun p => LRecv (fst p) :: map LEv (route_message tbl acts c (snd p)))
                       (combine (seq i (List.length frames)) frames)
              ++ [LRecv (i + List.length frames); LEnd true].
  Proof.
    intros Hok Htot. induction frames as [|f r IH]; intros i.
    - simpl. rewrite Nat.add_0_r. reflexivity.
    - cbn [start_from List.length seq combine flat_map fst snd].
      rewrite (route_message_no_escape c f Hok Htot). rewrite IH.
      replace (S i + List.length r) with (i + S (List.length r)) by lia.
      cbn [app]. rewrite <- !app_assoc. reflexivity.
  Qed.

  (* every frame of a sequence: taken with its own receive and followed by exactly the events that frame gives
     alone, whatever the frames before it were *)
  Theorem start_contains_frame c frames i f :
    cfg_ok c -> handlers_total c -> nth_error frames i = Some f ->
    exists pre post,
      start tbl acts c frames = pre ++ (LRecv i :: map LEv (route_message tbl acts c f)) ++ post.
  Proof.
    intros Hok Htot Hn.
    destruct (nth_error_split frames i Hn) as [l1 [l2 [-> Hl]]].
    unfold start. rewrite (start_in_order c _ Hok Htot 0).
    rewrite app_length. cbn [List.length]. rewrite seq_app.
    rewrite combine_app_eq by (rewrite seq_length; reflexivity).
    rewrite Nat.add_0_l, Hl.
    change (seq i (S (List.length l2))) with (i :: seq (S i) (List.length l2)).
    cbn [combine]. rewrite flat_map_app. cbn [flat_map fst snd].
    exists (flat_map (fun p => LRecv (fst p) :: map LEv (route_message tbl acts c (snd p))) (combine (seq 0 i) l1)).
    exists (flat_map (fun p => LRecv (fst p) :: map LEv (route_message tbl acts c (snd p)))
                     (combine (seq (S i) (List.length l2)) l2)
            ++ [LRecv (i + S (List.length l2)); LEnd true]).
    rewrite <- app_assoc. f_equal. rewrite <- app_assoc. reflexivity.
  Qed.

  (* ---------- C05: what reaches a handler, and how violations are answered ---------- *)
  Lemma classify_accept vs p p' : classify vs p = VAccept p' -> vs = [] /\ p' = p.
  Proof.
    unfold classify. destruct vs as [|k ks]; [intros H; injection H as <-; auto|].
    destruct (filter _ (k :: ks)); discriminate.
  Qed.

  Lemma classify_reject vs p codes mc :
    classify vs p = VReject codes mc ->
    codes <> [] /\ forall c, In c codes -> exists k, In k vs /\ k <> KCrash /\ c = code_of k.
  Proof.
    unfold classify. destruct vs as [|k ks]; [discriminate|].
    destruct (filter (fun k0 => negb (is_crash k0)) (k :: ks)) as [|x xs] eqn:Ef; [discriminate|].
    intros H. injection H as <- <-. split; [discriminate|].
    intros c Hc. change (In c (map code_of (x :: xs))) in Hc.
    apply in_map_iff in Hc. destruct Hc as [k0 [<- Hk0]].
    rewrite <- Ef in Hk0. apply filter_In in Hk0. destruct Hk0 as [Hin Hnc].
    exists k0. repeat split; [exact Hin|]. intros ->. discriminate.
  Qed.

  Definition payload_in_mode (v : version) (mt : mtype) (a : string) (p : json) : json :=
    match mode_of v mt a with MDecimal => retag p | MFloat => p end.

  (* acceptance is exactly declarative validity against the schema of (version, direction, action) *)
  Theorem validate_accept_iff v mt a p p' :
    validate tbl v mt a p = VAccept p' <->
    exists s, assoc (schema_name v mt a) (tbl v) = Some s /\
              Valid (mode_of v mt a) (mode_of v mt a) s (payload_in_mode v mt a p) /\
              p' = payload_in_mode v mt a p.
  Proof.
    unfold validate, validate_with, payload_in_mode.
    destruct (assoc (schema_name v mt a) (tbl v)) as [s|].
    - split.
      + intros H. apply classify_accept in H. destruct H as [Hv ->].
        exists s. repeat split. apply violations_sound_complete. exact Hv.
      + intros [s' [Hs [HV ->]]]. injection Hs as <-.
        apply violations_sound_complete in HV. rewrite HV. reflexivity.
    - split; [discriminate | intros [s [Hs _]]; discriminate].
  Qed.

  Theorem validate_reject_codes v mt a p codes mc :
    validate tbl v mt a p = VReject codes mc ->
    exists s, assoc (schema_name v mt a) (tbl v) = Some s /\ codes <> [] /\
              forall c, In c codes ->
                        exists k, In k (violations (mode_of v mt a) (mode_of v mt a) s (payload_in_mode v mt a p))
                                  /\ c = code_of k.
  Proof.
    unfold validate, validate_with, payload_in_mode.
    destruct (assoc (schema_name v mt a) (tbl v)) as [s|]; [|discriminate].
    intros H. apply classify_reject in H. destruct H as [Hne Hc]. exists s. repeat split; [exact Hne|].
    intros c Hin. destruct (Hc c Hin) as [k [Hk [_ ->]]]. exists k. split; [exact Hk | reflexivity].
  Qed.

  Definition uid_for (sg : hsig) (id : json) : option json := if hs_uid sg then Some id else None.

  (* the payload a route's handler is given: the CALL's payload unchanged when the route skips
     validation, the validated (re-tagged) payload otherwise *)
  Definition accepted_payload (c : cfg) (a : string) (r : route) (payload p : json) : Prop :=
    (eff_skip r = true /\ p = payload) \/
    (eff_skip r = false /\ validate tbl (c_ver c) MCall a payload = VAccept p).

  (* C05 + C07: the complete shape of the processing of one CALL *)
  Theorem handle_call_contract c id action payload :
    let evs := handle_call tbl acts c id action payload in
    (filter is_handler evs = [] /\ filter is_after evs = []) \/
    exists a r h p rest,
      lookup_route c action = Some (a, r) /\ r_on r = Some h /\
      accepted_payload c a r payload p /\
      evs = EvHandler (h_name h) (c2s_keys p) (uid_for (h_sig h) id) :: rest /\
      filter is_handler rest = [] /\
      (filter is_after rest = [] \/
       exists w k, r_after r = Some k /\
                   rest = [EvResult id w; EvAfter (k_name k) (c2s_keys p) (uid_for (k_sig k) id)]).
  Proof.
    cbv zeta. unfold handle_call.
    destruct (lookup_route c action) as [[a r]|] eqn:Hl; [|left; split; reflexivity].
    destruct (eff_skip r) eqn:Hs.
    - (* validation skipped *)
      destruct (r_on r) as [h|] eqn:Hon; [|left; split; reflexivity].
      destruct (binds (h_sig h) (c2s_keys payload)) eqn:Hb; simpl; [|left; split; reflexivity].
      right. exists a, r, h, payload. eexists. split; [reflexivity|]. split; [exact Hon|].
      split; [left; split; [exact Hs | reflexivity]|]. split; [reflexivity|].
      destruct (h_run h (c2s_keys payload) _) as [obj|code d x| |]; cbn [filter is_handler is_after];
        try (split; [reflexivity | left; reflexivity]).
      rewrite after_events_no_handler. split; [reflexivity|].
      unfold after_events. destruct (r_after r) as [k|] eqn:Hk; [|left; reflexivity].
      destruct (binds (k_sig k) (c2s_keys payload)); [|left; reflexivity].
      right. eexists. exists k. split; reflexivity.
    - destruct (validate tbl (c_ver c) MCall a payload) as [p|codes mc| |] eqn:Ev;
        try (left; destruct mc; split; reflexivity); try (left; split; reflexivity).
      destruct (r_on r) as [h|] eqn:Hon; [|left; split; reflexivity].
      destruct (binds (h_sig h) (c2s_keys p)) eqn:Hb; simpl; [|left; split; reflexivity].
      right. exists a, r, h, p. eexists. split; [reflexivity|]. split; [exact Hon|].
      split; [right; split; [exact Hs | exact Ev]|]. split; [reflexivity|].
      destruct (h_run h (c2s_keys p) _) as [obj|code d x| |]; cbn [filter is_handler is_after];
        try (split; [reflexivity | left; reflexivity]).
      destruct (validate tbl (c_ver c) MCallResult a _) as [w|codes2 mc2| |];
        [ | destruct mc2; (split; [reflexivity | left; reflexivity])
          | split; [reflexivity | left; reflexivity]
          | split; [reflexivity | left; reflexivity] ].
      cbn [filter is_handler is_after]. rewrite after_events_no_handler. split; [reflexivity|].
      unfold after_events. destruct (r_after r) as [k|] eqn:Hk; [|left; reflexivity].
      destruct (binds (k_sig k) (c2s_keys p)); [|left; reflexivity].
      right. eexists. exists k. split; reflexivity.
  Qed.

  (* a CALL that violates its schema on a validating route: no handler, one CALLERROR whose
     code is that of a violated constraint *)
  Theorem invalid_call_rejected c id action payload a r codes :
    lookup_route c action = Some (a, r) -> eff_skip r = false ->
    validate tbl (c_ver c) MCall a payload = VReject codes false ->
    handle_call tbl acts c id action payload = [EvError id (map code_name codes) None].
  Proof. intros Hl Hs Hv. unfold handle_call. rewrite Hl, Hs, Hv. reflexivity. Qed.

  (* C04: a CALLRESULT is written only if the route skips validation or the serialised result
     passed validation against the response schema of that action; what is written is that payload *)
  Theorem result_guard c id action payload w :
    In (EvResult id w) (handle_call tbl acts c id action payload) ->
    exists a r h p obj,
      lookup_route c action = Some (a, r) /\ r_on r = Some h /\
      h_run h (c2s_keys p) (uid_for (h_sig h) id) = HRet obj /\
      ((eff_skip r = true /\ w = encode (s2c_keys (remove_nones obj))) \/
       (eff_skip r = false /\ exists w', validate tbl (c_ver c) MCallResult a (s2c_keys (remove_nones obj)) = VAccept w'
                                         /\ w = encode w')).
  Proof.
    unfold handle_call. destruct (lookup_route c action) as [[a r]|] eqn:Hl.
    2:{ intros [H|[]]; discriminate. }
    destruct (eff_skip r) eqn:Hs.
    - destruct (r_on r) as [h|] eqn:Hon; [|intros [H|[]]; discriminate].
      destruct (binds (h_sig h) (c2s_keys payload)); simpl; [|intros [H|[]]; discriminate].
      intros [H|H]; [discriminate|].
      destruct (h_run h (c2s_keys payload) _) as [obj|code d x| |] eqn:Hr; try (destruct H as [H|[]]; discriminate).
      destruct H as [H|H].
      + injection H as <-. exists a, r, h, payload, obj. split; [reflexivity|]. split; [exact Hon|]. split; [exact Hr|].
        left. split; [exact Hs | reflexivity].
      + exfalso. unfold after_events in H. destruct (r_after r) as [k|]; [destruct (binds _ _)|]; simpl in H;
          try contradiction; destruct H as [H|[]]; discriminate.
    - destruct (validate tbl (c_ver c) MCall a payload) as [p|codes mc| |];
        try (destruct mc); try (intros [H|[]]; discriminate).
      destruct (r_on r) as [h|] eqn:Hon; [|intros [H|[]]; discriminate].
      destruct (binds (h_sig h) (c2s_keys p)); simpl; [|intros [H|[]]; discriminate].
      intros [H|H]; [discriminate|].
      destruct (h_run h (c2s_keys p) _) as [obj|code d x| |] eqn:Hr; try (destruct H as [H|[]]; discriminate).
      destruct (validate tbl (c_ver c) MCallResult a (s2c_keys (remove_nones obj))) as [w'|codes2 mc2| |] eqn:Ev2;
        try (destruct mc2); try (destruct H as [H|[]]; discriminate).
      destruct H as [H|H].
      + injection H as <-. exists a, r, h, p, obj. split; [reflexivity|]. split; [exact Hon|]. split; [exact Hr|].
        right. split; [exact Hs|]. exists w'. split; [exact Ev2 | reflexivity].
      + exfalso. unfold after_events in H. destruct (r_after r) as [k|]; [destruct (binds _ _)|]; simpl in H;
          try contradiction; destruct H as [H|[]]; discriminate.
  Qed.

  (* C09: what a raising handler puts on the wire *)
  Theorem handler_raises_ocpp c id action payload a r h p code d x :
    lookup_route c action = Some (a, r) -> r_on r = Some h ->
    (if eff_skip r then VAccept payload else validate tbl (c_ver c) MCall a payload) = VAccept p ->
    binds (h_sig h) (c2s_keys p) = true ->
    h_run h (c2s_keys p) (uid_for (h_sig h) id) = HRaiseOCPP code d x ->
    handle_call tbl acts c id action payload =
    [EvHandler (h_name h) (c2s_keys p) (uid_for (h_sig h) id); EvError id [code] (Some (d, x))].
  Proof.
    intros Hl Hon Hv Hb Hr. unfold handle_call. rewrite Hl, Hv, Hon, Hb. simpl.
    unfold uid_for in Hr. rewrite Hr. reflexivity.
  Qed.

  (* any other exception: a fixed InternalError frame -- nothing of the exception is in it *)
  Theorem handler_raises_other c id action payload a r h p :
    lookup_route c action = Some (a, r) -> r_on r = Some h ->
    (if eff_skip r then VAccept payload else validate tbl (c_ver c) MCall a payload) = VAccept p ->
    binds (h_sig h) (c2s_keys p) = true ->
    h_run h (c2s_keys p) (uid_for (h_sig h) id) = HRaiseOther ->
    handle_call tbl acts c id action payload =
    [EvHandler (h_name h) (c2s_keys p) (uid_for (h_sig h) id);
     EvError id ["InternalError"%string] (Some ("An unexpected error occurred."%string, JObj []))].
  Proof.
    intros Hl Hon Hv Hb Hr. unfold handle_call. rewrite Hl, Hv, Hon, Hb. simpl.
    unfold uid_for in Hr. rewrite Hr. reflexivity.
  Qed.

  (* ---------- C16: only the route of the action itself matters ---------- *)
  Theorem route_scope c c' id action payload :
    c_ver c = c_ver c' -> lookup_route c action = lookup_route c' action ->
    handle_call tbl acts c id action payload = handle_call tbl acts c' id action payload.
  Proof. intros Hv Hl. unfold handle_call. rewrite Hv, Hl. reflexivity. Qed.

  (* with validation skipped: the payload is delivered and the result written unchanged *)
  Theorem skipped_route_unchanged c id action payload a r h obj :
    lookup_route c action = Some (a, r) -> r_on r = Some h -> r_skip r = true ->
    binds (h_sig h) (c2s_keys payload) = true ->
    h_run h (c2s_keys payload) (uid_for (h_sig h) id) = HRet obj ->
    handle_call tbl acts c id action payload =
    EvHandler (h_name h) (c2s_keys payload) (uid_for (h_sig h) id)
    :: EvResult id (encode (s2c_keys (remove_nones obj)))
    :: after_events r id (c2s_keys payload).
  Proof.
    intros Hl Hon Hs Hb Hr. unfold handle_call, eff_skip. rewrite Hl, Hon, Hs, Hb. simpl.
    unfold uid_for in Hr. rewrite Hr. reflexivity.
  Qed.

  (* ---------- C17 ---------- *)
  Theorem unhandled_classified c id action payload :
    lookup_route c action = None ->
    handle_call tbl acts c id action payload = [EvError id [key_error_code acts (c_ver c) action] None].
  Proof. intros Hl. unfold handle_call. rewrite Hl. reflexivity. Qed.

  Theorem key_error_code_spec v action :
    (key_error_code acts v action = "NotImplemented"%string <->
     exists s, action = JStr s /\ In s (acts v)) /\
    (key_error_code acts v action = "NotImplemented"%string \/
     key_error_code acts v action = "NotSupported"%string).
  Proof.
    unfold key_error_code. destruct action as [| b | n | s | l | o];
      try (split; [split; [discriminate | intros [s0 [H _]]; discriminate] | right; reflexivity]).
    destruct (mem s (acts v)) eqn:E.
    - split; [|left; reflexivity]. split; [intros _; exists s; split; [reflexivity | apply mem_In; exact E]|reflexivity].
    - split; [|right; reflexivity]. split; [discriminate|].
      intros [s0 [Hs Hin]]. injection Hs as <-. apply mem_In in Hin. congruence.
  Qed.
End Proofs.
