(* FrameText.v -- ocpp.messages.unpack on the text itself: json.loads (JsonParse.loads) followed by the
   value-level classification of Frame.unpack_v. *)
From Coq Require Import List ZArith Bool String Ascii.
From OV.Model Require Import Json JsonText JsonParse Schema Frame.
Import ListNotations.
Local Open Scope string_scope.

(* what json.loads did, in the vocabulary of Frame.unpack *)
Definition outcome_of (r : loads_result) : loads_outcome :=
  match r with
  | LValue v => Loaded v
  | _ => LoadsRaised            (* ValueError and RecursionError are caught alike *)
  end.

Definition unpack_text (limit : nat) (s : string) : unpack_result :=
  unpack (outcome_of (loads limit s)).

(* to_json / pack: the text that is written *)
Definition pack_text (m : msg) : string := print_compact (pack_v m).
