(* CaseRouting.v -- comparison used by the `routing` correspondence. *)
From Coq Require Import List NArith Bool String.
From OV.Model Require Import Json Routing CaseLib.
Import ListNotations.
Local Open Scope string_scope.

Record rcase := mkR { rc_hist : history; rc_cls : string; rc_obs : list (string * entry) }.

Definition opt3_eqb (a b : option (string * string * bool)) : bool :=
  match a, b with
  | None, None => true
  | Some (o, n, s), Some (o', n', s') => String.eqb o o' && String.eqb n n' && Bool.eqb s s'
  | _, _ => false
  end.
Definition opt2_eqb (a b : option (string * string)) : bool :=
  match a, b with
  | None, None => true
  | Some (o, n), Some (o', n') => String.eqb o o' && String.eqb n n'
  | _, _ => false
  end.

Definition ragree (c : rcase) : bool :=
  forallb (fun p => let e := route_entry (rc_hist c) (rc_cls c) (fst p) in
                    opt3_eqb (e_on e) (e_on (snd p)) && opt2_eqb (e_after e) (e_after (snd p)))
          (rc_obs c).
Definition rdisagreements (cs : list rcase) : list N := bad ragree cs 0%N.
