(* EndpointProgress.v -- the gate is always released: after enough time every request has
   completed, the gate is free and nobody waits (liveness of the model; the FIFO hand-over). *)
From Coq Require Import List ZArith Bool String Ascii Lia Arith.
From OV.Model Require Import Json Names Schema Validate Frame Vocab Classes Dispatch Endpoint EndpointProofs.
Import ListNotations.
Local Open Scope Z_scope.

Section Progress.
  Variable tbl : version -> list (string * schema).
  Variable acts : version -> list string.
  Variable errors : list (string * string * string).
  Variable results : version -> list classdef.
  Variable fresh : nat -> string.
  Variable timeout : Z.
  Variable c : cfg.
  Hypothesis timeout_pos : 0 < timeout.

  Notation settle := (settle tbl errors results timeout c).
  Notation quiesce := (quiesce tbl errors results timeout c).
  Notation advance := (advance tbl errors results timeout c).
  Notation step := (step tbl acts errors results fresh timeout c).
  Notation run := (run tbl acts errors results fresh timeout c).
  Notation do_send := (do_send timeout).
  Notation Inv := (Inv tbl errors results timeout c).

  Ltac ap L := first [ apply (L tbl errors results timeout c timeout_pos)
                     | apply (L tbl errors results timeout c) ].

  Lemma NoDup_app_intro_one {A} (l : list A) x : NoDup l -> ~ In x l -> NoDup (l ++ [x]).
  Proof.
    intros ND Hx. induction ND as [|y r Hy ND IH]; simpl; [constructor; [intros []|constructor]|].
    constructor.
    - intros Hin. apply in_app_or in Hin. destruct Hin as [Hin|[Hin|[]]]; [contradiction|]. subst. apply Hx. left. reflexivity.
    - apply IH. intros Hin. apply Hx. right. exact Hin.
  Qed.

  Definition waitlock (st : state) (k : nat) : Prop :=
    exists cl, get_caller k (callers st) = Some cl /\ cl_phase cl = PWaitLock.

  (* [x] is a caller that has just been taken off the waiters list and is about to write *)
  Record WInv (x : option nat) (st : state) : Prop := mkW {
    w_nodup : NoDup (waiters st);
    w_phase : forall k, (In k (waiters st) \/ x = Some k) <-> waitlock st k;
    w_fresh : forall k, x = Some k -> ~ In k (waiters st);
    w_deadline : forall k cl d, get_caller k (callers st) = Some cl -> cl_phase cl = PWaiting d -> d <= now st + timeout }.

  Record Quiet (st : state) : Prop := mkQ {
    q_free : holder st = None -> waiters st = [];
    q_drained : forall k, holder st = Some k -> queue st = [] }.

  Lemma get_set_phase st k p k' :
    get_caller k' (callers (set_phase st k p)) =
    match get_caller k (callers st) with
    | Some cl => if Nat.eqb k k' then Some (with_phase cl p) else get_caller k' (callers st)
    | None => get_caller k' (callers st)
    end.
  Proof.
    unfold set_phase. destruct (get_caller k (callers st)) as [cl|] eqn:E; [|reflexivity]. simpl.
    destruct (Nat.eqb k k') eqn:Ek.
    - apply Nat.eqb_eq in Ek. subst. apply get_set_same.
    - apply Nat.eqb_neq in Ek. apply get_set_other. exact Ek.
  Qed.

  Lemma waiters_set_phase st k p : waiters (set_phase st k p) = waiters st.
  Proof. unfold set_phase. destruct (get_caller k (callers st)); reflexivity. Qed.
  Lemma now_set_phase st k p : now (set_phase st k p) = now st.
  Proof. unfold set_phase. destruct (get_caller k (callers st)); reflexivity. Qed.
  Lemma holder_set_phase st k p : holder (set_phase st k p) = holder st.
  Proof. unfold set_phase. destruct (get_caller k (callers st)); reflexivity. Qed.
  Lemma queue_set_phase st k p : queue (set_phase st k p) = queue st.
  Proof. unfold set_phase. destruct (get_caller k (callers st)); reflexivity. Qed.

  (* a transformation that changes only caller k's phase, from a non-WaitLock phase to a non-WaitLock,
     non-Waiting one (or to Waiting with a good deadline), and nothing the W-invariant looks at *)
  Lemma WInv_rephase x st st' k :
    WInv x st ->
    waiters st' = waiters st -> now st <= now st' ->
    (forall k', k' <> k -> get_caller k' (callers st') = get_caller k' (callers st)) ->
    (~ waitlock st k \/ x = Some k) ->
    (forall cl', get_caller k (callers st') = Some cl' ->
                 cl_phase cl' <> PWaitLock /\ (forall d, cl_phase cl' = PWaiting d -> d <= now st' + timeout)) ->
    WInv (match x with Some y => if Nat.eqb y k then None else x | None => None end) st'.
  Proof.
    intros [ND Hph Hfr Hdl] Hw Hnow Hother Hk Hnew. constructor.
    - rewrite Hw. exact ND.
    - intros k'. rewrite Hw. destruct (Nat.eq_dec k' k) as [->|Hne].
      + split.
        * intros [Hin|Hx].
          -- exfalso. destruct Hk as [Hk|Hk]; [apply Hk; apply Hph; left; exact Hin | eapply Hfr; eassumption].
          -- exfalso. destruct x as [y|]; [|discriminate]. destruct (Nat.eqb y k) eqn:E; [discriminate|].
             injection Hx as ->. rewrite Nat.eqb_refl in E. discriminate.
        * intros [cl' [H1 H2]]. exfalso. destruct (Hnew cl' H1) as [A _]. contradiction.
      + unfold waitlock. rewrite (Hother k' Hne). rewrite <- (Hph k'). split.
        * intros [Hin|Hx]; [left; exact Hin|]. right. destruct x as [y|]; [|discriminate].
          destruct (Nat.eqb y k); [discriminate | exact Hx].
        * intros [Hin|Hx]; [left; exact Hin|]. right. destruct x as [y|]; [|discriminate].
          destruct (Nat.eqb y k) eqn:E; [|exact Hx]. apply Nat.eqb_eq in E. injection Hx as ->. congruence.
    - intros k' Hx. rewrite Hw. destruct x as [y|]; [|discriminate]. destruct (Nat.eqb y k); [discriminate|].
      apply Hfr. exact Hx.
    - intros k' cl d H1 H2. destruct (Nat.eq_dec k' k) as [->|Hne].
      + destruct (Hnew cl H1) as [_ B]. apply B. exact H2.
      + rewrite (Hother k' Hne) in H1. pose proof (Hdl k' cl d H1 H2). lia.
  Qed.

  Lemma WInv_weaken_log x st o : WInv x st -> WInv x (put_log st o).
  Proof. intros [A B C0 D]. constructor; assumption. Qed.
  Lemma WInv_set_queue x st q : WInv x st -> WInv x (set_queue st q).
  Proof. intros [A B C0 D]. constructor; assumption. Qed.
  Lemma WInv_set_holder x st h : WInv x st -> WInv x (set_holder st h).
  Proof. intros [A B C0 D]. constructor; assumption. Qed.

  (* the caller taken off the list writes its CALL (or fails to) *)
  Lemma WInv_do_send st k : WInv (Some k) st -> WInv None (do_send st k).
  Proof.
    intros HW. unfold Endpoint.do_send.
    destruct (get_caller k (callers st)) as [cl|] eqn:Hc.
    2:{ exfalso. destruct (proj1 (w_phase _ _ HW k) (or_intror eq_refl)) as [cl [H1 _]]. congruence. }
    destruct (cl_send_ok cl).
    - pose proof (WInv_rephase (Some k) st
                    (set_phase (set_holder (put_log st (CallWritten k (JArr [JNum (NInt 2); cl_uid cl; JStr (cl_action cl); encode (cl_wire cl)]))) (Some k)) k (PWaiting (now st + timeout)))
                    k HW) as H.
      cbn beta iota in H. rewrite Nat.eqb_refl in H. apply H; clear H.
      + rewrite waiters_set_phase. reflexivity.
      + rewrite now_set_phase. simpl. lia.
      + intros k' Hne. rewrite get_set_phase. simpl. rewrite Hc.
        destruct (Nat.eqb k k') eqn:E; [apply Nat.eqb_eq in E; congruence | reflexivity].
      + right. reflexivity.
      + intros cl' H1. rewrite get_set_phase in H1. simpl in H1. rewrite Hc, Nat.eqb_refl in H1. injection H1 as <-.
        simpl. split; [discriminate|]. intros d Hd. injection Hd as <-. rewrite now_set_phase. simpl. lia.
    - pose proof (WInv_rephase (Some k) st
                    (set_phase (set_holder (put_log st (Released k WSendFail)) None) k (PDone OSendFail (now st)))
                    k HW) as H.
      cbn beta iota in H. rewrite Nat.eqb_refl in H. apply H; clear H.
      + rewrite waiters_set_phase. reflexivity.
      + rewrite now_set_phase. simpl. lia.
      + intros k' Hne. rewrite get_set_phase. simpl. rewrite Hc.
        destruct (Nat.eqb k k') eqn:E; [apply Nat.eqb_eq in E; congruence | reflexivity].
      + right. reflexivity.
      + intros cl' H1. rewrite get_set_phase in H1. simpl in H1. rewrite Hc, Nat.eqb_refl in H1. injection H1 as <-.
        simpl. split; discriminate.
  Qed.

  (* the holder (a caller in PWaiting) finishes: its phase becomes PDone *)
  Lemma WInv_finish st st0 k cl d o t :
    WInv None st -> get_caller k (callers st) = Some cl -> cl_phase cl = PWaiting d ->
    waiters st0 = waiters st -> callers st0 = callers st -> now st <= now st0 ->
    WInv None (set_phase st0 k (PDone o t)).
  Proof.
    intros HW Hc Hp Hw Hcs Hnow.
    pose proof (WInv_rephase None st (set_phase st0 k (PDone o t)) k HW) as H. simpl in H. apply H; clear H.
    - rewrite waiters_set_phase. exact Hw.
    - rewrite now_set_phase. exact Hnow.
    - intros k' Hne. rewrite get_set_phase. rewrite Hcs, Hc.
      destruct (Nat.eqb k k') eqn:E; [apply Nat.eqb_eq in E; congruence | reflexivity].
    - left. intros [cl' [H1 H2]]. rewrite Hc in H1. injection H1 as <-. congruence.
    - intros cl' H1. rewrite get_set_phase in H1. rewrite Hcs, Hc, Nat.eqb_refl in H1. injection H1 as <-.
      simpl. split; discriminate.
  Qed.

  Lemma WInv_take st k ws : WInv None st -> waiters st = k :: ws -> WInv (Some k) (set_waiters st ws).
  Proof.
    intros [ND Hph Hfr Hdl] Hw. rewrite Hw in ND. inversion ND as [|x l Hx ND']; subst. constructor; simpl.
    - exact ND'.
    - intros k'. unfold waitlock. simpl. rewrite <- (Hph k'). rewrite Hw. simpl. split.
      + intros [H|H]; [left; right; exact H | injection H as ->; left; left; reflexivity].
      + intros [[H|H]|H]; [right; f_equal; exact H | left; exact H | discriminate].
    - intros k' H. injection H as <-. exact Hx.
    - exact Hdl.
  Qed.

  Lemma WInv_settle fuel : forall st, Inv st -> WInv None st -> WInv None (settle fuel st).
  Proof.
    induction fuel as [|f IH]; intros st HI HW; [exact HW|]. simpl.
    destruct (holder st) as [k|] eqn:Hk.
    - destruct (get_caller k (callers st)) as [cl|] eqn:Hc; [|exact HW].
      destruct (cl_phase cl) as [|d|o t] eqn:Hp; try exact HW.
      destruct (queue st) as [|m q] eqn:Hq; [exact HW|].
      assert (HI1 : Inv (set_queue st q)) by (ap Inv_set_queue; exact HI).
      destruct (py_eqb (msg_id m) (cl_uid cl)) eqn:Heq.
      + apply IH.
        * first [ apply (Inv_deliver tbl errors results timeout c timeout_pos (set_queue st q) k cl m HI1 Hk Hc Heq)
                | apply (Inv_deliver tbl errors results timeout c (set_queue st q) k cl m HI1 Hk Hc Heq) ].
          apply complete_not_timeout.
        * apply (WInv_finish st _ k cl d); try assumption; try reflexivity; try (simpl; lia).
      + destruct (d - now st <=? 0) eqn:Ed.
        * exfalso. apply Z.leb_le in Ed. destruct (inv_wait _ _ _ _ _ _ HI k cl d Hc Hp) as [_ [Hlt _]]. lia.
        * apply IH.
          -- ap Inv_put_neutral; [exact I | exact HI1].
          -- apply WInv_weaken_log. apply WInv_set_queue. exact HW.
    - destruct (waiters st) as [|k ws] eqn:Hw; [exact HW|].
      apply IH.
      + ap Inv_do_send; [ap Inv_set_waiters; exact HI | exact Hk].
      + apply WInv_do_send. apply WInv_take; assumption.
  Qed.

  (* ---- with enough fuel, settle ends in a quiet state ---- *)
  Definition mu (st : state) : nat := List.length (queue st) + List.length (waiters st).

  Lemma Quiet_settle fuel : forall st, Inv st -> (mu st < fuel)%nat -> Quiet (settle fuel st).
  Proof.
    induction fuel as [|f IH]; intros st HI Hmu; [lia|]. simpl.
    destruct (holder st) as [k|] eqn:Hk.
    - destruct (inv_holder _ _ _ _ _ _ HI k Hk) as [cl [d [Hc Hp]]]. rewrite Hc, Hp.
      destruct (queue st) as [|m q] eqn:Hq.
      + constructor; [intros H; congruence | intros k' _; exact Hq].
      + assert (HI1 : Inv (set_queue st q)) by (ap Inv_set_queue; exact HI).
        destruct (py_eqb (msg_id m) (cl_uid cl)) eqn:Heq.
        * apply IH.
          -- first [ apply (Inv_deliver tbl errors results timeout c timeout_pos (set_queue st q) k cl m HI1 Hk Hc Heq)
                   | apply (Inv_deliver tbl errors results timeout c (set_queue st q) k cl m HI1 Hk Hc Heq) ].
             apply complete_not_timeout.
          -- unfold mu in *. rewrite waiters_set_phase, queue_set_phase. simpl. rewrite Hq in Hmu. simpl in Hmu. lia.
        * destruct (d - now st <=? 0) eqn:Ed.
          -- exfalso. apply Z.leb_le in Ed. destruct (inv_wait _ _ _ _ _ _ HI k cl d Hc Hp) as [_ [Hlt _]]. lia.
          -- apply IH; [ap Inv_put_neutral; [exact I | exact HI1]|].
             unfold mu in *. simpl. rewrite Hq in Hmu. simpl in Hmu. lia.
    - destruct (waiters st) as [|k ws] eqn:Hw.
      + constructor; [intros _; exact Hw | intros k' H; congruence].
      + apply IH; [ap Inv_do_send; [ap Inv_set_waiters; exact HI | exact Hk]|].
        unfold mu in *. rewrite Hw in Hmu. simpl in Hmu.
        unfold Endpoint.do_send. simpl. destruct (get_caller k (callers st)) as [cl|]; [|simpl; lia].
        destruct (cl_send_ok cl); rewrite waiters_set_phase, queue_set_phase; simpl; lia.
  Qed.

  Lemma Quiet_quiesce st : Inv st -> Quiet (quiesce st).
  Proof. intros HI. apply Quiet_settle; [exact HI|]. unfold mu, fuel_of. lia. Qed.

  (* ---- the number of unfinished requests never grows inside settle ---- *)
  Definition unfinished (st : state) : nat :=
    List.length (waiters st) + match holder st with Some _ => 1 | None => 0 end.

  Lemma unfinished_settle fuel : forall st, (unfinished (settle fuel st) <= unfinished st)%nat.
  Proof.
    induction fuel as [|f IH]; intros st; [simpl; lia|]. simpl.
    destruct (holder st) as [k|] eqn:Hk.
    - destruct (get_caller k (callers st)) as [cl|] eqn:Hc; [|lia].
      destruct (cl_phase cl) as [|d|o t]; try lia.
      destruct (queue st) as [|m q]; [lia|].
      destruct (py_eqb _ _).
      + eapply Nat.le_trans; [apply IH|]. unfold unfinished. rewrite waiters_set_phase, holder_set_phase. simpl. rewrite Hk. lia.
      + destruct (_ <=? 0).
        * eapply Nat.le_trans; [apply IH|]. unfold unfinished. rewrite waiters_set_phase, holder_set_phase. simpl. rewrite Hk. lia.
        * eapply Nat.le_trans; [apply IH|]. unfold unfinished. simpl. rewrite Hk. lia.
    - destruct (waiters st) as [|k ws] eqn:Hw; [lia|].
      eapply Nat.le_trans; [apply IH|]. unfold unfinished, Endpoint.do_send. simpl.
      destruct (get_caller k (callers st)) as [cl|]; [|simpl; rewrite Hk, Hw; simpl; lia].
      destruct (cl_send_ok cl); rewrite waiters_set_phase, holder_set_phase; simpl; rewrite Hw, Hk; simpl; lia.
  Qed.

  Lemma now_settle fuel : forall st, now (settle fuel st) = now st.
  Proof.
    induction fuel as [|f IH]; intros st; [reflexivity|]. simpl.
    destruct (holder st) as [k|].
    - destruct (get_caller k (callers st)) as [cl|]; [|reflexivity].
      destruct (cl_phase cl) as [|d|o t]; try reflexivity.
      destruct (queue st) as [|m q]; [reflexivity|].
      destruct (py_eqb _ _); [rewrite IH, now_set_phase; reflexivity|].
      destruct (_ <=? 0); rewrite IH; rewrite ?now_set_phase; reflexivity.
    - destruct (waiters st) as [|k ws]; [reflexivity|]. rewrite IH. unfold Endpoint.do_send. simpl.
      destruct (get_caller k (callers st)) as [cl|]; [|reflexivity].
      destruct (cl_send_ok cl); rewrite now_set_phase; reflexivity.
  Qed.

  (* ---- the clock: after timeout x (unfinished requests) everything has completed ---- *)
  Lemma WInv_set_now x st t : WInv x st -> now st <= t -> WInv x (set_now st t).
  Proof.
    intros [A B C0 D] Ht. constructor; try assumption.
    intros k cl d H1 H2. simpl. pose proof (D k cl d H1 H2). lia.
  Qed.

  Theorem advance_progress fuel : forall target st,
    Inv st -> WInv None st -> Quiet st ->
    (unfinished st < fuel)%nat -> now st + timeout * Z.of_nat (unfinished st) <= target ->
    let st' := advance fuel target st in
    holder st' = None /\ waiters st' = [] /\ now st' = target /\ Inv st' /\ WInv None st' /\ Quiet st'.
  Proof.
    induction fuel as [|f IH]; intros target st HI HW HQ Hfuel Htgt; [lia|]. cbv zeta. simpl.
    destruct (holder st) as [k|] eqn:Hk.
    - destruct (inv_holder _ _ _ _ _ _ HI k Hk) as [cl [d [Hc Hp]]]. rewrite Hc, Hp.
      destruct (inv_wait _ _ _ _ _ _ HI k cl d Hc Hp) as [_ [Hlt _]].
      pose proof (w_deadline _ _ HW k cl d Hc Hp) as Hdl.
      assert (Hu : (1 <= unfinished st)%nat) by (unfold unfinished; rewrite Hk; lia).
      assert (Hd : d <= target) by nia.
      apply Z.leb_le in Hd. rewrite Hd. apply Z.leb_le in Hd.
      replace (Z.max d (now st)) with d by lia.
      set (st1 := set_phase (set_holder (put_log (set_now st d) (Released k WTimeout)) None) k (PDone OTimeout d)).
      change (now (set_now st d)) with d.
      assert (HI1 : Inv st1) by (unfold st1; simpl; apply (Inv_timeout tbl errors results timeout c st k cl d HI Hk Hc Hp)).
      assert (HW1 : WInv None st1).
      { unfold st1. apply (WInv_finish st _ k cl d); try assumption; try reflexivity; try (simpl; lia). }
      assert (Hun1 : (unfinished st1 < unfinished st)%nat).
      { unfold st1, unfinished. rewrite waiters_set_phase, holder_set_phase. simpl. rewrite Hk. lia. }
      apply IH.
      + ap Inv_quiesce. exact HI1.
      + apply WInv_settle; assumption.
      + apply Quiet_quiesce. exact HI1.
      + pose proof (unfinished_settle (fuel_of st1) st1). unfold Endpoint.quiesce. lia.
      + unfold Endpoint.quiesce. rewrite now_settle. pose proof (unfinished_settle (fuel_of st1) st1) as Hle.
        assert (Hn1 : now st1 = d) by (unfold st1; rewrite now_set_phase; reflexivity). rewrite Hn1. nia.
    - pose proof (q_free _ HQ Hk) as Hw.
      split; [exact Hk|]. split; [exact Hw|]. split; [reflexivity|]. split; [|split].
      + ap Inv_set_now; [exact HI|]. intros k' cl' d' H1. congruence.
      + apply WInv_set_now; [exact HW|]. unfold unfinished in Htgt. nia.
      + constructor; simpl; [intros _; exact Hw | intros k' H; congruence].
  Qed.

  (* ---- every operation keeps the waiters discipline and ends quiet ---- *)
  Lemma not_waitlock_new st k : get_caller k (callers st) = None -> ~ waitlock st k.
  Proof. intros H [cl [H1 _]]. congruence. Qed.

  Lemma WInv_add st k cl (pending : bool) :
    WInv None st -> get_caller k (callers st) = None ->
    (if pending then cl_phase cl = PWaitLock
     else cl_phase cl <> PWaitLock /\ forall d, cl_phase cl <> PWaiting d) ->
    WInv (if pending then Some k else None) (add_caller st k cl).
  Proof.
    intros [ND Hph Hfr Hdl] Hnew Hcl.
    assert (Hnotin : ~ In k (waiters st)).
    { intros Hin. apply (not_waitlock_new st k Hnew). apply Hph. left. exact Hin. }
    constructor; simpl.
    - exact ND.
    - intros k'. unfold waitlock. simpl. destruct (Nat.eq_dec k k') as [<-|Hne].
      + rewrite get_set_same. split.
        * intros [Hin|Hx]; [contradiction|]. destruct pending; [|discriminate]. exists cl. split; [reflexivity | exact Hcl].
        * intros [cl' [H1 H2]]. injection H1 as <-. destruct pending; [right; reflexivity|]. destruct Hcl as [A _]. contradiction.
      + rewrite get_set_other by exact Hne. rewrite <- (Hph k'). split.
        * intros [Hin|Hx]; [left; exact Hin|]. destruct pending; [injection Hx as ->; congruence | discriminate].
        * intros [Hin|Hx]; [left; exact Hin | discriminate].
    - intros k' Hx. destruct pending; [injection Hx as <-; exact Hnotin | discriminate].
    - intros k' cl' d H1 H2. destruct (Nat.eq_dec k k') as [<-|Hne].
      + rewrite get_set_same in H1. injection H1 as <-. destruct pending; [congruence|]. destruct Hcl as [_ B]. exfalso. eapply B. exact H2.
      + rewrite get_set_other in H1 by exact Hne. apply (Hdl k' cl' d H1 H2).
  Qed.

  Lemma WInv_bump x st : WInv x st -> WInv x (bump_fresh st).
  Proof. intros [A B C0 D]. constructor; assumption. Qed.

  Lemma WInv_enqueue st k : WInv (Some k) st -> WInv None (set_waiters st (waiters st ++ [k])).
  Proof.
    intros [ND Hph Hfr Hdl]. constructor; simpl.
    - apply NoDup_app_intro_one; [exact ND | apply Hfr; reflexivity].
    - intros k'. unfold waitlock. simpl. rewrite <- (Hph k'). rewrite in_app_iff. simpl. split.
      + intros [[H|[H|[]]]|H]; [left; exact H | right; f_equal; exact H | discriminate].
      + intros [H|H]; [left; left; exact H | left; right; left; injection H as ->; reflexivity].
    - intros k' H. discriminate.
    - exact Hdl.
  Qed.

  Lemma WInv_start_with st k uid action snake skip suppress send_ok :
    Inv st -> WInv None st -> get_caller k (callers st) = None ->
    WInv None (start_with tbl errors results timeout c st k uid action snake skip suppress send_ok).
  Proof.
    intros HI HW Hc. unfold start_with.
    destruct (if skip then _ else _) as [w|codes mc| |].
    - set (cl := mkCaller uid action w skip suppress send_ok PWaitLock).
      assert (HWp : WInv (Some k) (add_caller st k cl)) by (apply (WInv_add st k cl true HW Hc); reflexivity).
      assert (HIa : Inv (add_caller st k cl)) by (ap Inv_add; [exact HI | exact Hc | discriminate | discriminate | discriminate]).
      destruct (holder st) as [h|] eqn:Hh; [|destruct (waiters st) eqn:Hw].
      + apply (WInv_enqueue (add_caller st k cl) k HWp).
      + apply WInv_settle; [ap Inv_do_send; [exact HIa | exact Hh] | apply WInv_do_send; exact HWp].
      + rewrite <- Hw. apply (WInv_enqueue (add_caller st k cl) k HWp).
    - destruct mc; apply (WInv_add st k _ false HW Hc); simpl; split; discriminate.
    - apply (WInv_add st k _ false HW Hc); simpl; split; discriminate.
    - apply (WInv_add st k _ false HW Hc); simpl; split; discriminate.
  Qed.

  Lemma WInv_advance fuel target : forall st, Inv st -> WInv None st -> now st <= target -> WInv None (advance fuel target st).
  Proof.
    induction fuel as [|f IH]; intros st HI HW Hle; simpl; [exact HW|].
    destruct (holder st) as [k|] eqn:Hk; [|apply WInv_set_now; assumption].
    destruct (get_caller k (callers st)) as [cl|] eqn:Hc; [|apply WInv_set_now; assumption].
    destruct (cl_phase cl) as [|d|o t] eqn:Hp; try (apply WInv_set_now; assumption).
    destruct (d <=? target) eqn:Ed; [|apply WInv_set_now; assumption].
    apply Z.leb_le in Ed. destruct (inv_wait _ _ _ _ _ _ HI k cl d Hc Hp) as [_ [Hlt _]].
    replace (Z.max d (now st)) with d by lia. change (now (set_now st d)) with d.
    set (st1 := set_phase (set_holder (put_log (set_now st d) (Released k WTimeout)) None) k (PDone OTimeout d)).
    assert (HI1 : Inv st1) by (apply (Inv_timeout tbl errors results timeout c st k cl d HI Hk Hc Hp)).
    assert (HW1 : WInv None st1).
    { unfold st1. apply (WInv_finish st _ k cl d); try assumption; try reflexivity; try (simpl; lia). }
    apply IH.
    - ap Inv_quiesce. exact HI1.
    - apply WInv_settle; assumption.
    - unfold Endpoint.quiesce. rewrite now_settle. unfold st1. rewrite now_set_phase. simpl. exact Ed.
  Qed.

  Lemma WInv_fold_disp evs : forall st, WInv None st -> WInv None (fold_left (fun s e => put_log s (Disp e)) evs st).
  Proof. induction evs as [|e r IH]; intros st HW; simpl; [exact HW | apply IH; apply WInv_weaken_log; exact HW]. Qed.

  Theorem WInv_step st o : Inv st -> WInv None st -> WInv None (step st o).
  Proof.
    intros HI HW. destruct o as [k uid action snake skip suppress send_ok | lo | dt | k]; unfold Endpoint.step; cbv beta iota.
    - destruct (get_caller k (callers st)) as [cl0|] eqn:Hc; [exact HW|]. destruct uid as [u|].
      + apply WInv_start_with; assumption.
      + apply WInv_start_with; [ap Inv_bump; exact HI | apply WInv_bump; exact HW | exact Hc].
    - destruct (unpack lo) as [m|e]; [|exact HW]. destruct m as [i a p | i p a | i cd d x].
      + apply WInv_fold_disp. exact HW.
      + apply WInv_settle; [ap Inv_set_queue; exact HI | apply WInv_set_queue; exact HW].
      + apply WInv_settle; [ap Inv_set_queue; exact HI | apply WInv_set_queue; exact HW].
    - destruct (dt <=? 0) eqn:Ed; [exact HW|]. apply WInv_advance; [exact HI | exact HW | lia].
    - destruct (get_caller k (callers st)) as [cl|] eqn:Hc; [|exact HW].
      destruct (cl_phase cl) as [|d|o t] eqn:Hp; [| |exact HW].
      + (* a waiting caller leaves the list *)
        destruct HW as [ND Hph Hfr Hdl]. unfold set_phase. simpl. rewrite Hc. constructor; simpl.
        * apply NoDup_filter. exact ND.
        * intros k'. unfold waitlock. simpl. rewrite filter_In. destruct (Nat.eq_dec k k') as [<-|Hne].
          -- rewrite get_set_same, Nat.eqb_refl. simpl. split.
             ++ intros [[_ H]|H]; discriminate.
             ++ intros [cl' [H1 H2]]. injection H1 as <-. discriminate.
          -- rewrite get_set_other by exact Hne. rewrite <- (Hph k'). split.
             ++ intros [[H _]|H]; [left; exact H | discriminate].
             ++ intros [H|H]; [left; split; [exact H|] | discriminate].
                apply negb_true_iff. apply Nat.eqb_neq. intros ->. apply Hne. reflexivity.
        * intros k' H. discriminate.
        * intros k' cl' d H1 H2. destruct (Nat.eq_dec k k') as [<-|Hne].
          -- rewrite get_set_same in H1. injection H1 as <-. discriminate.
          -- rewrite get_set_other in H1 by exact Hne. apply (Hdl k' cl' d H1 H2).
      + destruct (inv_wait _ _ _ _ _ _ HI k cl d Hc Hp) as [Hk _].
        apply WInv_settle.
        * apply (Inv_release tbl errors results timeout c st k cl OCancelled WCancelled HI Hk Hc); discriminate.
        * apply (WInv_finish st _ k cl d); try assumption; try reflexivity; try (simpl; lia).
  Qed.

  Lemma Quiet_same st st' :
    Quiet st -> holder st' = holder st -> waiters st' = waiters st -> queue st' = queue st -> Quiet st'.
  Proof. intros [A B] H1 H2 H3. constructor; rewrite ?H1, ?H2, ?H3; assumption. Qed.

  Lemma fold_disp_fields evs : forall st,
    let st' := fold_left (fun s e => put_log s (Disp e)) evs st in
    holder st' = holder st /\ waiters st' = waiters st /\ queue st' = queue st.
  Proof.
    induction evs as [|e r IH]; intros st; simpl; [repeat split|].
    destruct (IH (put_log st (Disp e))) as [A [B C0]]. simpl in *. repeat split; assumption.
  Qed.

  Lemma Quiet_advance fuel target : forall st, Inv st -> Quiet st -> Quiet (advance fuel target st).
  Proof.
    induction fuel as [|f IH]; intros st HI HQ; simpl; [exact HQ|].
    destruct (holder st) as [k|] eqn:Hk; [|apply (Quiet_same st); first [assumption | reflexivity]].
    destruct (get_caller k (callers st)) as [cl|] eqn:Hc; [|apply (Quiet_same st); first [assumption | reflexivity]].
    destruct (cl_phase cl) as [|d|o t] eqn:Hp; try (apply (Quiet_same st); first [assumption | reflexivity]).
    destruct (d <=? target) eqn:Ed; [|apply (Quiet_same st); first [assumption | reflexivity]].
    destruct (inv_wait _ _ _ _ _ _ HI k cl d Hc Hp) as [_ [Hlt _]].
    replace (Z.max d (now st)) with d by lia. change (now (set_now st d)) with d.
    assert (HI1 : Inv (set_phase (set_holder (put_log (set_now st d) (Released k WTimeout)) None) k (PDone OTimeout d)))
      by (apply (Inv_timeout tbl errors results timeout c st k cl d HI Hk Hc Hp)).
    apply IH; [ap Inv_quiesce; exact HI1 | apply Quiet_quiesce; exact HI1].
  Qed.

  Theorem Quiet_step st o : Inv st -> Quiet st -> Quiet (step st o).
  Proof.
    intros HI HQ. destruct o as [k uid action snake skip suppress send_ok | lo | dt | k]; unfold Endpoint.step; cbv beta iota.
    - destruct (get_caller k (callers st)) as [cl0|] eqn:Hc; [exact HQ|].
      assert (G : forall st0 u, Inv st0 -> Quiet st0 -> get_caller k (callers st0) = None ->
                           Quiet (start_with tbl errors results timeout c st0 k u action snake skip suppress send_ok)).
      { intros st0 u HI0 HQ0 Hc0. unfold start_with.
        destruct (if skip then _ else _) as [w|codes mc| |]; try (destruct mc); try (apply (Quiet_same st0); first [assumption | reflexivity]).
        destruct (holder st0) as [h|] eqn:Hh; [|destruct (waiters st0) eqn:Hw].
        - constructor; simpl; [intros H; congruence | intros k' H; apply (q_drained _ HQ0 k'); exact H].
        - apply Quiet_quiesce. ap Inv_do_send; [|exact Hh].
          ap Inv_add; [exact HI0 | exact Hc0 | discriminate | discriminate | discriminate].
        - exfalso. pose proof (q_free _ HQ0 Hh). congruence. }
      destruct uid as [u|]; [apply G; assumption|].
      apply G; [ap Inv_bump; exact HI | apply (Quiet_same st); first [assumption | reflexivity] | exact Hc].
    - destruct (unpack lo) as [m|e]; [|exact HQ]. destruct m as [i a p | i p a | i cd d x].
      + destruct (fold_disp_fields (handle_call tbl acts c i a p) st) as [A [B C0]]. apply (Quiet_same st); assumption.
      + apply Quiet_quiesce. ap Inv_set_queue. exact HI.
      + apply Quiet_quiesce. ap Inv_set_queue. exact HI.
    - destruct (dt <=? 0); [exact HQ | apply Quiet_advance; assumption].
    - destruct (get_caller k (callers st)) as [cl|] eqn:Hc; [|exact HQ].
      destruct (cl_phase cl) as [|d|o t] eqn:Hp; [| |exact HQ].
      + constructor; rewrite ?holder_set_phase, ?waiters_set_phase, ?queue_set_phase; simpl.
        * intros H. rewrite (q_free _ HQ H). reflexivity.
        * intros k' H. apply (q_drained _ HQ k' H).
      + destruct (inv_wait _ _ _ _ _ _ HI k cl d Hc Hp) as [Hk _]. apply Quiet_quiesce.
        apply (Inv_release tbl errors results timeout c st k cl OCancelled WCancelled HI Hk Hc); discriminate.
  Qed.

  (* every reachable state satisfies all three invariants *)
  Theorem reachable_invariants ops : Inv (run ops) /\ WInv None (run ops) /\ Quiet (run ops).
  Proof.
    unfold Endpoint.run.
    assert (H : forall st, Inv st /\ WInv None st /\ Quiet st ->
                           Inv (fold_left step ops st) /\ WInv None (fold_left step ops st) /\ Quiet (fold_left step ops st)).
    { induction ops as [|o r IH]; intros st [A [B C0]]; simpl; [auto|]. apply IH. split; [|split].
      - apply (Inv_step tbl acts errors results fresh timeout c timeout_pos). exact A.
      - apply WInv_step; assumption.
      - apply Quiet_step; assumption. }
    apply H. split; [ap Inv_init|]. split.
    - constructor.
      + apply NoDup_nil.
      + intros k. unfold waitlock. simpl. split; [intros [[]|X]; discriminate | intros [cl [X _]]; discriminate].
      + intros k X. discriminate.
      + intros k cl d X. discriminate.
    - constructor; simpl; [reflexivity | intros k X; discriminate].
  Qed.

  (* THE GATE IS ALWAYS RELEASED: after any history, once the clock has advanced by the response timeout
     for each request still unfinished (the one outstanding plus those queued behind it), the gate is
     free, nobody waits, and every request ever started has completed -- by its reply, a timeout, a
     failed write or a cancellation. *)
  Theorem gate_released ops dt :
    let st := run ops in
    0 < dt -> timeout * Z.of_nat (unfinished st) <= dt ->
    let st' := step st (OTick dt) in
    holder st' = None /\ waiters st' = [] /\
    forall k cl, get_caller k (callers st') = Some cl -> exists o t, cl_phase cl = PDone o t.
  Proof.
    cbv zeta. intros Hdt Hlong. destruct (reachable_invariants ops) as [HI [HW HQ]].
    unfold Endpoint.step. assert ((dt <=? 0) = false) as -> by lia.
    destruct (advance_progress (S (S (List.length (waiters (run ops))))) (now (run ops) + dt) (run ops) HI HW HQ)
      as [Hh [Hw [_ [HI' [HW' _]]]]].
    - unfold unfinished. destruct (holder (run ops)); lia.
    - lia.
    - split; [exact Hh|]. split; [exact Hw|]. intros k cl Hc.
      destruct (cl_phase cl) as [|d|o t] eqn:Hp.
      + exfalso. assert (Hin : In k (waiters (advance (S (S (List.length (waiters (run ops))))) (now (run ops) + dt) (run ops)))).
        { pose proof (proj2 (w_phase _ _ HW' k)) as X. destruct X as [X|X]; [exists cl; split; assumption | exact X | discriminate]. }
        rewrite Hw in Hin. contradiction.
      + exfalso. destruct (inv_wait _ _ _ _ _ _ HI' k cl d Hc Hp) as [X _]. congruence.
      + exists o, t. reflexivity.
  Qed.

  (* ... and then a new request is written at once *)
  Theorem then_next_call_is_written ops dt k uid action snake (skip : bool) suppress w :
    let st := step (run ops) (OTick dt) in
    0 < dt -> timeout * Z.of_nat (unfinished (run ops)) <= dt ->
    get_caller k (callers st) = None ->
    (if skip then VAccept (remove_nones (s2c_keys snake))
     else validate tbl (ver c) MCall action (remove_nones (s2c_keys snake))) = VAccept w ->
    exists pre, log (start_with tbl errors results timeout c st k uid action snake skip suppress true)
                = pre ++ (now st, CallWritten k (JArr [JNum (NInt 2); uid; JStr action; encode w])) :: log st.
  Proof.
    cbv zeta. intros Hdt Hlong Hc Hv.
    destruct (gate_released ops dt Hdt Hlong) as [Hh [Hw _]].
    ap call_guard_accept; assumption.
  Qed.

  (* ---- C02, liveness half: without a matching reply the request times out exactly at its deadline,
          whatever else happens meanwhile ---- *)
  Definition is_waiting (st : state) (k : nat) (uid : json) (d : Z) : Prop :=
    exists cl, get_caller k (callers st) = Some cl /\ cl_phase cl = PWaiting d /\ cl_uid cl = uid.

  (* phases of callers other than the one [settle] works on do not change; a caller that waits for a
     reply keeps waiting as long as no queued message carries its id *)
  Lemma settle_keeps_waiting fuel : forall st k uid d,
    Inv st -> is_waiting st k uid d ->
    (forall m, In m (queue st) -> py_eqb (msg_id m) uid = false) ->
    is_waiting (settle fuel st) k uid d.
  Proof.
    induction fuel as [|f IH]; intros st k uid d HI Hwt Hq; [exact Hwt|]. simpl.
    destruct Hwt as [cl [Hc [Hp Hu]]].
    destruct (inv_wait _ _ _ _ _ _ HI k cl d Hc Hp) as [Hk [Hlt _]]. rewrite Hk, Hc, Hp.
    destruct (queue st) as [|m q] eqn:Eq; [exists cl; repeat split; assumption|].
    rewrite Hu. rewrite (Hq m (or_introl eq_refl)).
    assert ((d - now st <=? 0) = false) as -> by lia.
    apply IH.
    - ap Inv_put_neutral; [exact I|]. ap Inv_set_queue. exact HI.
    - exists cl. repeat split; assumption.
    - intros m' Hin. apply Hq. right. exact Hin.
  Qed.

  Lemma step_keeps_waiting st o k uid d :
    Inv st -> Quiet st -> is_waiting st k uid d ->
    match o with
    | OStart _ _ _ _ _ _ _ => True
    | OInbound lo => match unpack lo with
                     | UMsg (CallResult i _ _) | UMsg (CallError i _ _ _) => py_eqb i uid = false
                     | _ => True
                     end
    | OTick dt => now st + dt < d
    | OCancel k' => k' <> k
    end ->
    is_waiting (step st o) k uid d.
  Proof.
    intros HI HQ Hwt Hok. pose proof Hwt as [cl [Hc [Hp Hu]]].
    destruct (inv_wait _ _ _ _ _ _ HI k cl d Hc Hp) as [Hk [Hlt _]].
    pose proof (q_drained _ HQ k Hk) as Hq0.
    destruct o as [k' uid' action snake skip suppress send_ok | lo | dt | k']; unfold Endpoint.step; cbv beta iota.
    - destruct (get_caller k' (callers st)) as [cl0|] eqn:Hc'; [exact Hwt|].
      assert (Hne : k' <> k) by congruence.
      assert (G : forall st0 u, holder st0 = Some k -> get_caller k (callers st0) = Some cl ->
                                is_waiting (start_with tbl errors results timeout c st0 k' u action snake skip suppress send_ok) k uid d).
      { intros st0 u Hk0 Hc0. unfold start_with.
        destruct (if skip then _ else _) as [w|codes mc| |]; try (destruct mc);
          try (exists cl; simpl; rewrite get_set_other by exact Hne; repeat split; assumption).
        rewrite Hk0. exists cl. simpl. rewrite get_set_other by exact Hne. repeat split; assumption. }
      destruct uid' as [u|]; apply G; assumption.
    - destruct (unpack lo) as [m|e] eqn:Eu; [|exact Hwt].
      destruct m as [i a p | i p a | i cd dd x].
      + destruct Hwt as [cl1 [H1 [H2 H3]]]. exists cl1.
        assert (Hcs : forall evs st0, callers (fold_left (fun s e => put_log s (Disp e)) evs st0) = callers st0).
        { induction evs as [|e r IH]; intros st0; simpl; [reflexivity | rewrite IH; reflexivity]. }
        rewrite Hcs. repeat split; assumption.
      + apply settle_keeps_waiting; [ap Inv_set_queue; exact HI | exact Hwt|].
        simpl. rewrite Hq0. intros m [<-|[]]. exact Hok.
      + apply settle_keeps_waiting; [ap Inv_set_queue; exact HI | exact Hwt|].
        simpl. rewrite Hq0. intros m [<-|[]]. exact Hok.
    - destruct (dt <=? 0) eqn:Ed; [exact Hwt|]. simpl. rewrite Hk, Hc, Hp.
      assert ((d <=? now st + dt) = false) as -> by lia. exists cl. repeat split; assumption.
    - destruct (get_caller k' (callers st)) as [cl'|] eqn:Hc'; [|exact Hwt].
      destruct (cl_phase cl') as [|d'|o t] eqn:Hp'; [| |exact Hwt].
      + exists cl. rewrite get_set_phase. simpl. rewrite Hc'.
        assert ((k' =? k)%nat = false) as -> by (apply Nat.eqb_neq; exact Hok). repeat split; assumption.
      + exfalso. destruct (inv_wait _ _ _ _ _ _ HI k' cl' d' Hc' Hp') as [Hk' _]. congruence.
  Qed.

  (* the deadline fires: a clock advance that reaches it completes the request with OTimeout at exactly d *)
  Lemma done_stable_settle fuel : forall st k o t,
    Inv st -> WInv None st ->
    (exists cl, get_caller k (callers st) = Some cl /\ cl_phase cl = PDone o t) ->
    exists cl, get_caller k (callers (settle fuel st)) = Some cl /\ cl_phase cl = PDone o t.
  Proof.
    induction fuel as [|f IH]; intros st k o t HI HW Hd; [exact Hd|]. simpl.
    destruct Hd as [cl [Hc Hp]].
    destruct (holder st) as [h|] eqn:Hh.
    - destruct (get_caller h (callers st)) as [clh|] eqn:Hch; [|exists cl; split; assumption].
      destruct (cl_phase clh) as [|d|oh th] eqn:Hph; try (exists cl; split; assumption).
      assert (Hne : h <> k) by (intros ->; congruence).
      destruct (queue st) as [|m q] eqn:Eq; [exists cl; split; assumption|].
      assert (HI1 : Inv (set_queue st q)) by (ap Inv_set_queue; exact HI).
      destruct (py_eqb (msg_id m) (cl_uid clh)) eqn:Heq.
      + apply IH.
        * first [ apply (Inv_deliver tbl errors results timeout c timeout_pos (set_queue st q) h clh m HI1 Hh Hch Heq)
                | apply (Inv_deliver tbl errors results timeout c (set_queue st q) h clh m HI1 Hh Hch Heq) ].
          apply complete_not_timeout.
        * apply (WInv_finish st _ h clh d); try assumption; try reflexivity; try (simpl; lia).
        * exists cl. rewrite get_set_phase. simpl. rewrite Hch.
          assert ((h =? k)%nat = false) as -> by (apply Nat.eqb_neq; exact Hne). split; assumption.
      + destruct (d - now st <=? 0) eqn:Ed.
        * exfalso. apply Z.leb_le in Ed. destruct (inv_wait _ _ _ _ _ _ HI h clh d Hch Hph) as [_ [Hlt _]]. lia.
        * apply IH; [ap Inv_put_neutral; [exact I | exact HI1] | apply WInv_weaken_log; apply WInv_set_queue; exact HW|].
          exists cl. split; assumption.
    - destruct (waiters st) as [|w ws] eqn:Hw; [exists cl; split; assumption|].
      assert (Hne : w <> k).
      { intros ->. destruct (proj1 (w_phase _ _ HW k)) as [clw [H1 H2]]; [left; rewrite Hw; left; reflexivity|]. congruence. }
      apply IH.
      + ap Inv_do_send; [ap Inv_set_waiters; exact HI | exact Hh].
      + apply WInv_do_send. apply WInv_take; assumption.
      + exists cl. unfold Endpoint.do_send. simpl. destruct (get_caller w (callers st)) as [clw|] eqn:Hcw; [|split; assumption].
        destruct (cl_send_ok clw); rewrite get_set_phase; simpl; rewrite Hcw;
          (assert ((w =? k)%nat = false) as -> by (apply Nat.eqb_neq; exact Hne)); split; assumption.
  Qed.

  Definition is_done (st : state) (k : nat) (o : outcome) (t : Z) : Prop :=
    exists cl, get_caller k (callers st) = Some cl /\ cl_phase cl = PDone o t.

  Lemma done_stable_advance fuel target : forall st k o t,
    Inv st -> WInv None st -> now st <= target -> is_done st k o t -> is_done (advance fuel target st) k o t.
  Proof.
    induction fuel as [|f IH]; intros st k o t HI HW Hle Hd; simpl; [exact Hd|].
    destruct (holder st) as [h|] eqn:Hh; [|exact Hd].
    destruct (get_caller h (callers st)) as [clh|] eqn:Hch; [|exact Hd].
    destruct (cl_phase clh) as [|d|oh th] eqn:Hph; try exact Hd.
    destruct (d <=? target) eqn:Ed; [|exact Hd].
    apply Z.leb_le in Ed. destruct (inv_wait _ _ _ _ _ _ HI h clh d Hch Hph) as [_ [Hlt _]].
    replace (Z.max d (now st)) with d by lia. change (now (set_now st d)) with d.
    set (st1 := set_phase (set_holder (put_log (set_now st d) (Released h WTimeout)) None) h (PDone OTimeout d)).
    assert (HI1 : Inv st1) by (apply (Inv_timeout tbl errors results timeout c st h clh d HI Hh Hch Hph)).
    assert (HW1 : WInv None st1).
    { unfold st1. apply (WInv_finish st _ h clh d); try assumption; try reflexivity; try (simpl; lia). }
    destruct Hd as [cl [Hc Hp]].
    assert (Hne : h <> k) by (intros ->; congruence).
    apply IH.
    - ap Inv_quiesce. exact HI1.
    - apply WInv_settle; assumption.
    - unfold Endpoint.quiesce. rewrite now_settle. unfold st1. rewrite now_set_phase. simpl. exact Ed.
    - apply done_stable_settle; [exact HI1 | exact HW1|]. exists cl. unfold st1. rewrite get_set_phase. simpl. rewrite Hch.
      assert ((h =? k)%nat = false) as -> by (apply Nat.eqb_neq; exact Hne). split; assumption.
  Qed.

  Lemma advance_fire f target st k cl d :
    holder st = Some k -> get_caller k (callers st) = Some cl -> cl_phase cl = PWaiting d -> d <= target ->
    advance (S f) target st =
    advance f target (quiesce (set_phase (set_holder (put_log (set_now st (Z.max d (now st))) (Released k WTimeout)) None) k
                                         (PDone OTimeout (now (set_now st (Z.max d (now st))))))).
  Proof. intros Hk Hc Hp Hd. simpl. rewrite Hk, Hc, Hp. assert ((d <=? target) = true) as -> by lia. reflexivity. Qed.

  Theorem deadline_fires st k uid d dt :
    Inv st -> WInv None st -> is_waiting st k uid d -> 0 < dt -> d <= now st + dt ->
    is_done (step st (OTick dt)) k OTimeout d.
  Proof.
    intros HI HW [cl [Hc [Hp Hu]]] Hdt Hreach.
    destruct (inv_wait _ _ _ _ _ _ HI k cl d Hc Hp) as [Hk [Hlt _]].
    unfold Endpoint.step. assert ((dt <=? 0) = false) as -> by lia.
    rewrite (advance_fire _ _ st k cl d Hk Hc Hp Hreach).
    replace (Z.max d (now st)) with d by lia. change (now (set_now st d)) with d.
    set (st1 := set_phase (set_holder (put_log (set_now st d) (Released k WTimeout)) None) k (PDone OTimeout d)).
    assert (HI1 : Inv st1) by (apply (Inv_timeout tbl errors results timeout c st k cl d HI Hk Hc Hp)).
    assert (HW1 : WInv None st1).
    { unfold st1. apply (WInv_finish st _ k cl d); try assumption; try reflexivity; try (simpl; lia). }
    apply done_stable_advance.
    - ap Inv_quiesce. exact HI1.
    - apply WInv_settle; assumption.
    - unfold Endpoint.quiesce. rewrite now_settle. unfold st1. rewrite now_set_phase. simpl. lia.
    - apply done_stable_settle; [exact HI1 | exact HW1|].
      exists (with_phase cl (PDone OTimeout d)). unfold st1. rewrite get_set_phase. simpl. rewrite Hc, Nat.eqb_refl.
      split; reflexivity.
  Qed.

  (* operations that are not a matching reply, not a cancellation of k, and do not reach the deadline *)
  Definition harmless (st : state) (k : nat) (uid : json) (d : Z) (o : op) : Prop :=
    match o with
    | OStart _ _ _ _ _ _ _ => True
    | OInbound lo => match unpack lo with
                     | UMsg (CallResult i _ _) | UMsg (CallError i _ _ _) => py_eqb i uid = false
                     | _ => True
                     end
    | OTick dt => now st + dt < d
    | OCancel k' => k' <> k
    end.

  Fixpoint all_harmless (st : state) (k : nat) (uid : json) (d : Z) (ops : list op) : Prop :=
    match ops with
    | [] => True
    | o :: r => harmless st k uid d o /\ all_harmless (step st o) k uid d r
    end.

  (* unrelated traffic -- other callers, stale / unknown / duplicate replies in any number, inbound CALLs,
     clock advances short of the deadline, cancellations of others -- neither completes the request nor
     moves its deadline; when the clock reaches the deadline it ends with a timeout at exactly that time *)
  Theorem times_out_on_time : forall mid st k uid d dt,
    Inv st -> WInv None st -> Quiet st -> is_waiting st k uid d ->
    all_harmless st k uid d mid ->
    let st' := fold_left step mid st in
    0 < dt -> d <= now st' + dt ->
    is_waiting st' k uid d /\ is_done (step st' (OTick dt)) k OTimeout d.
  Proof.
    induction mid as [|o r IH]; intros st k uid d dt HI HW HQ Hwt Hh; cbv zeta; simpl; intros Hdt Hreach.
    - split; [exact Hwt | apply (deadline_fires st k uid d dt); assumption].
    - destruct Hh as [Ho Hr]. apply IH; try assumption.
      + apply (Inv_step tbl acts errors results fresh timeout c timeout_pos). exact HI.
      + apply WInv_step; assumption.
      + apply Quiet_step; assumption.
      + apply step_keeps_waiting; assumption.
  Qed.
End Progress.
