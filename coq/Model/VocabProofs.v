(* VocabProofs.v -- lifting the boolean table checkers to the statements of C10. *)
From Coq Require Import List ZArith Bool String Ascii.
From OV.Model Require Import Json Names Schema SchemaProofs Classes Vocab.
Import ListNotations.

Lemma dedup_In x l : In x (dedup l) <-> In x l.
Proof.
  induction l as [|a r IH]; simpl; [tauto|].
  destruct (mem a r) eqn:E.
  - rewrite IH. split; [auto|]. intros [<-|H]; [apply mem_In; exact E | exact H].
  - simpl. rewrite IH. tauto.
Qed.

Lemma nodupb_NoDup l : nodupb l = true -> NoDup l.
Proof.
  induction l as [|a r IH]; simpl; intros H; [constructor|].
  apply andb_true_iff in H. destruct H as [H1 H2]. constructor; [|apply IH; exact H2].
  intros Hin. apply mem_In in Hin. rewrite Hin in H1. discriminate.
Qed.

Lemma subset_In a b : subset a b = true -> forall x, In x a -> In x b.
Proof.
  unfold subset. rewrite forallb_forall. intros H x Hx. apply mem_In. apply H. exact Hx.
Qed.

Lemma names_ok_lift (l : list string) :
  forallb name_ok (dedup l) = true ->
  forall n, In n l -> s2c (c2s n) = n /\ lower_identifier (c2s n) = true.
Proof.
  rewrite forallb_forall. intros H n Hn. apply dedup_In in Hn. specialize (H n Hn).
  unfold name_ok in H. apply andb_true_iff in H. destruct H as [H1 H2].
  apply String.eqb_eq in H1. split; assumption.
Qed.

Lemma injective_lift (nodes : list schema) :
  forallb node_injective nodes = true ->
  forall s, In s nodes -> NoDup (map c2s (prop_names s)).
Proof.
  rewrite forallb_forall. intros H s Hs. apply nodupb_NoDup. apply H. exact Hs.
Qed.

Definition FieldsIn (c : classdef) (s : schema) : Prop :=
  forall f, In f (c_fields c) -> In (s2c (f_name f)) (prop_names s).

Lemma class_fields_in_spec c s : class_fields_in c s = true -> FieldsIn c s.
Proof.
  unfold class_fields_in, FieldsIn. intros H f Hf.
  eapply subset_In; [exact H|]. apply in_map_iff. exists f. split; [reflexivity | exact Hf].
Qed.

Lemma msg_fields_lift suffix t (cs : list classdef) :
  forallb (msg_fields_ok suffix t) cs = true ->
  forall c, In c cs -> exists s, assoc (c_name c ++ suffix)%string t = Some s /\ FieldsIn c s.
Proof.
  rewrite forallb_forall. intros H c Hc. specialize (H c Hc). unfold msg_fields_ok in H.
  destruct (assoc (c_name c ++ suffix)%string t) as [s|]; [|discriminate].
  exists s. split; [reflexivity | apply class_fields_in_spec; exact H].
Qed.

Lemma data_fields_lift nodes (cs : list classdef) :
  forallb (data_fields_ok nodes) cs = true ->
  forall c, In c cs -> exists s, In s nodes /\ FieldsIn c s.
Proof.
  rewrite forallb_forall. intros H c Hc. specialize (H c Hc). unfold data_fields_ok in H.
  cbv zeta in H. apply existsb_exists in H. destruct H as [s [Hs Hf]]. exists s. split; [exact Hs | apply class_fields_in_spec; exact Hf].
Qed.
