(* Json.v -- JSON values as Python's json module sees them.
   Strings are Coq [string]s holding UTF-8 bytes (surrogates via "surrogatepass").
   Numbers are decimal: a Python float enters through its shortest repr. *)
From Coq Require Import List ZArith Bool String Ascii Lia.
Import ListNotations.
Local Open Scope Z_scope.

Inductive fkind := FFloat | FDecimal.

Inductive num :=
| NInt (z : Z)                       (* Python int *)
| NDec (m e : Z) (k : fkind)         (* m * 10^e ; float (by repr) or decimal.Decimal *)
| NNaN
| NInf (neg : bool).

Inductive json :=
| JNull
| JBool (b : bool)
| JNum (n : num)
| JStr (s : string)
| JArr (l : list json)
| JObj (l : list (string * json)).

(* -------- induction principle through the nested lists -------- *)
Section JsonInd.
  Variable P : json -> Prop.
  Hypothesis Hnull : P JNull.
  Hypothesis Hbool : forall b, P (JBool b).
  Hypothesis Hnum : forall n, P (JNum n).
  Hypothesis Hstr : forall s, P (JStr s).
  Hypothesis Harr : forall l, Forall P l -> P (JArr l).
  Hypothesis Hobj : forall l, Forall (fun kv => P (snd kv)) l -> P (JObj l).

  Fixpoint json_ind' (j : json) : P j :=
    match j with
    | JNull => Hnull
    | JBool b => Hbool b
    | JNum n => Hnum n
    | JStr s => Hstr s
    | JArr l =>
        Harr l ((fix go (l : list json) : Forall P l :=
                   match l with
                   | [] => Forall_nil _
                   | x :: r => Forall_cons _ (json_ind' x) (go r)
                   end) l)
    | JObj l =>
        Hobj l ((fix go (l : list (string * json)) : Forall (fun kv => P (snd kv)) l :=
                   match l with
                   | [] => Forall_nil _
                   | x :: r => Forall_cons _ (json_ind' (snd x)) (go r)
                   end) l)
    end.
End JsonInd.

(* -------- numbers -------- *)
Definition pow10 (n : Z) : Z := 10 ^ n.

(* compare m1*10^e1 with m2*10^e2 exactly *)
Definition dec_cmp (m1 e1 m2 e2 : Z) : comparison :=
  let e := Z.min e1 e2 in
  Z.compare (m1 * pow10 (e1 - e)) (m2 * pow10 (e2 - e)).

(* None when a NaN is involved (every Python comparison with NaN is False) *)
Definition num_cmp (a b : num) : option comparison :=
  match a, b with
  | NNaN, _ | _, NNaN => None
  | NInf n1, NInf n2 =>
      Some (match n1, n2 with
            | true, false => Lt | false, true => Gt | _, _ => Eq end)
  | NInf true, _ => Some Lt
  | NInf false, _ => Some Gt
  | _, NInf true => Some Gt
  | _, NInf false => Some Lt
  | NInt a, NInt b => Some (Z.compare a b)
  | NInt a, NDec m e _ => Some (dec_cmp a 0 m e)
  | NDec m e _, NInt b => Some (dec_cmp m e b 0)
  | NDec m1 e1 _, NDec m2 e2 _ => Some (dec_cmp m1 e1 m2 e2)
  end.

Definition num_eqb (a b : num) : bool :=
  match num_cmp a b with Some Eq => true | _ => false end.
Definition num_ltb (a b : num) : bool :=
  match num_cmp a b with Some Lt => true | _ => false end.

(* Python [x == z] for a parsed JSON value x and an int literal z
   (True == 1, False == 0, 2.0 == 2). *)
Definition py_eq_int (j : json) (z : Z) : bool :=
  match j with
  | JNum n => num_eqb n (NInt z)
  | JBool b => Z.eqb (if b then 1 else 0) z
  | _ => false
  end.

(* representation-insensitive numeric equality: the "same decimal digits" of C06/C14/C19 *)
Definition num_same (a b : num) : bool :=
  match a, b with
  | NNaN, NNaN => true
  | _, _ => num_eqb a b
  end.

(* -------- equality -------- *)
Definition fkind_eqb (a b : fkind) :=
  match a, b with FFloat, FFloat | FDecimal, FDecimal => true | _, _ => false end.

Definition num_eqb_strict (a b : num) : bool :=
  match a, b with
  | NInt x, NInt y => Z.eqb x y
  | NDec m e k, NDec m' e' k' => Z.eqb m m' && Z.eqb e e' && fkind_eqb k k'
  | NNaN, NNaN => true
  | NInf x, NInf y => Bool.eqb x y
  | _, _ => false
  end.

Fixpoint assoc {A} (k : string) (l : list (string * A)) : option A :=
  match l with
  | [] => None
  | (k', v) :: r => if String.eqb k k' then Some v else assoc k r
  end.

Definition keys {A} (l : list (string * A)) : list string := map fst l.

Definition mem (k : string) (l : list string) : bool := existsb (String.eqb k) l.

(* structural equality, object members in order *)
Fixpoint json_eqb (a b : json) {struct a} : bool :=
  match a, b with
  | JNull, JNull => true
  | JBool x, JBool y => Bool.eqb x y
  | JNum x, JNum y => num_eqb_strict x y
  | JStr x, JStr y => String.eqb x y
  | JArr la, JArr lb =>
      (fix go (la lb : list json) : bool :=
         match la, lb with
         | [], [] => true
         | x :: ra, y :: rb => json_eqb x y && go ra rb
         | _, _ => false
         end) la lb
  | JObj la, JObj lb =>
      (fix go (la lb : list (string * json)) : bool :=
         match la, lb with
         | [], [] => true
         | (k, x) :: ra, (k', y) :: rb => String.eqb k k' && json_eqb x y && go ra rb
         | _, _ => false
         end) la lb
  | _, _ => false
  end.

(* "same value on the wire": numbers compared by value (int 3 vs 3.0 differ: the wire
   token differs), float/Decimal tag ignored, object member order ignored when keys are
   unique. *)
Definition num_wire_eqb (a b : num) : bool :=
  match a, b with
  | NInt x, NInt y => Z.eqb x y
  | NDec m e _, NDec m' e' _ => match dec_cmp m e m' e' with Eq => true | _ => false end
  | NNaN, NNaN => true
  | NInf x, NInf y => Bool.eqb x y
  | _, _ => false
  end.

Fixpoint wire_eqb (a b : json) {struct a} : bool :=
  match a, b with
  | JNull, JNull => true
  | JBool x, JBool y => Bool.eqb x y
  | JNum x, JNum y => num_wire_eqb x y
  | JStr x, JStr y => String.eqb x y
  | JArr la, JArr lb =>
      (fix go (la lb : list json) : bool :=
         match la, lb with
         | [], [] => true
         | x :: ra, y :: rb => wire_eqb x y && go ra rb
         | _, _ => false
         end) la lb
  | JObj la, JObj lb =>
      Nat.eqb (List.length la) (List.length lb) &&
      (fix go (la : list (string * json)) : bool :=
         match la with
         | [] => true
         | (k, x) :: ra =>
             match assoc k lb with
             | Some y => wire_eqb x y && go ra
             | None => false
             end
         end) la
  | _, _ => false
  end.

(* -------- generic traversals -------- *)
(* rename every object key at every depth *)
Fixpoint map_keys (f : string -> string) (j : json) : json :=
  match j with
  | JArr l => JArr (map (map_keys f) l)
  | JObj l => JObj (map (fun kv => (f (fst kv), map_keys f (snd kv))) l)
  | _ => j
  end.

Definition is_null (j : json) : bool := match j with JNull => true | _ => false end.

(* ocpp.charge_point.remove_nones *)
Fixpoint remove_nones (j : json) : json :=
  match j with
  | JArr l =>
      JArr ((fix go (l : list json) : list json :=
               match l with
               | [] => []
               | v :: r => if is_null v then go r else remove_nones v :: go r
               end) l)
  | JObj l =>
      JObj ((fix go (l : list (string * json)) : list (string * json) :=
               match l with
               | [] => []
               | (k, v) :: r => if is_null v then go r else (k, remove_nones v) :: go r
               end) l)
  | _ => j
  end.

(* no null below the top level value *)
Fixpoint no_null (j : json) : bool :=
  match j with
  | JNull => false
  | JArr l => forallb no_null l
  | JObj l => forallb (fun kv => no_null (snd kv)) l
  | _ => true
  end.

(* all keys at all depths *)
Fixpoint all_keys (j : json) : list string :=
  match j with
  | JArr l => flat_map all_keys l
  | JObj l => flat_map (fun kv => fst kv :: all_keys (snd kv)) l
  | _ => []
  end.

(* UTF-8 code point count: bytes that are not continuation bytes 10xxxxxx *)
Definition is_cont (c : ascii) : bool :=
  let n := N_of_ascii c in (N.leb 128 n && N.ltb n 192)%N.
Fixpoint cp_length (s : string) : Z :=
  match s with
  | EmptyString => 0
  | String c r => (if is_cont c then 0 else 1) + cp_length r
  end.

(* hex decoding, used by generated case files for strings that are not plain ASCII *)
Definition hexval (c : ascii) : N :=
  let n := N_of_ascii c in
  (if N.leb 48 n && N.leb n 57 then n - 48
   else if N.leb 97 n && N.leb n 102 then n - 87
   else 0)%N.
Fixpoint unhex (s : string) : string :=
  match s with
  | String a (String b r) => String (ascii_of_N (hexval a * 16 + hexval b)) (unhex r)
  | _ => EmptyString
  end.

(* equality up to object member order; [strict] also compares the float/Decimal tag *)
Definition num_same_rep (strict : bool) (a b : num) : bool :=
  num_wire_eqb a b &&
  (negb strict ||
   match a, b with
   | NDec _ _ k, NDec _ _ k' => fkind_eqb k k'
   | _, _ => true
   end).

Fixpoint json_sameb (strict : bool) (a b : json) {struct a} : bool :=
  match a, b with
  | JNull, JNull => true
  | JBool x, JBool y => Bool.eqb x y
  | JNum x, JNum y => num_same_rep strict x y
  | JStr x, JStr y => String.eqb x y
  | JArr la, JArr lb =>
      (fix go (la lb : list json) : bool :=
         match la, lb with
         | [], [] => true
         | x :: ra, y :: rb => json_sameb strict x y && go ra rb
         | _, _ => false
         end) la lb
  | JObj la, JObj lb =>
      Nat.eqb (List.length la) (List.length lb) &&
      (fix go (la : list (string * json)) : bool :=
         match la with
         | [] => true
         | (k, x) :: ra =>
             match assoc k lb with
             | Some y => json_sameb strict x y && go ra
             | None => false
             end
         end) la
  | _, _ => false
  end.

(* Python == between two values json.loads produced (True == 1 == 1.0, NaN != NaN, dict
   equality ignores order) -- what [response.unique_id == unique_id] computes *)
Definition num_of_bool (b : bool) : num := NInt (if b then 1 else 0).
Fixpoint py_eqb (a b : json) {struct a} : bool :=
  match a, b with
  | JNull, JNull => true
  | JBool x, JBool y => Bool.eqb x y
  | JBool x, JNum n => num_eqb (num_of_bool x) n
  | JNum n, JBool y => num_eqb n (num_of_bool y)
  | JNum x, JNum y => num_eqb x y
  | JStr x, JStr y => String.eqb x y
  | JArr la, JArr lb =>
      (fix go (la lb : list json) : bool :=
         match la, lb with
         | [], [] => true
         | x :: ra, y :: rb => py_eqb x y && go ra rb
         | _, _ => false
         end) la lb
  | JObj la, JObj lb =>
      Nat.eqb (List.length la) (List.length lb) &&
      (fix go (la : list (string * json)) : bool :=
         match la with
         | [] => true
         | (k, x) :: ra =>
             match assoc k lb with
             | Some y => py_eqb x y && go ra
             | None => false
             end
         end) la
  | _, _ => false
  end.

(* compact notation for long periodic strings in generated case files *)
Fixpoint srepeat (u : string) (k : nat) : string :=
  match k with O => EmptyString | S j => (u ++ srepeat u j)%string end.
(* the first n code points of a UTF-8 string *)
Fixpoint cp_take (n : nat) (s : string) : string :=
  match s with
  | EmptyString => EmptyString
  | String c r =>
      if is_cont c then String c (cp_take n r)
      else match n with O => EmptyString | S m => String c (cp_take m r) end
  end.
