(* C03 -- at most one own CALL outstanding per connection; the gate is released on every path.
   Safety (C03_mutex etc.) and liveness (C03_gate_released, C03_next_call_written) are theorems about
   the model for every finite history.  PARTIAL only in this: that CPython's asyncio.Lock / Queue /
   wait_for and its scheduler are the FIFO gate, FIFO queue and exact timers of the model is observed
   by the harness (every history ends with an epilogue request that must be written and answered),
   not proved. *)
From Coq Require Import List String Bool ZArith Lia.
From OV.Model Require Import Json Names Schema Validate Frame Classes Dispatch Endpoint EndpointProofs EndpointProgress Shipped.
From OV.Gen Require Import Errors.
Import ListNotations.
Local Open Scope string_scope.
Local Open Scope Z_scope.
Local Open Scope list_scope.

Section C03.
  Variable fresh : nat -> string.
  Variable timeout : Z.
  Variable c : cfg.
  Hypothesis timeout_pos : 0 < timeout.

  Definition run_ops := run shipped actions_of errors results_of fresh timeout c.

  (* the log of every reachable state obeys the gate protocol, and the protocol's current state
     is the endpoint's gate *)
  Theorem C03_gate_protocol :
    forall ops, gate_of (log (run_ops ops)) = Some (holder (run_ops ops)).
  Proof. intros ops. exact (inv_gate _ _ _ _ _ _ (Inv_run shipped actions_of errors results_of fresh timeout c timeout_pos ops)). Qed.

  (* hence: between any two CALL frames written by the endpoint lies the release of the first
     request -- by its matching reply, its timeout, or its cancellation (a failed write never
     counts as written) -- for any number of callers and any interleaving *)
  Theorem C03_mutex :
    forall ops post mid pre t' k' f' t k f,
      log (run_ops ops) = post ++ (t', CallWritten k' f') :: mid ++ (t, CallWritten k f) :: pre ->
      exists tr w, In (tr, Released k w) mid.
  Proof.
    intros ops post mid pre t' k' f' t k f Hlog.
    pose proof (C03_gate_protocol ops) as Hg. rewrite Hlog in Hg.
    eapply gate_no_overlap. exact Hg.
  Qed.

  (* the gate is held only by a caller that is waiting for its reply: when nobody waits, it is free *)
  Theorem C03_free_when_idle :
    forall ops,
      (forall k cl d, get_caller k (callers (run_ops ops)) = Some cl -> cl_phase cl <> PWaiting d) ->
      holder (run_ops ops) = None.
  Proof.
    intros ops Hidle. destruct (holder (run_ops ops)) as [k|] eqn:Hk; [|reflexivity]. exfalso.
    destruct (inv_holder _ _ _ _ _ _ (Inv_run shipped actions_of errors results_of fresh timeout c timeout_pos ops) k Hk)
      as [cl [d [H1 H2]]].
    eapply Hidle; eassumption.
  Qed.

  (* at most one caller waits for a reply at any time, and it is the holder *)
  Theorem C03_single_waiter :
    forall ops k1 cl1 d1 k2 cl2 d2,
      get_caller k1 (callers (run_ops ops)) = Some cl1 -> cl_phase cl1 = PWaiting d1 ->
      get_caller k2 (callers (run_ops ops)) = Some cl2 -> cl_phase cl2 = PWaiting d2 -> k1 = k2.
  Proof.
    intros ops k1 cl1 d1 k2 cl2 d2 A1 A2 B1 B2.
    pose proof (Inv_run shipped actions_of errors results_of fresh timeout c timeout_pos ops) as HI.
    destruct (inv_wait _ _ _ _ _ _ HI k1 cl1 d1 A1 A2) as [H1 _].
    destruct (inv_wait _ _ _ _ _ _ HI k2 cl2 d2 B1 B2) as [H2 _]. congruence.
  Qed.

  (* inbound CALLs are answered whatever the state of the gate: their processing does not read it *)
  Theorem C03_inbound_independent :
    forall st1 st2 lo id a p, unpack lo = UMsg (Call id a p) ->
      firstn (List.length (log (step shipped actions_of errors results_of fresh timeout c st1 (OInbound lo)))
              - List.length (log st1))
             (map snd (log (step shipped actions_of errors results_of fresh timeout c st1 (OInbound lo))))
      = firstn (List.length (log (step shipped actions_of errors results_of fresh timeout c st2 (OInbound lo)))
                - List.length (log st2))
               (map snd (log (step shipped actions_of errors results_of fresh timeout c st2 (OInbound lo)))).
  Proof.
    intros st1 st2 lo id a p Hu. unfold step. rewrite Hu.
    generalize (handle_call shipped actions_of c id a p). intros evs.
    assert (H : forall st, exists pre,
               log (fold_left (fun s e => put_log s (Disp e)) evs st) = pre ++ log st /\
               map snd pre = rev (map Disp evs)).
    { induction evs as [|e r IH]; intros st; simpl.
      - exists []. split; reflexivity.
      - destruct (IH (put_log st (Disp e))) as [pre [H1 H2]]. simpl in H1.
        exists (pre ++ [(now st, Disp e)]). split.
        + rewrite H1. rewrite <- app_assoc. reflexivity.
        + rewrite map_app, H2. simpl. reflexivity. }
    destruct (H st1) as [p1 [A1 A2]]. destruct (H st2) as [p2 [B1 B2]].
    rewrite A1, B1. rewrite !app_length, !map_app.
    assert (L1 : List.length p1 = List.length (map snd p1)) by (rewrite map_length; reflexivity).
    assert (L2 : List.length p2 = List.length (map snd p2)) by (rewrite map_length; reflexivity).
    replace (List.length p1 + List.length (log st1) - List.length (log st1))%nat with (List.length (map snd p1)) by lia.
    replace (List.length p2 + List.length (log st2) - List.length (log st2))%nat with (List.length (map snd p2)) by lia.
    rewrite !firstn_app, !Nat.sub_diag, !firstn_all. simpl. rewrite !app_nil_r. congruence.
  Qed.

  (* liveness: after ANY history, once the clock has advanced by the response timeout for each request
     still unfinished (the outstanding one and those queued behind it, which get their turn one at a
     time, in arrival order), the gate is free, nobody waits, every request ever started has completed *)
  Theorem C03_gate_released :
    forall ops dt,
      0 < dt -> timeout * Z.of_nat (unfinished (run_ops ops)) <= dt ->
      let st' := step shipped actions_of errors results_of fresh timeout c (run_ops ops) (OTick dt) in
      holder st' = None /\ waiters st' = [] /\
      forall k cl, get_caller k (callers st') = Some cl -> exists o t, cl_phase cl = PDone o t.
  Proof. exact (gate_released shipped actions_of errors results_of fresh timeout c timeout_pos). Qed.

  (* ... and a subsequent request is written at once *)
  Theorem C03_next_call_written :
    forall ops dt k uid action snake (skip : bool) suppress w,
      let st := step shipped actions_of errors results_of fresh timeout c (run_ops ops) (OTick dt) in
      0 < dt -> timeout * Z.of_nat (unfinished (run_ops ops)) <= dt ->
      get_caller k (callers st) = None ->
      (if skip then VAccept (remove_nones (s2c_keys snake))
       else validate shipped (ver c) MCall action (remove_nones (s2c_keys snake))) = VAccept w ->
      exists pre, log (start_with shipped errors results_of timeout c st k uid action snake skip suppress true)
                  = pre ++ (now st, CallWritten k (JArr [JNum (NInt 2); uid; JStr action; encode w])) :: log st.
  Proof. exact (then_next_call_is_written shipped actions_of errors results_of fresh timeout c timeout_pos). Qed.
End C03.
Print Assumptions C03_gate_released.
Print Assumptions C03_next_call_written.
Print Assumptions C03_gate_protocol.
Print Assumptions C03_mutex.
Print Assumptions C03_free_when_idle.
Print Assumptions C03_single_waiter.
Print Assumptions C03_inbound_independent.

(* non-vacuity: three callers, a failing write, a cancellation -- one CALL at a time *)
Example C03_example :
  let c := mkCfg V16 [] in
  let ops := [OStart 0 None "Heartbeat" (JObj []) false true true;
              OStart 1 (Some (JStr "b")) "Heartbeat" (JObj []) false true false;
              OStart 2 (Some (JStr "c")) "Heartbeat" (JObj []) false true true;
              OCancel 0; OTick 200] in
  map (fun p => match snd p with CallWritten k _ => Some (fst p, k) | _ => None end)
      (filter (fun p => match snd p with CallWritten _ _ => true | _ => false end)
              (rev (log (run shipped actions_of errors results_of gen_id 120 c ops))))
  = [Some (0, 0%nat); Some (0, 2%nat)]
  /\ holder (run shipped actions_of errors results_of gen_id 120 c ops) = None.
Proof. vm_compute. split; reflexivity. Qed.
