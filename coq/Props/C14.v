(* C14 -- OCPP 1.6 one-decimal quantities are judged by decimal digits, not by binary form.
   A Python float enters the model through its shortest repr (m * 10^e), which is the notion the
   property is stated in; decimal arithmetic is exact integer arithmetic here. *)
From Coq Require Import List String Bool ZArith.
From OV.Model Require Import Json Schema Validate Dispatch DecimalProofs Shipped.
From OV.Gen Require Import Schemas16 Schemas201.
Import ListNotations.
Local Open Scope string_scope.
Local Open Scope Z_scope.

(* every value of magnitude below 10^9 with at most one fractional digit is accepted ... *)
Theorem C14_accept :
  forall m e, mag_lt m e 9 -> one_frac m e = true -> mult_dec m e 1 (-1) = [].
Proof. exact tenth_accept. Qed.
Print Assumptions C14_accept.

(* ... every value with a non-zero digit at the second or a later fractional position is rejected
   with the multipleOf violation (FormatViolation), never a crash or out-of-range ... *)
Theorem C14_reject :
  forall m e, mag_lt m e 9 -> one_frac m e = false ->
              mult_dec m e 1 (-1) = [KMultipleOf] /\ code_of KMultipleOf = CFormatViolation.
Proof. intros m e H1 H2. split; [exact (tenth_reject m e H1 H2) | reflexivity]. Qed.
Print Assumptions C14_reject.

(* ... integer-typed values are accepted and stay integers on the wire ... *)
Theorem C14_int :
  forall z, Z.abs z < 10 ^ 9 -> mult_dec z 0 1 (-1) = [] /\ encode (retag (JNum (NInt z))) = JNum (NInt z).
Proof. intros z H. split; [exact (tenth_int z H) | reflexivity]. Qed.
Print Assumptions C14_int.

(* ... and an accepted value is written with the same decimal digits *)
Theorem C14_wire :
  forall m e k, -1 <= e -> encode (retag (JNum (NDec m e k))) = JNum (NDec m e FFloat).
Proof. exact tenth_wire. Qed.
Print Assumptions C14_wire.

(* the keyword as the validator evaluates it on the re-parsed payload is that remainder test *)
Theorem C14_keyword :
  forall m e k kb,
    v_multiple MDecimal MDecimal (Some (NDec 1 (-1) kb)) (NDec m e k) = mult_dec m e 1 (-1) /\
    (forall z, v_multiple MDecimal MDecimal (Some (NDec 1 (-1) kb)) (NInt z) = mult_dec z 0 1 (-1)).
Proof. exact multiple_is_tenth. Qed.
Print Assumptions C14_keyword.

(* the six positions: exactly these three 1.6 schema files carry multipleOf, two positions each,
   all of them 0.1, and they are exactly the messages validated in decimal mode; no 2.0.1 schema
   has a multipleOf (tables regenerated from the tree) *)
Theorem C14_positions :
  multiple_files schemas16 = [("GetCompositeScheduleResponse", 2%nat); ("RemoteStartTransaction", 2%nat);
                              ("SetChargingProfile", 2%nat)]
  /\ forallb is_tenth (flat_map (fun kv => multiples (snd kv)) schemas16) = true
  /\ multiple_files schemas201 = []
  /\ mode_of V16 MCallResult "GetCompositeSchedule" = MDecimal
  /\ mode_of V16 MCall "RemoteStartTransaction" = MDecimal
  /\ mode_of V16 MCall "SetChargingProfile" = MDecimal.
Proof. vm_compute. repeat split; reflexivity. Qed.
Print Assumptions C14_positions.

(* non-vacuity *)
Example C14_examples :
  mult_dec 214 (-1) 1 (-1) = [] /\ mult_dec 411 (-2) 1 (-1) = [KMultipleOf] /\
  mult_dec 21399999999999995 (-15) 1 (-1) = [KMultipleOf] /\ mag_lt 214 (-1) 9 /\ one_frac 214 (-1) = true.
Proof. vm_compute. repeat split; try reflexivity. Qed.

(* ---------------------------------------------------------------------------------------------
   The Decimal path itself.  Validate.retag is the model's one-line account of
     json.loads(json.dumps(payload, default=_decimal_as_float), parse_float=Decimal, parse_constant=Decimal);
   at the text level (JsonText.print_compact, JsonParse.loads_mode FDecimal) that round trip is proved to be
   retag: every float comes back as the Decimal with exactly the digits of its repr. *)
From OV.Model Require Import JsonText JsonParse JsonRoundTrip RetagProofs.

Theorem C14_decimal_path_is_retag :
  forall limit v, wf FFloat v -> (depth v <= limit)%nat ->
                  loads_mode FDecimal limit (print_compact v) = LValue (retag v).
Proof. exact retag_is_dumps_loads. Qed.
Print Assumptions C14_decimal_path_is_retag.
