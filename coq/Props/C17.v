(* C17 -- unhandled actions: NotImplemented if the version defines them, else NotSupported. *)
From Coq Require Import List String Bool ZArith.
From OV.Model Require Import Json Names Schema Validate Frame Dispatch DispatchProofs Shipped ShippedProofs.
Import ListNotations.
Local Open Scope string_scope.

(* nothing registered for the action (any JSON value): the only event is one CALLERROR, whatever
   the payload and the other routes; no handler is invoked *)
Theorem C17_classify :
  forall c id action payload,
    lookup_route c action = None ->
    handle_call shipped actions_of c id action payload =
    [EvError id [key_error_code actions_of (c_ver c) action] None].
Proof. exact (unhandled_classified shipped actions_of). Qed.
Print Assumptions C17_classify.

Theorem C17_code :
  forall v action,
    (key_error_code actions_of v action = "NotImplemented" <->
     exists s, action = JStr s /\ In s (actions_of v)) /\
    (key_error_code actions_of v action = "NotImplemented" \/
     key_error_code actions_of v action = "NotSupported").
Proof. exact (key_error_code_spec actions_of). Qed.
Print Assumptions C17_code.
