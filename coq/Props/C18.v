(* C18 -- the receive loop: in order, one frame at a time, ends only with the connection. *)
From Coq Require Import List String Bool.
From OV.Model Require Import Json Schema Validate Frame Dispatch DispatchProofs Shipped ShippedProofs.
Import ListNotations.

(* every frame is processed in arrival order, the events of frame i (its reply included) lie
   between the i-th and the (i+1)-th receive, and the loop ends exactly when recv raises,
   propagating that exception (LEnd true) *)
Theorem C18_in_order :
  forall c frames, routes_known c -> handlers_total c ->
    start shipped actions_of c frames =
    flat_map (fun p => LRecv (fst p) :: map LEv (route_message shipped actions_of c (snd p)))
             (combine (seq 0 (List.length frames)) frames)
    ++ [LRecv (List.length frames); LEnd true].
Proof.
  intros c frames Hk Ht. unfold start.
  exact (start_in_order shipped actions_of c frames (routes_known_ok c Hk) Ht 0).
Qed.
Print Assumptions C18_in_order.

Theorem C18_only_recv_ends_it :
  forall c frames, routes_known c -> handlers_total c ->
    ~ In (LEnd false) (start shipped actions_of c frames).
Proof.
  intros c frames Hk Ht. rewrite (C18_in_order c frames Hk Ht). intros H.
  apply in_app_or in H. destruct H as [H|H].
  - apply in_flat_map in H. destruct H as [p [_ Hp]]. destruct Hp as [Hp|Hp]; [discriminate|].
    apply in_map_iff in Hp. destruct Hp as [e [He _]]. discriminate.
  - destruct H as [H|[H|[]]]; discriminate.
Qed.
Print Assumptions C18_only_recv_ends_it.
