(* C10 -- name mapping is a bijection on the whole OCPP vocabulary.
   The vocabulary, the object positions and the class tables are regenerated from the
   working tree on every run; these theorems are re-checked against them. *)
From Coq Require Import List String.
From OV.Model Require Import Json Names Schema Classes Vocab VocabProofs.
From OV.Gen Require Import Schemas16 Schemas201 Classes16 Classes201.
Import ListNotations.

(* every property name at any depth of any shipped schema round-trips and its snake_case
   form is a lower-case identifier that is not a keyword *)
Theorem C10_roundtrip :
  forall n, In n (vocab schemas16 ++ vocab schemas201) ->
            s2c (c2s n) = n /\ lower_identifier (c2s n) = true.
Proof. apply names_ok_lift. vm_compute. reflexivity. Qed.
Print Assumptions C10_roundtrip.

(* two different properties of one object never share a snake_case name *)
Theorem C10_injective :
  forall s, In s (object_nodes schemas16 ++ object_nodes schemas201) ->
            NoDup (map c2s (prop_names s)).
Proof. apply injective_lift. vm_compute. reflexivity. Qed.
Print Assumptions C10_injective.

(* every field of every payload class names a top-level property of its schema *)
Theorem C10_fields_calls16 :
  forall c, In c calls16 -> exists s, assoc (c_name c ++ "") schemas16 = Some s /\ FieldsIn c s.
Proof. apply msg_fields_lift. vm_compute. reflexivity. Qed.
Theorem C10_fields_results16 :
  forall c, In c results16 -> exists s, assoc (c_name c ++ "Response") schemas16 = Some s /\ FieldsIn c s.
Proof. apply msg_fields_lift. vm_compute. reflexivity. Qed.
Theorem C10_fields_calls201 :
  forall c, In c calls201 -> exists s, assoc (c_name c ++ "Request") schemas201 = Some s /\ FieldsIn c s.
Proof. apply msg_fields_lift. vm_compute. reflexivity. Qed.
Theorem C10_fields_results201 :
  forall c, In c results201 -> exists s, assoc (c_name c ++ "Response") schemas201 = Some s /\ FieldsIn c s.
Proof. apply msg_fields_lift. vm_compute. reflexivity. Qed.
Print Assumptions C10_fields_calls16.
Print Assumptions C10_fields_results16.
Print Assumptions C10_fields_calls201.
Print Assumptions C10_fields_results201.

(* every field of every data-type class is a property of an object position of its version
   that offers all fields of the class (the per-position statement is C11_nested) *)
Theorem C10_fields_datatypes16 :
  forall c, In c datatypes16 -> exists s, In s (object_nodes schemas16) /\ FieldsIn c s.
Proof. apply data_fields_lift. vm_compute. reflexivity. Qed.
Theorem C10_fields_datatypes201 :
  forall c, In c datatypes201 -> exists s, In s (object_nodes schemas201) /\ FieldsIn c s.
Proof. apply data_fields_lift. vm_compute. reflexivity. Qed.
Print Assumptions C10_fields_datatypes16.
Print Assumptions C10_fields_datatypes201.
