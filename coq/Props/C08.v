(* C08 -- OCPP-J framing round-trips and parsing is total.  First the value level (the array json.loads
   produced / json.dumps is given), then the text level (json.loads and json.dumps themselves, modelled
   in JsonParse.v / JsonText.v). *)
From Coq Require Import List String Bool ZArith.
From OV.Model Require Import Json JsonText Schema Frame FrameProofs.
Import ListNotations.

Theorem C08_roundtrip :
  forall m, exists m', unpack_v (pack_v m) = UMsg m' /\ same_message m m'.
Proof. exact unpack_pack. Qed.
Print Assumptions C08_roundtrip.

Theorem C08_shape :
  forall m, match m with
            | Call i a p => pack_v m = JArr [JNum (NInt 2); i; a; p]
            | CallResult i p _ => pack_v m = JArr [JNum (NInt 3); i; p]
            | CallError i c d x => exists x', pack_v m = JArr [JNum (NInt 4); i; c; d; x']
            end.
Proof. exact pack_shape. Qed.
Print Assumptions C08_shape.

(* unpack is a total function (by construction) whose result is a message or one of exactly
   three OCPP errors, each for exactly the stated class of inputs *)
Theorem C08_total_classified :
  forall lo,
    match unpack lo with
    | UMsg _ => exists t args k, lo = Loaded (JArr (t :: args)) /\ type_id t = Some k
                                 /\ arity_ok k (List.length args) = true
    | UErr CFormatViolation => lo = LoadsRaised
    | UErr CProtocolError =>
        exists j, lo = Loaded j /\
                  match j with
                  | JArr [] => True
                  | JArr (t :: args) => exists k, type_id t = Some k /\ arity_ok k (List.length args) = false
                  | _ => True
                  end
    | UErr CPropertyConstraintViolation => exists t args, lo = Loaded (JArr (t :: args)) /\ type_id t = None
    | UErr _ => False
    end.
Proof. exact unpack_classified. Qed.
Print Assumptions C08_total_classified.

(* the serialised text (model of json.dumps with compact separators, compared character by character
   with the real to_json output by the correspondence) is the compact array of its parts *)
Theorem C08_text_shape :
  forall m, print_compact (pack_v m) =
  match m with
  | Call i a p => ("[" ++ join "," ["2"; print_compact i; print_compact a; print_compact p] ++ "]")%string
  | CallResult i p _ => ("[" ++ join "," ["3"; print_compact i; print_compact p] ++ "]")%string
  | CallError i c d x =>
      ("[" ++ join "," ["4"; print_compact i; print_compact c; print_compact d;
                        print_compact (match x with Some v => v | None => JNull end)] ++ "]")%string
  end.
Proof. exact pack_text. Qed.
Print Assumptions C08_text_shape.

(* ---------------------------------------------------------------------------------------------
   Text level.  JsonParse.loads models json.loads character by character (tied to CPython's json by
   the `text` correspondence); JsonText.print_compact models json.dumps with compact separators. *)
From OV.Model Require Import Digits JsonParse JsonParseProofs Utf8Proofs StringRoundTrip JsonRoundTrip FrameText FrameTextProofs.

(* parsing is total on texts: a value, a ValueError or a RecursionError -- for EVERY string and every
   recursion budget (in particular the model's fuel is never exhausted) *)
Theorem C08_loads_total :
  forall limit s, (exists v, loads limit s = LValue v) \/ loads limit s = LError \/ loads limit s = LRecursion.
Proof. exact loads_trichotomy. Qed.
Print Assumptions C08_loads_total.

(* unpack on the text: FormatViolation exactly when the text is not decodable (ValueError or
   RecursionError), otherwise the value-level classification of C08_total_classified *)
Theorem C08_text_classified :
  forall limit s,
    (unpack_text limit s = UErr CFormatViolation <-> (loads limit s = LError \/ loads limit s = LRecursion)) /\
    (forall j, loads limit s = LValue j -> unpack_text limit s = unpack_v j).
Proof. exact unpack_text_classified. Qed.
Print Assumptions C08_text_classified.

(* json.loads(json.dumps(v, separators=(",", ":"))) == v for every representable value: ints within the
   digit limit, floats given by their repr (float_ok), strs without a high surrogate directly followed by
   a low one (WfStr), distinct keys, nesting within the recursion budget *)
Theorem C08_json_roundtrip :
  forall limit v, wf FFloat v -> depth v <= limit -> loads limit (print_compact v) = LValue v.
Proof. exact loads_print. Qed.
Print Assumptions C08_json_roundtrip.

(* serialise a message, parse the text back: the same message *)
Theorem C08_text_roundtrip :
  forall limit m, msg_wf m -> msg_depth_ok limit m ->
    exists m', unpack_text limit (pack_text m) = UMsg m' /\ same_message m m'.
Proof. exact unpack_text_pack_text. Qed.
Print Assumptions C08_text_roundtrip.

(* the hypotheses are satisfiable: a CALL with a float, a negative int, escapes, a non-BMP character *)
Example C08_text_roundtrip_applies :
  msg_wf sample_call /\ msg_depth_ok 1497 sample_call.
Proof. exact sample_wf. Qed.

(* the rounding step of the binary64 conversion inside the json.loads model: nearest, ties to even *)
From OV.Model Require Import FloatProofs.
Theorem C08_float_rounding :
  forall n d, (0 < d)%Z ->
    (Z.abs (2 * n - 2 * round_half_even n d * d) <= d)%Z /\ (n / d <= round_half_even n d <= n / d + 1)%Z.
Proof. exact round_half_even_near. Qed.
Print Assumptions C08_float_rounding.
