(* C08 -- OCPP-J framing round-trips and parsing is total (value level: the array json.loads
   produced / json.dumps is given; the text level is CPython's json module, see DESIGN.md). *)
From Coq Require Import List String Bool ZArith.
From OV.Model Require Import Json JsonText Schema Frame FrameProofs.
Import ListNotations.

Theorem C08_roundtrip :
  forall m, exists m', unpack_v (pack_v m) = UMsg m' /\ same_message m m'.
Proof. exact unpack_pack. Qed.
Print Assumptions C08_roundtrip.

Theorem C08_shape :
  forall m, match m with
            | Call i a p => pack_v m = JArr [JNum (NInt 2); i; a; p]
            | CallResult i p _ => pack_v m = JArr [JNum (NInt 3); i; p]
            | CallError i c d x => exists x', pack_v m = JArr [JNum (NInt 4); i; c; d; x']
            end.
Proof. exact pack_shape. Qed.
Print Assumptions C08_shape.

(* unpack is a total function (by construction) whose result is a message or one of exactly
   three OCPP errors, each for exactly the stated class of inputs *)
Theorem C08_total_classified :
  forall lo,
    match unpack lo with
    | UMsg _ => exists t args k, lo = Loaded (JArr (t :: args)) /\ type_id t = Some k
                                 /\ arity_ok k (List.length args) = true
    | UErr CFormatViolation => lo = LoadsRaised
    | UErr CProtocolError =>
        exists j, lo = Loaded j /\
                  match j with
                  | JArr [] => True
                  | JArr (t :: args) => exists k, type_id t = Some k /\ arity_ok k (List.length args) = false
                  | _ => True
                  end
    | UErr CPropertyConstraintViolation => exists t args, lo = Loaded (JArr (t :: args)) /\ type_id t = None
    | UErr _ => False
    end.
Proof. exact unpack_classified. Qed.
Print Assumptions C08_total_classified.

(* the serialised text (model of json.dumps with compact separators, compared character by character
   with the real to_json output by the correspondence) is the compact array of its parts *)
Theorem C08_text_shape :
  forall m, print_compact (pack_v m) =
  match m with
  | Call i a p => ("[" ++ join "," ["2"; print_compact i; print_compact a; print_compact p] ++ "]")%string
  | CallResult i p _ => ("[" ++ join "," ["3"; print_compact i; print_compact p] ++ "]")%string
  | CallError i c d x =>
      ("[" ++ join "," ["4"; print_compact i; print_compact c; print_compact d;
                        print_compact (match x with Some v => v | None => JNull end)] ++ "]")%string
  end.
Proof. exact pack_text. Qed.
Print Assumptions C08_text_shape.
