(* C04 -- nothing schema-invalid is sent unless validation was explicitly skipped; everything
   schema-valid is sent; the verdict is an independent Draft-04 evaluation. *)
From Coq Require Import List String Bool ZArith.
From OV.Model Require Import Json Names Schema SchemaProofs Validate Frame Classes Dispatch DispatchProofs
     Endpoint EndpointProofs Shipped ShippedProofs.
From OV.Gen Require Import Errors.
Import ListNotations.
Local Open Scope Z_scope.
Local Open Scope list_scope.

(* the accept/reject verdict is the declarative Draft-04 reading of the schema, for every schema
   and every instance (type, required, additionalProperties, enum, maxLength, min/maxItems,
   minimum/maximum, multipleOf) *)
Theorem C04_independent_oracle :
  forall sm pm s j, violations sm pm s j = [] <-> Valid sm pm s j.
Proof. exact violations_sound_complete. Qed.
Print Assumptions C04_independent_oracle.

(* validation accepts exactly the payloads that are valid against the shipped schema of
   (version, direction, action) *)
Theorem C04_accept_iff_valid :
  forall v mt a p p',
    validate shipped v mt a p = VAccept p' <->
    exists s, assoc (schema_name v mt a) (shipped v) = Some s /\
              Valid (mode_of v mt a) (mode_of v mt a) s (payload_in_mode v mt a p) /\
              p' = payload_in_mode v mt a p.
Proof. exact (validate_accept_iff shipped). Qed.
Print Assumptions C04_accept_iff_valid.

(* for every action of either version, neither schema can make validation raise a foreign
   exception: it accepts or rejects with an OCPP error (tables re-checked on every run) *)
Theorem C04_no_crash :
  forall v a, In a (actions_of v) -> key_ok shipped v a = true.
Proof. exact shipped_key_ok. Qed.
Print Assumptions C04_no_crash.

Section C04.
  Variable fresh : nat -> string.
  Variable timeout : Z.
  Variable c : cfg.

  (* call() with validation on: an invalid request is never written; call() ends with the error *)
  Theorem C04_call_guard_reject :
    forall st k uid action snake suppress send_ok codes,
      validate shipped (ver c) MCall action (remove_nones (s2c_keys snake)) = VReject codes false ->
      let st' := start_with shipped errors results_of timeout c st k uid action snake false suppress send_ok in
      log st' = log st /\
      get_caller k (callers st') =
        Some (mkCaller uid action (remove_nones (s2c_keys snake)) false suppress send_ok (PDone (OInvalid codes) (now st))).
  Proof. exact (call_guard_reject shipped errors results_of timeout c). Qed.

  (* ... and a valid one (or one whose call skips validation) is written, with the validated payload *)
  Theorem C04_call_guard_accept :
    forall st k uid action snake (skip : bool) suppress w,
      get_caller k (callers st) = None -> holder st = None -> waiters st = [] ->
      (if skip then VAccept (remove_nones (s2c_keys snake))
       else validate shipped (ver c) MCall action (remove_nones (s2c_keys snake))) = VAccept w ->
      let st' := start_with shipped errors results_of timeout c st k uid action snake skip suppress true in
      exists pre, log st' = pre ++ (now st, CallWritten k (JArr [JNum (NInt 2); uid; JStr action; encode w])) :: log st.
  Proof. exact (call_guard_accept shipped errors results_of timeout c). Qed.

  (* a CALLRESULT is written only for a result that passed validation (or on a skipping route) *)
  Theorem C04_result_guard :
    forall id action payload w,
      In (EvResult id w) (handle_call shipped actions_of c id action payload) ->
      exists a r h p obj,
        lookup_route c action = Some (a, r) /\ r_on r = Some h /\
        h_run h (c2s_keys p) (uid_for (h_sig h) id) = HRet obj /\
        ((eff_skip r = true /\ w = encode (s2c_keys (remove_nones obj))) \/
         (eff_skip r = false /\
          exists w', validate shipped (c_ver c) MCallResult a (s2c_keys (remove_nones obj)) = VAccept w' /\ w = encode w')).
  Proof. exact (result_guard shipped actions_of c). Qed.
End C04.
Print Assumptions C04_call_guard_reject.
Print Assumptions C04_call_guard_accept.
Print Assumptions C04_result_guard.
