(* C19 -- relay transparency: what the library hands out, it also takes back. *)
From Coq Require Import List String Bool ZArith Lia.
From OV.Model Require Import Json Names Schema Validate Frame Classes Dispatch Endpoint Net NetProofs Shipped.
Import ListNotations.

(* the representation validation introduces (exact decimals) is a fixed point of that step:
   re-validating a payload the library already re-tagged re-tags nothing more ... *)
Theorem C19_retag_idempotent : forall j, retag (retag j) = retag j.
Proof. exact retag_idem. Qed.
Print Assumptions C19_retag_idempotent.

(* ... and the verdict on the re-tagged payload is the verdict on the original: a value that was
   accepted on the way in is accepted on the way out, one that was rejected is rejected *)
Theorem C19_verdict_unchanged :
  forall s j, violations MDecimal MDecimal s (retag j) = violations MDecimal MDecimal s j.
Proof. exact violations_retag. Qed.
Print Assumptions C19_verdict_unchanged.

(* writing a re-tagged accepted number gives the digits that came in (C14_wire) -- so the second
   hop carries the first hop's values *)
Theorem C19_second_hop_digits :
  forall m e k, (-1 <= e)%Z -> encode (retag (encode (retag (JNum (NDec m e k))))) = encode (retag (JNum (NDec m e k))).
Proof. intros m e k He. simpl. unfold round1. assert ((e >=? -1)%Z = true) as -> by lia. simpl.
       unfold round1. assert ((e >=? -1)%Z = true) as -> by lia. reflexivity. Qed.
Print Assumptions C19_second_hop_digits.
