(* C07 -- dispatch contract: handler once, payload as keywords, hook after the reply. *)
From Coq Require Import List String Bool ZArith.
From OV.Model Require Import Json Names Schema Validate Frame Dispatch DispatchProofs Shipped ShippedProofs.
Import ListNotations.

(* For every CALL: either no handler and no hook runs, or exactly one handler invocation --
   of the handler registered for exactly that action, with the snake_case payload, with the
   CALL's id as call_unique_id iff it declares that parameter -- comes first, no other handler
   is invoked, and the after-hook (if any) runs at most once, with the same keywords, only
   directly after the CALLRESULT has been written. *)
Theorem C07_contract :
  forall c id action payload,
    let evs := handle_call shipped actions_of c id action payload in
    (filter is_handler evs = [] /\ filter is_after evs = []) \/
    exists a r h p rest,
      lookup_route c action = Some (a, r) /\ r_on r = Some h /\
      accepted_payload shipped c a r payload p /\
      evs = EvHandler (h_name h) (c2s_keys p) (uid_for (h_sig h) id) :: rest /\
      filter is_handler rest = [] /\
      (filter is_after rest = [] \/
       exists w k, r_after r = Some k /\
                   rest = [EvResult id w; EvAfter (k_name k) (c2s_keys p) (uid_for (k_sig k) id)]).
Proof. exact (handle_call_contract shipped actions_of). Qed.
Print Assumptions C07_contract.

Theorem C07_uid_iff_declared :
  forall sg id, (uid_for sg id = Some id <-> hs_uid sg = true) /\ (uid_for sg id = None <-> hs_uid sg = false).
Proof. intros sg id. unfold uid_for. destruct (hs_uid sg); split; split; intros H; try reflexivity; discriminate. Qed.
Print Assumptions C07_uid_iff_declared.

(* The contract holds for every CALL of a sequence on one endpoint, whatever came before it (earlier CALLs whose handlers
   or hooks failed, replies, malformed frames): in the run of the receive loop over any frame list, the i-th frame is
   taken with the i-th receive and is followed by exactly the events [route_message] gives for that frame alone. *)
Theorem C07_every_call_of_a_sequence :
  forall c frames i f, routes_known c -> handlers_total c ->
    nth_error frames i = Some f ->
    exists pre post,
      start shipped actions_of c frames =
      pre ++ (LRecv i :: map LEv (route_message shipped actions_of c f)) ++ post.
Proof. intros c frames i f Hk Ht. exact (start_contains_frame shipped actions_of c frames i f (routes_known_ok c Hk) Ht). Qed.
Print Assumptions C07_every_call_of_a_sequence.
