(* C01 -- every inbound CALL gets exactly one reply with its id; the receive path never raises.
   Quantifies over every frame outcome, every handler/after-hook behaviour (the hook's outcome
   does not occur in the model: after the fix in /repo every hook failure is contained), every
   route set over the version's actions.  Excluded by hypothesis, as in the property text:
   handlers that return something that is not a dataclass instance. *)
From Coq Require Import List String Bool ZArith.
From OV.Model Require Import Json Schema Validate Frame Dispatch DispatchProofs Shipped ShippedProofs.
Import ListNotations.
Local Open Scope string_scope.

Theorem C01_exactly_one_reply :
  forall c j id a p,
    routes_known c -> handlers_total c ->
    unpack_v j = UMsg (Call id a p) ->
    exists r, filter is_reply (route_message shipped actions_of c (Loaded j)) = [r]
              /\ reply_id r = Some id
              /\ existsb is_escape (route_message shipped actions_of c (Loaded j)) = false.
Proof. intros c j id a p Hk Ht Hu. exact (route_message_call shipped actions_of c j id a p (routes_known_ok c Hk) Ht Hu). Qed.
Print Assumptions C01_exactly_one_reply.

Theorem C01_silent_otherwise :
  forall c lo,
    (forall id a p, unpack lo <> UMsg (Call id a p)) ->
    filter is_reply (route_message shipped actions_of c lo) = []
    /\ existsb is_escape (route_message shipped actions_of c lo) = false
    /\ filter is_handler (route_message shipped actions_of c lo) = [].
Proof. exact (route_message_silent shipped actions_of). Qed.
Print Assumptions C01_silent_otherwise.

Theorem C01_no_escape :
  forall c lo, routes_known c -> handlers_total c ->
               existsb is_escape (route_message shipped actions_of c lo) = false.
Proof. intros c lo Hk Ht. exact (route_message_no_escape shipped actions_of c lo (routes_known_ok c Hk) Ht). Qed.
Print Assumptions C01_no_escape.

(* non-vacuity: a concrete endpoint and frame meeting the hypotheses *)
Example C01_example :
  let h := mkHandler "on_heartbeat" (mkSig [] [] true false) (fun _ _ => HRet (JObj [("current_time", JStr "t")])) in
  let c := mkCfg V16 [("Heartbeat", mkRoute (Some h) None false)] in
  route_message shipped actions_of c (Loaded (JArr [JNum (NInt 2%Z); JStr "i"; JStr "Heartbeat"; JObj []]))
  = [EvHandler "on_heartbeat" (JObj []) None; EvResult (JStr "i") (JObj [("currentTime", JStr "t")])].
Proof. vm_compute. reflexivity. Qed.

(* informational: the excluded outcome does escape *)
Example C01_nondataclass_escapes :
  let h := mkHandler "on_heartbeat" (mkSig [] [] true false) (fun _ _ => HRetBad) in
  let c := mkCfg V16 [("Heartbeat", mkRoute (Some h) None false)] in
  existsb is_escape (route_message shipped actions_of c (Loaded (JArr [JNum (NInt 2%Z); JStr "i"; JStr "Heartbeat"; JObj []]))) = true.
Proof. vm_compute. reflexivity. Qed.

(* ---- the same over raw texts: the frame is any string, parsed by the json.loads model ---- *)
From OV.Model Require Import JsonParse FrameText.

Definition route_message_text (limit : nat) (c : cfg) (raw : string) : list event :=
  route_message shipped actions_of c (outcome_of (loads limit raw)).

Theorem C01_text_no_escape :
  forall limit c raw, routes_known c -> handlers_total c ->
                      existsb is_escape (route_message_text limit c raw) = false.
Proof. intros limit c raw Hk Ht. apply C01_no_escape; assumption. Qed.
Print Assumptions C01_text_no_escape.

Theorem C01_text_at_most_one_reply :
  forall limit c raw, routes_known c -> handlers_total c ->
                      List.length (filter is_reply (route_message_text limit c raw)) <= 1.
Proof.
  intros limit c raw Hk Ht. unfold route_message_text.
  destruct (outcome_of (loads limit raw)) as [j|] eqn:E.
  - destruct (unpack_v j) as [[id a p | id p a | id cd d x] | e] eqn:U.
    + destruct (C01_exactly_one_reply c j id a p Hk Ht U) as [r [H _]]. rewrite H. simpl. auto.
    + destruct (C01_silent_otherwise c (Loaded j)) as [H _]; [simpl; rewrite U; discriminate|]. rewrite H. simpl. auto.
    + destruct (C01_silent_otherwise c (Loaded j)) as [H _]; [simpl; rewrite U; discriminate|]. rewrite H. simpl. auto.
    + destruct (C01_silent_otherwise c (Loaded j)) as [H _]; [simpl; rewrite U; discriminate|]. rewrite H. simpl. auto.
  - destruct (C01_silent_otherwise c LoadsRaised) as [H _]; [simpl; discriminate|]. rewrite H. simpl. auto.
Qed.
Print Assumptions C01_text_at_most_one_reply.

Example C01_text_example :
  let h := mkHandler "on_heartbeat" (mkSig [] [] true false) (fun _ _ => HRet (JObj [("current_time", JStr "t")])) in
  let c := mkCfg V16 [("Heartbeat", mkRoute (Some h) None false)] in
  route_message_text 1000 c " [2, ""i"", ""Heartbeat"", {}] "
  = [EvHandler "on_heartbeat" (JObj []) None; EvResult (JStr "i") (JObj [("currentTime", JStr "t")])]
  /\ route_message_text 1000 c "[2, ""i"", ""Heartbeat"", {}" = [].
Proof. vm_compute. split; reflexivity. Qed.
