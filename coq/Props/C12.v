(* C12 -- enumerations and action lists agree with the schemas (tables regenerated every run). *)
From Coq Require Import List String Bool.
From OV.Model Require Import Json Names Schema Classes Vocab ClassCheck ClassCheckProofs.
From OV.Gen Require Import Schemas16 Schemas201 Classes16 Classes201 Enums16 Enums201 Known.
Import ListNotations.
Local Open Scope string_scope.
Local Open Scope list_scope.

Definition pairs16 :=
  table_enum_pairs datatypes16 "" schemas16 calls16 ++ table_enum_pairs datatypes16 "Response" schemas16 results16.
Definition pairs201 :=
  table_enum_pairs datatypes201 "Request" schemas201 calls201 ++ table_enum_pairs datatypes201 "Response" schemas201 results201.

(* every legal wire value at every enum-annotated position is a member of the annotated class *)
Theorem C12_members16 :
  forall n l cls field v, In (n, l, cls, field) pairs16 -> In v l ->
                          exists members, assoc n enums16 = Some members /\ In v members.
Proof. apply missing_members_nil. vm_compute. reflexivity. Qed.
Theorem C12_members201 :
  forall n l cls field v, In (n, l, cls, field) pairs201 -> In v l ->
                          exists members, assoc n enums201 = Some members /\ In v members.
Proof. apply missing_members_nil. vm_compute. reflexivity. Qed.
Print Assumptions C12_members16.
Print Assumptions C12_members201.

(* no member of such a class is dead -- except the open findings listed in known_findings.jsonl,
   which are carried here explicitly so that any OTHER dead member breaks the theorem *)
Definition dead_key (p : eproblem) : string * string :=
  match p with EDeadMember e v => (e, v) | _ => ("", "") end.
Definition pair_eqb (a b : string * string) : bool := String.eqb (fst a) (fst b) && String.eqb (snd a) (snd b).

Theorem C12_no_dead :
  forallb (fun p => existsb (pair_eqb (dead_key p)) known_dead16) (dead_members enums16 pairs16) = true /\
  forallb (fun p => existsb (pair_eqb (dead_key p)) known_dead201) (dead_members enums201 pairs201) = true.
Proof. vm_compute. split; reflexivity. Qed.
Print Assumptions C12_no_dead.

(* the Action enumeration = actions with a request schema = with a response schema = with a
   request class = with a response class *)
Theorem C12_actions :
  same_set actions16 (map c_name calls16) = true /\ same_set actions16 (map c_name results16) = true /\
  same_set actions16 (names_with_suffix "Response" (keys schemas16)) = true /\
  same_set actions16 (filter (fun n => match strip_suffix "Response" n with Some _ => false | None => true end) (keys schemas16)) = true /\
  same_set actions201 (map c_name calls201) = true /\ same_set actions201 (map c_name results201) = true /\
  same_set actions201 (names_with_suffix "Response" (keys schemas201)) = true /\
  same_set actions201 (names_with_suffix "Request" (keys schemas201)) = true /\
  nodupb actions16 = true /\ nodupb actions201 = true.
Proof. vm_compute. repeat split; reflexivity. Qed.
Print Assumptions C12_actions.
